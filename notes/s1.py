# Spike: does z3 prove that inserting a leaf at a dead-end of a BST search preserves
# the first-order ghost-bound invariants (B1-B3, GAP, DISJ)?  Keys: Int with -inf/+inf as sentinels.
from z3 import *
import time
A=IntSort()
def mk(suffix):
    return dict(key=Function('key'+suffix,A,IntSort()), lo=Function('lo'+suffix,A,IntSort()), hi=Function('hi'+suffix,A,IntSort()),
                left=Function('left'+suffix,A,A), right=Function('right'+suffix,A,A), grp=Function('grp'+suffix,A,A))
NEG,POS=Int('NEG'),Int('POS')
def node(S,a,size): return And(a>=1,a<size)
def inv(S,size):
    a,b=Ints('a b')
    key,lo,hi,left,right,grp=[S[k] for k in ('key','lo','hi','left','right','grp')]
    cs=[]
    N=lambda x: And(x>=1,x<size)
    cs.append(ForAll([a],Implies(N(a),And(lo(a)<key(a),key(a)<hi(a),NEG<key(a),key(a)<POS, lo(a)>=NEG, hi(a)<=POS))))
    cs.append(ForAll([a],Implies(N(a),And(Or(left(a)==0,And(N(left(a)),left(a)>a,grp(left(a))==grp(a),lo(left(a))==lo(a),hi(left(a))==key(a))),
                                          Or(right(a)==0,And(N(right(a)),right(a)>a,grp(right(a))==grp(a),lo(right(a))==key(a),hi(right(a))==hi(a)))))))
    # GAP
    cs.append(ForAll([a,b],Implies(And(N(a),N(b),grp(a)==grp(b),lo(a)<key(b),key(b)<key(a)),left(a)!=0)))
    cs.append(ForAll([a,b],Implies(And(N(a),N(b),grp(a)==grp(b),key(a)<key(b),key(b)<hi(a)),right(a)!=0)))
    # DISJ: empty slots of distinct (node,side) in the same group have disjoint open intervals
    def slotL(x): return (lo(x),key(x))
    def slotR(x): return (key(x),hi(x))
    def disj(i,j): return Or(i[1]<=j[0], j[1]<=i[0])
    cs.append(ForAll([a,b],Implies(And(N(a),N(b),a!=b,grp(a)==grp(b),left(a)==0,left(b)==0),disj(slotL(a),slotL(b)))))
    cs.append(ForAll([a,b],Implies(And(N(a),N(b),a!=b,grp(a)==grp(b),right(a)==0,right(b)==0),disj(slotR(a),slotR(b)))))
    cs.append(ForAll([a,b],Implies(And(N(a),N(b),grp(a)==grp(b),left(a)==0,right(b)==0),disj(slotL(a),slotR(b)))))
    # distinct keys within group
    cs.append(ForAll([a,b],Implies(And(N(a),N(b),a!=b,grp(a)==grp(b)),key(a)!=key(b))))
    return cs
S=mk(''); S2=mk('2')
size=Int('size'); n0=Int('n0'); k=Int('k')
pre=inv(S,size)
N=lambda x: And(x>=1,x<size)
# search dead-ended at n0 going left
dead=[N(n0), S['lo'](n0)<k, k<S['hi'](n0), k<S['key'](n0), S['left'](n0)==0, NEG<k, k<POS, size>=1]
x=size
a=Int('a')
upd=[]
for f in ('key','lo','hi','left','right','grp'):
    upd.append(ForAll([a],Implies(And(a!=x, Or(f!='left',a!=n0)), S2[f](a)==S[f](a))))
upd+= [S2['key'](x)==k, S2['lo'](x)==S['lo'](n0), S2['hi'](x)==S['key'](n0), S2['left'](x)==0, S2['right'](x)==0, S2['grp'](x)==S['grp'](n0), S2['left'](n0)==x]
post=inv(S2,size+1)
names=['B1','B23','GAPL','GAPR','DLL','DRR','DLR','DISTINCT']
for nm,g in zip(names,post):
    s=Solver(); s.set('timeout',60000)
    s.add(pre+dead+upd+[Not(g)])
    t=time.time(); r=s.check(); print(nm,r,round(time.time()-t,2))
s=Solver(); s.set('timeout',60000); s.add(pre+dead+upd+[size==4]); print('vacuity (must be sat):',s.check())
# mutation: insert on wrong side (right instead of left) must be refuted
upd_bad=[u for u in upd[:5]]+[ForAll([a],Implies(And(a!=x,a!=n0), S2['left'](a)==S['left'](a))) ]
