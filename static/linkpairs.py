"""
LK-PAIR: both link multimaps are fed from the same submitted pairs (C03, DESIGN 5 C03).
In Traph.add_links and Traph.index_batch_crawl_iter every submitted (source, target) pair
must be recorded once on the outbound side and once on the inbound side, on EVERY path
through the body of the loop that enumerates the pairs:
  add_links               outlinks[source].append(target)   and   inlinks[target].append(source)
  index_batch_crawl_iter  target_blocks.append(<block of target>)   and   inlinks[target].append(source)
Obligation per function: the set of (outbound appends, inbound appends) over all paths
of one iteration is {(1, 1)}.  Path-sensitive over if/else, syntax-directed.
"""
import ast

SPEC = {
    "add_links": {"out": "outlinks", "in": "inlinks"},
    "index_batch_crawl_iter": {"out": "target_blocks", "in": "inlinks"},
}


def _appends(stmt, name):
    n = 0
    for x in ast.walk(stmt):
        if isinstance(x, ast.Call) and isinstance(x.func, ast.Attribute) and x.func.attr == "append":
            v = x.func.value
            base = v.value if isinstance(v, ast.Subscript) else v
            if isinstance(base, ast.Name) and base.id == name:
                n += 1
    return n


def _paths(stmts, spec):
    """set of (n_out, n_in) over the paths of a statement list (loops inside count once)"""
    acc = {(0, 0)}
    for s in stmts:
        if isinstance(s, ast.If):
            a = _paths(s.body, spec)
            b = _paths(s.orelse, spec) if s.orelse else {(0, 0)}
            br = a | b
            acc = {(x + u, y + v) for (x, y) in acc for (u, v) in br}
            if s.body and isinstance(s.body[-1], (ast.Continue, ast.Return, ast.Raise, ast.Break)):
                pass
        else:
            u, v = _appends(s, spec["out"]), _appends(s, spec["in"])
            acc = {(x + u, y + v) for (x, y) in acc}
    return acc


def check(program, cname="Traph"):
    obs = []
    cls = program.classes[cname][1]
    for f in cls.body:
        if not (isinstance(f, ast.FunctionDef) and f.name in SPEC):
            continue
        spec = SPEC[f.name]
        q = "%s.%s" % (cname, f.name)
        names = set(n.id for n in ast.walk(f) if isinstance(n, ast.Name))
        if spec["out"] not in names or spec["in"] not in names:
            obs.append({"id": "LK-PAIR(%s)" % q, "ok": True, "undecided": "the bookkeeping containers %s / %s are not present any more" % (spec["out"], spec["in"])})
            continue
        # the innermost loop whose body appends to the outbound container
        loops = [n for n in ast.walk(f) if isinstance(n, ast.For) and any(_appends(s, spec["out"]) for s in n.body)]
        inner = [l for l in loops if not any(isinstance(m, ast.For) and m is not l and any(_appends(s, spec["out"]) for s in m.body) for m in ast.walk(l))]
        if not inner:
            obs.append({"id": "LK-PAIR(%s)" % q, "ok": False, "detail": "no loop records outbound links"})
            continue
        ps = _paths(inner[0].body, spec)
        ok = ps == {(1, 1)}
        obs.append({"id": "LK-PAIR(%s:every-pair-recorded-once-on-both-sides)" % q, "ok": ok, "detail": None if ok else "(outbound, inbound) appends per submitted pair over the paths of the loop body: %s" % sorted(ps)})
    return obs
