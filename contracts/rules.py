"""
Contracts for the installation and removal of webentity creation rules (C06 "installing
a rule on a populated index has the same effect as re-inserting its pages", C11 "the
same rules re-supplied"), verified against the contracts of what they call; the trie is
abstract (see contracts/ladder.py for the stubs' provenance):

    Traph.add_webentity_creation_rule_iter(rule_prefix, pattern, write_in_trie)
    Traph.remove_webentity_creation_rule(rule_prefix)

`re.compile` is trusted (A13); what is checked about it is HOW it is called: with the
given pattern and the case-insensitive flag, the result being stored under the rule's
prefix.
"""
import z3

from pyvc.lib import Contract, LoopSpec, SeqView
from pyvc.sym import BOOL, BYTES, INT, BoundBuiltin, ModuleVal, Opt, Path, Ref, Unsupported, fresh, to_z3

PREFIX = z3.Const("rule_prefix", BYTES)
PATTERN = z3.Const("pattern", BYTES)
N_ITEMS = z3.Int("n_subtree_items")
ITEM_LRU = z3.Function("ITEM_LRU", INT, BYTES)
IS_PAGE = z3.Function("IS_PAGE", INT, BOOL)
NEW = z3.Function("PAGE_WAS_NEW", INT, BOOL)
NEWSUM = z3.Function("NEW_PAGES_AMONG_FIRST_CALLS", INT, INT)
NP = z3.Function("N_PAGES_AMONG_FIRST_ITEMS", INT, INT)
FOUND = z3.Bool("rule_prefix_stored")


def axioms():
    j = z3.Int("j")
    return [
        N_ITEMS >= 0,
        NEWSUM(0) == 0,
        z3.ForAll([j], z3.Implies(j >= 0, NEWSUM(j + 1) == NEWSUM(j) + z3.If(NEW(j), 1, 0))),
        NP(0) == 0,
        z3.ForAll([j], z3.Implies(j >= 0, z3.And(NP(j + 1) == NP(j) + z3.If(IS_PAGE(j), 1, 0), NP(j) >= 0))),
    ]


class Regex(object):
    def __init__(self, pattern, case_insensitive):
        self.pattern, self.case_insensitive = pattern, case_insensitive


def module_call(base):
    def mc(ex, mod, name, args, kw, p, fctx, ln):
        if mod == "re" and name == "compile":
            flags = args[1] if len(args) > 1 else kw.get("flags")
            import re as _re

            ci = isinstance(flags, int) and bool(int(flags) & int(_re.I))
            return [(p, Regex(args[0], ci))]
        return base(ex, mod, name, args, kw, p, fctx, ln)

    return mc


def rules_setitem(ex, p, base, idx, v, ln):
    p.w["__stored_key"] = to_z3(idx)
    p.w["__stored_rule"] = v
    p.w["__stores"] = p.w["__stores"] + 1
    p.mut += 1
    return p


def rules_getitem(ex, p, base, idx, ln):
    ex.oblige(p, "rule-lookup:under-the-rule's-prefix", to_z3(idx) == PREFIX, ln, "post")
    return True  # a compiled regular expression is truthy; nothing else is asked of it here


def rules_delitem(ex, p, base, idx, ln):
    ex.oblige(p, "rule-removed:under-the-rule's-prefix", to_z3(idx) == PREFIX, ln, "post")
    p.w["__deleted"] = p.w["__deleted"] + 1
    p.mut += 1
    return p


def mk_world(p):
    p.w["__stores"] = 0
    p.w["__deleted"] = 0
    p.w["__stored_key"] = None
    p.w["__stored_rule"] = None
    p.w["__lookups"] = 0
    p.w["__phase"] = z3.IntVal(0)  # 0 rest, 1 flagged (or unflagged), awaiting the write
    p.w["__flag_ops"] = 0
    p.w["__writes"] = z3.IntVal(0)
    p.w["__calls"] = z3.IntVal(0)
    p.w["__cur"] = z3.IntVal(-1)
    p.w["__final"] = None
    p.w["__walk"] = None


class AddLruCallee(Contract):
    qual = "LRUTrie.add_lru"

    def apply(self, ex, p, recv, args, kw, ln):
        q = p.fork()
        ex.oblige(q, "anchor-inserted-under-the-rule's-prefix", to_z3(args[0]) == PREFIX, ln, "post")
        q.w["__lookups"] = q.w["__lookups"] + 1
        node = q.new_obj("LRUTrieNode", {"__abstract": True, "__anchor": True})
        hist = q.new_obj("LRUTrieWalkHistory", {"__abstract": True})
        q.mut += 1
        return [(q, (node, hist))]


class LruNodeCallee(Contract):
    qual = "LRUTrie.lru_node"

    def apply(self, ex, p, recv, args, kw, ln):
        q = p.fork()
        ex.oblige(q, "anchor-looked-up-under-the-rule's-prefix", to_z3(args[0]) == PREFIX, ln, "post")
        q.w["__lookups"] = q.w["__lookups"] + 1
        node = q.new_obj("LRUTrieNode", {"__abstract": True, "__anchor": True})
        q.mut += 1
        return [(q, Opt(z3.Not(FOUND), node))]


def _flag(name, kind):
    class F(Contract):
        qual = "LRUTrieNode." + name

        def apply(self, ex, p, recv, args, kw, ln):
            q = p.fork()
            ex.oblige(q, "%s:on-the-anchor-node-at-rest" % name, z3.And(z3.BoolVal(bool(q.obj(recv).f.get("__anchor"))), q.w["__phase"] == 0), ln, "post")
            q.w["__phase"] = z3.IntVal(1)
            q.w["__flag_ops"] = q.w["__flag_ops"] + 1
            q.w["__flag_kind"] = kind
            q.mut += 1
            return [(q, None)]

    return F()


class NodeWrite(Contract):
    qual = "LRUTrieNode.write"

    def apply(self, ex, p, recv, args, kw, ln):
        q = p.fork()
        ex.oblige(q, "write:of-the-anchor-node-right-after-its-flag-change", z3.And(z3.BoolVal(bool(q.obj(recv).f.get("__anchor"))), q.w["__phase"] == 1), ln, "post")
        q.w["__phase"] = z3.IntVal(0)
        q.w["__writes"] = z3.simplify(q.w["__writes"] + 1)
        q.mut += 1
        return [(q, None)]


class DfsCallee(Contract):
    qual = "LRUTrie.dfs_iter"

    def seq(self, ex, p, recv, args, kw, ln):
        q = p.fork()
        ok = isinstance(args[0], Ref) and q.obj(args[0]).f.get("__anchor")
        ex.oblige(q, "subtree-walk-starts-at-the-anchor-with-its-prefix,after-the-flag-is-written", z3.And(z3.BoolVal(bool(ok)), to_z3(args[1]) == PREFIX, q.w["__writes"] == 1, q.w["__phase"] == 0), ln, "post")
        q.w["__walk"] = True
        jv = fresh("item_index", INT)
        q.w["__cur"] = jv
        node = q.new_obj("LRUTrieNode", {"__abstract": True, "__item": True})
        q.mut += 1
        return q, SeqView(N_ITEMS, lambda j: (node, ITEM_LRU(j)), facts=lambda j: [jv == j])


class IsPage(Contract):
    qual = "LRUTrieNode.is_page"

    def apply(self, ex, p, recv, args, kw, ln):
        if not p.obj(recv).f.get("__item"):
            raise Unsupported("is_page of a node that is not a subtree item")
        return [(p, IS_PAGE(p.w["__cur"]))]


class AddPageCallee(Contract):
    qual = "Traph.__add_page"

    def apply(self, ex, p, recv, args, kw, ln):
        q = p.fork()
        c = q.w["__calls"]
        j = q.w["__cur"]
        crawled = kw.get("crawled", args[1] if len(args) > 1 else False)
        ex.oblige(q, "re-insertion:of-the-page-item-in-hand,without-crawled-mark", z3.And(IS_PAGE(j), to_z3(args[0]) == ITEM_LRU(j), z3.Not(to_z3(ex.truth(crawled, q)))), ln, "post")
        q.w["__calls"] = z3.simplify(c + 1)
        node = q.new_obj("LRUTrieNode", {"__abstract": True})
        cw = q.new_obj("dict", {"dom": fresh("cw_dom", z3.ArraySort(INT, BOOL)), "val": fresh("cw_val", z3.ArraySort(INT, INT)), "n": fresh("cw_n", INT)})
        rep = q.new_obj("TraphWriteReport", {"created_webentities": cw, "nb_created_pages": z3.If(NEW(c), 1, 0)})
        q.mut += 1
        return [(q, (node, rep))]


class ShouldYield(Contract):
    qual = "TraphIteratorState.should_yield"

    def apply(self, ex, p, recv, args, kw, ln):
        return [(p, fresh("suspend_here", BOOL))]


def _idx(p, which):
    ks = sorted([k for k in p.env if k.startswith("__i")], key=lambda k: int(k[3:]))
    return to_z3(p.env[ks[which]])


def walk_inv(ex, p):
    j = _idx(p, 0)
    r = p.obj(p.env["report"])
    return [
        ("one-re-insertion-per-page-item-so-far", z3.And(j >= 0, p.w["__calls"] == NP(j))),
        ("report-counts-the-new-pages-so-far", to_z3(r.f["nb_created_pages"]) == NEWSUM(p.w["__calls"])),
        ("anchor-flag-written-once", z3.And(p.w["__writes"] == 1, p.w["__phase"] == 0)),
    ]


def walk_havoc(ex, p):
    r = p.obj(p.env["report"])
    r.f["nb_created_pages"] = fresh("nb", INT)
    cw = p.obj(r.f["created_webentities"])
    cw.f["dom"], cw.f["val"], cw.f["n"] = fresh("cw_dom", z3.ArraySort(INT, BOOL)), fresh("cw_val", z3.ArraySort(INT, INT)), fresh("cw_n", INT)
    st = p.env.get("state")
    if isinstance(st, Ref):
        p.obj(st).f["n_iterations"] = fresh("n_iterations", INT)


def _traph(p):
    rules = p.new_obj("rulemap", {})
    trie = p.new_obj("LRUTrie", {})
    return p.new_obj("Traph", {"lru_trie": trie, "encoding": "utf-8", "webentity_creation_rules": rules})


class AddRule(Contract):
    """add_webentity_creation_rule_iter: the pattern is compiled case-insensitively and
    stored under the rule's prefix; with write_in_trie the prefix is inserted, its node
    flagged and written, then every page item of the subtree walk is re-inserted through
    __add_page (default crawled mark) and the reports are summed; without it nothing in
    the trie is touched; the final yield hands the report back."""

    qual = "Traph.add_webentity_creation_rule_iter"

    def setups(self, ex):
        for write in (True, False):
            p = Path()
            for ax in axioms():
                p.assume(ax)
            mk_world(p)
            t = _traph(p)
            yield p, t, [PREFIX, PATTERN], {"write_in_trie": write}, write

    def on_yield(self, ex, p, v, ln, tag):
        if isinstance(v, Ref) and p.obj(v).f.get("done") is True:
            p.w["__final"] = p.obj(v).f.get("result")
        return [(p, "normal", None)]

    def check(self, ex, p0, res, write):
        for p1, kind, val in res:
            if kind == "raise":
                ex.oblige(p1, "raises-nothing(%s)" % val[0], False, val[1])
                continue
            rule = p1.w["__stored_rule"]
            ok = isinstance(rule, Regex)
            ex.oblige(p1, "rule-stored-once-under-its-prefix", z3.BoolVal(False) if not (ok and p1.w["__stores"] == 1) else p1.w["__stored_key"] == PREFIX, None)
            ex.oblige(p1, "rule-compiled-from-the-given-pattern", z3.BoolVal(False) if not ok else to_z3(rule.pattern) == PATTERN, None)
            ex.oblige(p1, "rule-compiled-case-insensitively", z3.BoolVal(bool(ok and rule.case_insensitive)), None)
            rep = p1.w["__final"]
            okr = isinstance(rep, Ref) and p1.obj(rep).cls == "TraphWriteReport"
            ex.oblige(p1, "finishes-with-the-report-of-the-re-insertions", z3.BoolVal(False) if not okr else to_z3(p1.obj(rep).f["nb_created_pages"]) == NEWSUM(p1.w["__calls"]), None)
            if write:
                ex.oblige(p1, "anchor-inserted,flagged-as-rule-and-written", z3.And(z3.BoolVal(p1.w["__lookups"] == 1 and p1.w["__flag_ops"] == 1 and p1.w.get("__flag_kind") == "flag"), p1.w["__writes"] == 1, p1.w["__phase"] == 0), None)
                ex.oblige(p1, "subtree-walked-and-every-page-item-re-inserted-once", z3.And(z3.BoolVal(p1.w["__walk"] is True), p1.w["__calls"] == NP(N_ITEMS)), None)
            else:
                ex.oblige(p1, "without-write_in_trie-the-trie-is-not-touched", z3.And(z3.BoolVal(p1.w["__lookups"] == 0 and p1.w["__flag_ops"] == 0 and p1.w["__walk"] is None), p1.w["__writes"] == 0, p1.w["__calls"] == 0), None)


class RemoveRule(Contract):
    """remove_webentity_creation_rule (the rule being installed): the regex is dropped
    from the rule map; the library's error iff the prefix is not stored; otherwise the
    anchor node is unflagged and written; returns True."""

    qual = "Traph.remove_webentity_creation_rule"

    def setups(self, ex):
        p = Path()
        mk_world(p)
        t = _traph(p)
        yield p, t, [PREFIX], {}, "any"

    def check(self, ex, p0, res, tag):
        for p1, kind, val in res:
            ex.oblige(p1, "rule-dropped-from-the-rule-map-once", z3.BoolVal(p1.w["__deleted"] == 1), None)
            if kind == "raise":
                if val[0] != "TraphException":
                    ex.oblige(p1, "raises-only-the-library's-error(%s)" % val[0], False, val[1])
                    continue
                ex.oblige(p1, "fails=>the-anchor-is-not-stored", z3.Not(FOUND), val[1])
                ex.oblige(p1, "fails=>nothing-written", p1.w["__writes"] == 0, val[1])
                continue
            ex.oblige(p1, "anchor-unflagged-and-written", z3.And(FOUND, z3.BoolVal(p1.w["__flag_ops"] == 1 and p1.w.get("__flag_kind") == "unflag"), p1.w["__writes"] == 1, p1.w["__phase"] == 0), None)
            ex.oblige(p1, "returns-True", to_z3(ex.truth(val, p1)), None)


def install(lib):
    lib.module_call = module_call(lib.module_call)
    lib.methods[("rulemap", "__setitem__")] = rules_setitem
    lib.methods[("rulemap", "__getitem__")] = rules_getitem
    lib.methods[("rulemap", "__delitem__")] = rules_delitem
    lib.loop_spec("Traph.add_webentity_creation_rule_iter::for#0", LoopSpec(walk_inv, havoc=walk_havoc, world=("__calls",)))
    return [AddLruCallee(), LruNodeCallee(), _flag("flag_as_webentity_creation_rule", "flag"), _flag("unflag_as_webentity_creation_rule", "unflag"), NodeWrite(), DfsCallee(), IsPage(), AddPageCallee(), ShouldYield(), AddRule(), RemoveRule()]


GROUP = "rules"
