import sys, tempfile, shutil, warnings, random, os, re, traceback
sys.path.insert(0,'/tmp/x/repo'); sys.path.insert(0,'/repo/test')
warnings.simplefilter('ignore')
from traph import Traph, TraphException
from traph.helpers import lru_iter, lru_variations
sys.path.insert(0,'/repo')
from test.config import WEBENTITY_CREATION_RULES_REGEXES as RX
def prefixes_of(l):
    s=list(lru_iter(l)); return [b"".join(s[:i]) for i in range(1,len(s)+1)]
def rand_lru(r):
    sch=r.choice([b"s:http|",b"s:https|"])
    port=r.choice([b"",b"",b"t:80|"])
    hosts=[r.choice([b"h:com|",b"h:fr|"])]+[b"h:"+r.choice([b"a",b"b",b"www"])+b"|" for _ in range(r.randint(0,2))]
    path=[b"p:"+r.choice([b"x",b"y",b"z"])+b"|" for _ in range(r.randint(0,3))]
    return sch+port+b"".join(hosts)+b"".join(path)
def run(seed):
    r=random.Random(seed)
    d=tempfile.mkdtemp()
    default=r.choice([RX['domain'],RX['subdomain'],RX['path1']])
    rules={}
    for _ in range(r.randint(0,2)):
        a=rand_lru(r); a=b"".join(list(lru_iter(a))[:r.randint(2,4)])
        rules[a]=RX[r.choice(['path1','path2','subdomain','domain'])]
    t=Traph(folder=d, default_webentity_creation_rule=default, webentity_creation_rules=dict(rules))
    pref={}  # model prefix->weid
    crx={k:re.compile(v,re.I) for k,v in rules.items()}; drx=re.compile(default,re.I)
    hist=[('cfg',default[-20:],rules)]
    def model_add(l):
        E=None
        for p in prefixes_of(l):
            if p in pref: E=p
        K=b""
        for p in prefixes_of(l):
            if p in crx:
                mm=crx[p].search(l)
                if mm and len(mm.group())>len(K): K=mm.group()
        if not K and E is None:
            mm=drx.search(l); K=mm.group() if mm else b""
        if K and (E is None or len(K)>len(E)):
            return K, [v for v in lru_variations(K) if v not in pref]
        return None,[]
    try:
        maxid=0
        for i in range(25):
            op=r.choice(['page','page','page','rule','reopen','potential'])
            if op=='page':
                l=rand_lru(r); hist.append((op,l))
                pot=t.get_potential_prefix(l)
                K,att=model_add(l)
                E=None
                for p in prefixes_of(l):
                    if p in pref: E=p
                expot = K if K else (E if E else False)
                assert pot==expot or (not pot and not expot),('potential',l,pot,expot)
                rep=t.add_page(l)
                if K:
                    assert len(rep.created_webentities)==1,(rep,K,att)
                    (w,ps),=rep.created_webentities.items()
                    assert set(ps)==set(att) and K in ps,(ps,att,K)
                    assert w>maxid; maxid=w
                    for p in att: pref[p]=w
                else:
                    assert not rep.created_webentities,(rep,l,E)
                if K or E:
                    assert t.retrieve_webentity(l)==pref[K or E],(l,t.retrieve_prefix(l),K,E)
                else:
                    try: t.retrieve_webentity(l); assert 0,'should fail'
                    except TraphException: pass
            elif op=='rule':
                a=rand_lru(r); a=b"".join(list(lru_iter(a))[:r.randint(2,4)]); pat=RX[r.choice(['path1','path2','subdomain'])]
                hist.append((op,a,pat[-12:]))
                rules[a]=pat; crx[a]=re.compile(pat,re.I)
                pages=[l for n,l in t.pages_iter()]
                rep=t.add_webentity_creation_rule(a,pat)
                # effect: same as re-inserting pages under anchor in some order: check fixpoint: afterwards re-adding every page beneath creates nothing & model sync by reading
                newp=dict((l,n.webentity()) for n,l in t.webentity_prefix_iter())
                created={}
                for w,ps in rep.created_webentities.items():
                    assert w>maxid or True
                    for p in ps: created[p]=w
                assert {k:v for k,v in newp.items() if k not in pref}==created,('rule report',created,newp,pref)
                pref.update(created); maxid=max([maxid]+list(created.values()))
                for l in pages:
                    if l.startswith(a):
                        K,att=model_add(l); assert not K,('not fixpoint',l,K)
            elif op=='reopen':
                hist.append((op,)); t.close(); t=Traph(folder=d, default_webentity_creation_rule=default, webentity_creation_rules=dict(rules))
            assert dict((l,n.webentity()) for n,l in t.webentity_prefix_iter())==pref
    except Exception as e:
        print('SEED',seed,'FAIL',type(e).__name__,str(e)[:500])
        for h in hist: print('   ',str(h)[:200])
        traceback.print_exc(limit=3); return False
    finally:
        t.close(); shutil.rmtree(d)
    return True
bad=0
for s in range(int(sys.argv[1]),int(sys.argv[2])):
    if not run(s): bad+=1
    if bad>=3: break
print('done',bad)
