import sys
sys.path.insert(0,'/tmp/x/repo')
from traph.helpers import lru_variations
def tryv(l):
    try: return lru_variations(l)
    except Exception as e: return ('EXC',type(e).__name__,str(e))
for l in [b"s:http|", b"s:http|t:80|", b"s:http|p:x|", b"s:https|h:com|h:a|p:s:http|", b"s:http|h:com|h:a|p:s:http|",b"s:ftp|h:com|h:a|p:s:https|x|",
          b"s:http|h:com|h:a|p:h:com|h:a|", b"s:http|h:com|", b"s:http|h:com|h:www|", b"s:http|h:www|", b"s:http|h:www|h:a|",b"s:http|t:80|h:com|h:a|h:www|p:h:www|",
          b"s:http|h:com|h:a|h:com|h:a|",b"s:https|h:com|h:s:http|"]:
    v=tryv(l); print(l, '->', v)
    if isinstance(v,list):
        for m in v:
            vv=tryv(m)
            if not isinstance(vv,list) or set(vv)!=set(v): print('    NOT CLOSED via',m,'->',vv)
        if len(set(v))!=len(v): print('    DUP')
