#!/usr/bin/env python3
"""
vcheck — decide one property of /verif/properties.jsonl against /repo's working tree.

    python3-vt vcheck.py C07 [--tier quick|thorough]
    python3-vt vcheck.py replay <replay file>
    python3-vt vcheck.py baseline            (re-record baseline_obligations.json)

exit 0  the property held on everything decided / explored
exit 1  a violation, with a line  VIOLATION property=<id> replay=<path> [no-failing-input-found]
exit 3  the checker itself failed (never mapped to a violation)

For each property three kinds of machinery run (DESIGN.md sections 2, 5, 7):
  1. deductive: contracts on the real functions, obligations generated from /repo's
     current source by pyvc and discharged by z3 / cvc5  (what counts as *proved*)
  2. static contracts: typestate of cached nodes and effect frames over the call graph
  3. bounded stand-in: run-time oracles over enumerated / seeded histories (labelled
     bounded, never counted as proved)
"""
import hashlib
import json
import os
import sys
import time
import traceback

HERE = os.path.dirname(os.path.abspath(__file__))
sys.path.insert(0, HERE)
REPO = os.environ.get("VERIF_REPO", "/repo")
sys.path.insert(0, REPO)

import props as P  # noqa: E402

BASELINE = os.path.join(HERE, "baseline_obligations.json")
KNOWN = os.path.join(HERE, "known_findings.json")
REPLAYS = os.path.join(HERE, "replays")
# (tools/seedrun.sh and tools/benignrun.sh point this elsewhere so that runs on a
# deliberately changed tree never overwrite the committed evidence)
EVIDENCE = os.environ.get("VERIF_EVIDENCE_DIR") or os.path.join(HERE, "evidence")

ASSUMPTIONS = {
    "A1": "Python int is mathematical; struct field ranges are obligations at every pack, except that store sizes (hence block addresses) are assumed < 2**62",
    "A2": "struct.pack/unpack for the formats 75pBI6Q, QQ, I12p112x, 12p4x are mutually inverse between in-range field tuples and blocks (checked concretely at start-up: calcsize and a random round trip)",
    "A3": "byte-string order (<) is a strict total order: encoded through an injective order embedding into the reals; stems are otherwise compared only for equality",
    "A4": "len(x)/float(n) followed by math.ceil/int is exact rational arithmetic (true below 2**53)",
    "A5": "file objects (seek/tell/read/write), bytearray (slice, slice assignment, extend) and mmap slicing obey the sequential-file / mutable-sequence model of pyvc/lib.py",
    "A6": "re, heapq, warnings, os, open are outside the verified subset (their users are decided by the bounded stand-in only)",
    "A7": "single thread; generators advance only when driven",
    "A8": "extraction drops docstrings, annotations, __repr__ and warnings.warn(...) statements, identically on every run",
    "A9": "abstract-bytes mode (lru_trie.py level): byte strings are an uninterpreted sort with concatenation and length; only the laws listed in pyvc/smt.py:_abstract_bytes_axioms are used",
    "A10": "lru_trie.py is verified over the abstract stem sequence QS(0..QL-1), PRE(QL) = lru of the query; lru_iter and lru_dirname are verified at byte level against exactly that reading (contracts/helpers.py: LruIterSplit, LruDirnameSplit and its lemma). What remains assumed is the identification of the two views: the stems of a well-formed LRU are its separator-terminated pieces, and every stored key is such a piece (keys are only ever written from lru_iter yields)",
    "A12": "NEAR(a) (nearest webentity at or above a head) is a spec function of the current store defined by well-founded recursion on the parent pointer (parent[a] < a, invariant I2); its unfolding equation is assumed",
    "A13": "the two regular-expression wrappers Traph.__apply_webentity_creation_rule / __apply_webentity_default_creation_rule are trusted (python's re): abstracted by the spec functions RULE_MATCHES/RULE_MATCH(anchor, lru) and DEFAULT_MATCHES/DEFAULT_MATCH(lru) of an arbitrary fixed rule configuration; the ladder Traph.__add_page is verified against them and against the contracts of add_page, rules_to_apply, __create_webentity and refresh",
    "A14": "facade-level contracts (groups ladder, prefixes, pagination, batch, batchlinks, network, hierarchy, cited) verify a function of traph.py against STUB contracts of what it calls, the trie and the link store being abstract: a traversal or link walk is ANY finite sequence (so nothing is assumed about which items it yields), a lookup answers found / not found, accessors return uninterpreted values of the item in hand. The stubs state no more than the callee's own discharged contract with two exceptions that are assumed: (i) the regular-expression wrappers (A13); (ii) in the hierarchy group, a prefix node whose pruning mark says 'no child webentity' has no webentity below it (invariant I9 of contracts/trie.py read through dfs_iter, whose 'every head once' half is bounded only). The composition 'stub sequence = what the real traversal yields' is by construction of the call, not proved",
    "A11": "tail blocks appended by LRUTrieNode.write land beyond the old end of the store, where no premise constrains the arrays: modelled as already present (contracts/node.py Write.apply)",
}


def now():
    return time.time()


# ----------------------------------------------------------------------------- start-up checks (A2)
def startup_checks():
    import random
    import struct

    assert struct.calcsize("75pBI6Q") == 128 and struct.calcsize("QQ") == 16 and struct.calcsize("I12p112x") == 128 and struct.calcsize("12p4x") == 16
    r = random.Random(1)
    for _ in range(50):
        f = (bytes(r.randrange(256) for _ in range(r.randrange(75))), r.randrange(256), r.randrange(2 ** 32)) + tuple(r.randrange(2 ** 64) for _ in range(6))
        assert struct.unpack("75pBI6Q", struct.pack("75pBI6Q", *f)) == f
        g = (r.randrange(2 ** 64), r.randrange(2 ** 64))
        assert struct.unpack("QQ", struct.pack("QQ", *g)) == g


# ----------------------------------------------------------------------------- deductive part
def deductive(prop, tier):
    from pyvc.run import run_tasks

    tasks = []
    seen = set()
    for groups, fn, mode, shards, t, only in P.DEDUCTIVE.get(prop, []):
        if t == "thorough" and tier != "thorough":
            continue
        if t == "quick-only" and tier != "quick":
            continue
        if fn in seen:
            continue
        seen.add(fn)
        tasks.append((groups, fn, mode, shards, only))
    if not tasks:
        return {}
    timeout = 10000 if tier == "quick" else 20000
    return run_tasks(tasks, REPO, timeout_ms=timeout, procs=int(os.environ.get("VERIF_PROCS", "16")), max_fail=6 if tier == "quick" else 20)


def dep_hashes(res):
    from pyvc.extract import Program

    prog = Program(REPO)
    out = {}
    for q, r in res.items():
        deps = {}
        for d in [q] + list(r.get("inlined", [])) + list(r.get("contracts_used", [])):
            fi = prog.fns.get(d)
            if fi is not None:
                deps[d] = fi.hash
        out[q] = deps
    return out


def contract_hash():
    h = hashlib.sha256()
    for d in ("contracts", "pyvc"):
        for fn in sorted(os.listdir(os.path.join(HERE, d))):
            if fn.endswith(".py"):
                h.update(open(os.path.join(HERE, d, fn), "rb").read())
    return h.hexdigest()[:16]


# ----------------------------------------------------------------------------- static part
def static_part(prop):
    fams = P.STATIC.get(prop, [])
    if not fams:
        return []
    from pyvc.extract import Program
    from static.effects import Effects
    from static.typestate import TS

    prog = Program(REPO)
    eff = Effects(prog)
    obs = []
    for fam in fams:
        if fam == "TS":
            obs += TS(prog, eff).check_class("Traph")
        elif fam == "FR-RO":
            obs += eff.fr_ro()
        elif fam.startswith("FR-RO:"):
            want = fam.split(":", 1)[1]
            obs += [o for o in eff.fr_ro() if want in o["id"]]
        elif fam == "FR-SHAPE":
            obs += eff.fr_shape()
        elif fam == "FR-STATE":
            obs += eff.fr_state()
        elif fam == "FR-ID":
            obs += eff.fr_id()
        elif fam == "LK-PAIR":
            from static import linkpairs

            obs += linkpairs.check(prog)
        elif fam == "SK-PAIR":
            from static import skeleton

            obs += skeleton.check(prog)
        elif fam.startswith("PRE-STUB"):
            from static.prestub import PreStub

            want = fam.split(":", 1)[1].split(",") if ":" in fam else [""]
            obs += [o for o in PreStub(prog).check("Traph") if any(w in o["id"] for w in want)]
    return obs


# ----------------------------------------------------------------------------- verdict
def load_json(path, default):
    try:
        with open(path) as f:
            return json.load(f)
    except Exception:
        return default


def write_replay(prop, kind, payload):
    os.makedirs(REPLAYS, exist_ok=True)
    body = {"property": prop, "kind": kind, "repo": REPO}
    body.update(payload)
    txt = json.dumps(body, indent=1, sort_keys=True, default=str)
    name = "%s-%s-%s.json" % (prop, kind, hashlib.sha1(txt.encode()).hexdigest()[:10])
    path = os.path.join(REPLAYS, name)
    with open(path, "w") as f:
        f.write(txt)
    return path


def run_property(prop, tier, seed):
    t0 = now()
    startup_checks()
    known = load_json(KNOWN, {"findings": [], "fixed": []})
    baseline = load_json(BASELINE, {"functions": {}, "static": {}})
    violations = []  # (description, replay path, has_input)
    known_lines = []
    notes = []
    crash = []

    # 0. the executor against CPython on concrete inputs (translation validation)
    xc = {"comparisons": 0, "disagreements": 0}
    try:
        import subprocess

        env = dict(os.environ)
        env["PYTHONPATH"] = HERE + os.pathsep + REPO
        env.pop("PYVC_BYTES", None)
        out = subprocess.run([sys.executable, "-m", "pyvc.crosscheck", REPO], capture_output=True, text=True, env=env, cwd=HERE, timeout=300)
        first = out.stdout.strip().split("\n")[0] if out.stdout.strip() else ""
        if first.startswith("crosscheck:"):
            xc = {"comparisons": int(first.split()[1]), "disagreements": int(first.split()[3])}
            if xc["disagreements"]:
                notes.append("executor/CPython cross-check disagrees: " + out.stdout[-600:])
                crash.append("pyvc executor disagrees with CPython on concrete inputs: " + out.stdout[-400:])
        else:
            notes.append("executor/CPython cross-check did not run on this tree: " + (out.stderr or out.stdout)[-300:])
    except Exception as e:
        notes.append("cross-check: %r" % (e,))

    # 1. deductive
    ded = deductive(prop, tier)
    deps = dep_hashes(ded) if ded else {}
    fn_rows = []
    n_ob = n_ok = 0
    failing_obs = []
    undecided = []
    solver_s = 0.0
    backends = {}
    for q, r in sorted(ded.items()):
        base = baseline["functions"].get(q, {})
        changed = base.get("deps") != deps.get(q)
        if r["errors"] and not r["obligations"]:
            if changed or not base:
                undecided.append({"function": q, "reason": r["errors"][0][:400]})
            else:
                crash.append("%s: %s" % (q, r["errors"][0][-600:]))
            fn_rows.append({"function": q, "hash": r.get("hash"), "obligations": 0, "discharged": 0, "status": "undecided" if (changed or not base) else "engine-error"})
            continue
        proved = [o for o in r["obligations"] if o["status"] == "proved"]
        bad = [o for o in r["obligations"] if o["status"] not in ("proved", "skipped")]
        skipped = [o for o in r["obligations"] if o["status"] == "skipped"]
        n_ob += len(r["obligations"]) - len(skipped)
        n_ok += len(proved)
        for o in r["obligations"]:
            solver_s += o.get("time_s", 0)
            if o.get("backend"):
                backends[o["backend"]] = backends.get(o["backend"], 0) + 1
        for o in bad:
            in_base = o["id"] in set(base.get("proved", []))
            genuine = o["status"] == "refuted"
            candidate = o["status"] == "unknown" and o.get("stage1") == "sat"
            if genuine or (candidate and (changed or not in_base) and (in_base or changed)):
                failing_obs.append((q, o, genuine))
            else:
                undecided.append({"function": q, "obligation": o["id"], "reason": "solver %s (%s)%s" % (o["status"], o.get("detail") or o.get("stage1"), "" if changed else "; source unchanged since the recorded baseline")})
        if r["errors"]:
            undecided.append({"function": q, "reason": r["errors"][0][:300]})
        fn_rows.append({"function": q, "hash": r.get("hash"), "generated": r.get("generated"), "obligations": len(r["obligations"]) - len(skipped), "discharged": len(proved), "mode": r.get("mode"), "wall_s": r.get("wall_s"), "contracts_used": r.get("contracts_used"), "inlined": r.get("inlined")})

    # 2. static contracts
    sobs = static_part(prop)
    for o in sobs:
        if o.get("undecided"):
            undecided.append({"function": "static", "obligation": o["id"], "reason": o["undecided"]})
            continue
        n_ob += 1
        if o["ok"]:
            n_ok += 1
        else:
            failing_obs.append(("static", {"id": o["id"], "status": "refuted", "model": o["detail"], "backend": "static"}, True))
    backends["static"] = len(sobs)

    # 3. bounded stand-in
    from bounded import plan as BP

    b = BP.run_bounded(prop, tier, seed)
    for c in b["crashes"]:
        crash.append("bounded harness: " + c["crash"][-800:])
    listed = set((k["property"], k["id"]) for k in known.get("findings", []))
    for tag in b["known"]:
        if (tag[0], tag[1]) in listed:
            desc = [k for k in known["findings"] if (k["property"], k["id"]) == (tag[0], tag[1])][0]
            known_lines.append("KNOWN-FINDING: property=%s %s" % (tag[0], desc["what"]))
        else:
            path = write_replay(prop, "bounded", {"note": "an adjusted-oracle finding that is not listed in known_findings.json", "tag": list(tag)})
            violations.append(("unlisted finding %s" % (tag,), path, True))
    bounded_input = None
    for f in b["fails"][:5]:
        path = write_replay(prop, "bounded", {"spec": f["spec"], "fail": f["fail"]})
        if bounded_input is None:
            bounded_input = path
        violations.append((f["fail"]["what"], path, True))

    # deductive failures -> violations (replayed through the bounded input when there is one)
    native_cache = {}
    kn_ob = dict((k.get("obligation"), k) for k in known.get("findings", []) if k.get("obligation") and k["property"] == prop)
    for q, o, genuine in failing_obs:
        hit = [k for pat, k in kn_ob.items() if pat and pat in o["id"]]
        if hit:
            line = "KNOWN-FINDING: property=%s %s" % (prop, hit[0]["what"])
            if line not in known_lines:
                known_lines.append(line)
            continue
        payload = {"function": q, "obligation": o["id"], "solver_status": o["status"], "stage": o.get("stage"), "backend": o.get("backend"), "counter_model": o.get("model") or o.get("stage1_model"), "detail": o.get("detail"), "bounded_input": bounded_input}
        # replay on the real code: a native counter-example of the function's contract
        nat = None
        if q != "static":
            if q not in native_cache:
                try:
                    from pyvc import native

                    native_cache[q] = native.replay(q, REPO)
                except Exception as e:
                    native_cache[q] = None
            nat = native_cache[q]
        if nat:
            payload["native_replay"] = nat
            path = write_replay(prop, "native", payload)
            violations.append(("obligation %s fails; the real function contradicts its contract on %s" % (o["id"], json.dumps(nat["input"], default=str)[:160]), path, True))
            continue
        if not genuine and bounded_input is None:
            # a CANDIDATE counter-model (the ground instance set is satisfiable, the
            # complete stages timed out) on changed code proves nothing by itself: without
            # a failing input from the bounded stand-in or a native replay in the same run
            # the obligation is undecided, not violated (a behaviour-preserving refactoring
            # of count_crawled_pages produced exactly this: benign-11)
            write_replay(prop, "candidate", payload)
            undecided.append({"function": q, "obligation": o["id"], "reason": "candidate counter-model after a source change (solver %s, ground instances satisfiable), not corroborated by a failing input: undecided" % o["status"]})
            continue
        path = bounded_input or write_replay(prop, "obligation", payload)
        if bounded_input:
            write_replay(prop, "obligation", payload)
        violations.append(("obligation %s fails" % o["id"], path, bounded_input is not None))

    # a function under contract that the executor could not read any more (changed code
    # outside the subset) is undecided for the verifier; the plain-Python restatement of
    # its contract (pyvc/native.py) then runs as a BOUNDED stand-in for that function:
    # it can refute (with a concrete input), never prove
    for u in list(undecided):
        q = u.get("function")
        if u.get("obligation") or not q or q == "static" or q in native_cache:
            continue
        try:
            from pyvc import native

            native_cache[q] = native.replay(q, REPO) if q in native.SEARCHES else None
        except Exception:
            native_cache[q] = None
        if q in getattr(native, "SEARCHES", {}):
            notes.append("bounded stand-in for the undecided function %s: native contract search (%s)" % (q, "contradiction found" if native_cache[q] else "no contradiction on the searched inputs"))
        if native_cache[q]:
            nat = native_cache[q]
            path = write_replay(prop, "native", {"function": q, "obligation": "%s::contract (verifier undecided: %s); bounded native search" % (q, u.get("reason", "")[:200]), "native_replay": nat})
            violations.append(("the real function %s contradicts its contract on %s (bounded native search; the verifier could not read the changed function)" % (q, json.dumps(nat["input"], default=str)[:160]), path, True))

    # evidence
    wall = now() - t0
    explanation = (
        "deductive: %d obligation(s) generated from /repo's current source over %d function(s) under contract, %d discharged (back ends: %s); "
        "static typestate/effect contracts: %d; undecided: %d. bounded stand-in (never counted as proved): %d job(s) of kinds %s, %d oracle evaluation(s). "
        "Level 'other': the per-function claims listed under functions_under_contract are proved for all inputs; the end-to-end statement of the property "
        "additionally rests on the bounded stand-in (see DESIGN.md section 5 for the split per clause)."
        % (n_ob - len(sobs), len(fn_rows), n_ok - sum(1 for o in sobs if o["ok"]), json.dumps(backends), len(sobs), len(undecided), b["jobs"], b["kinds"], b["evaluations"])
    )
    ev = {
        "property_id": prop,
        "tier": tier,
        "seed": seed,
        "level": "other",
        "coverage": {
            "explanation": explanation,
            "obligations": n_ob,
            "discharged": n_ok,
            "checker_cmd": "python3-vt vcheck.py %s --tier %s" % (prop, tier),
            "trusted_base": ["z3 5.1 (python3-vt)", "cvc5 1.0.3 (/usr/bin/cvc5) for the obligations z3's sequence solver leaves open", "pyvc symbolic executor (verif/pyvc) and sidecar contracts (verif/contracts, hash %s)" % contract_hash()] + ["%s: %s" % kv for kv in sorted(ASSUMPTIONS.items())],
            "functions_under_contract": fn_rows,
            "static_obligations": [{"id": o["id"], "ok": o["ok"]} for o in sobs],
            "undecided": undecided[:40],
            "solver_time_s": round(solver_s, 2),
            "backends": backends,
            "bounded": {"labelled": "bounded (never counted as proved)", "jobs": b["jobs"], "kinds": b["kinds"], "exhaustive_jobs": b["exhaustive_jobs"], "wall_s": b["wall_s"]},
            "evaluations": max(1, b["evaluations"]),
            "distinct_nontrivial": max(b["distinct_nontrivial"], 0),
            "rule": "bounded stand-in: seeded random histories / enumerated small scopes (bounded/plan.py); a case is one history (or one enumerated input), distinct by the hash of the operations actually executed, non-trivial when at least one write request was executed and its oracle evaluated",
            "samples": (b["samples"] or [])[:3] + [o["id"] for r in list(ded.values())[:2] for o in r["obligations"][:2]],
            "exhaustive": False,
            "known_findings": known_lines,
            "engine_crosscheck": xc,
            "notes": notes,
        },
        "assumptions": ["%s: %s" % kv for kv in sorted(ASSUMPTIONS.items())],
        "wall_s": round(wall, 2),
        "violations": len(violations),
    }
    if not ev["coverage"]["samples"]:
        ev["coverage"]["samples"] = ["(no sample)"]
    os.makedirs(EVIDENCE, exist_ok=True)
    with open(os.path.join(EVIDENCE, prop + ".json"), "w") as f:
        json.dump(ev, f, indent=1, sort_keys=True, default=str)

    for line in known_lines:
        print(line)
    print("%s tier=%s: obligations %d discharged %d, static %d, undecided %d, bounded jobs %d evals %d, wall %.1fs" % (prop, tier, n_ob, n_ok, len(sobs), len(undecided), b["jobs"], b["evaluations"], wall))
    if crash:
        for c in crash[:3]:
            print("CHECKER-ERROR: " + c)
        return 3
    if violations:
        seenp = set()
        seend = set()
        for desc, path, has_input in violations:
            if desc not in seend and len(seend) < 12:
                seend.add(desc)
                print("  violation: %s" % desc[:300])
            if path in seenp:
                continue
            seenp.add(path)
            print("VIOLATION property=%s replay=%s%s" % (prop, path, "" if has_input else " no-failing-input-found"))
        return 1
    return 0


# ----------------------------------------------------------------------------- replay
def replay(path):
    body = json.load(open(path))
    prop = body["property"]
    if body["kind"] == "bounded" and "spec" in body:
        from bounded import jobs as J

        r = J.run_job(body["spec"])
        if r["fail"]:
            print("replay: still failing: %s" % r["fail"]["what"])
            print(json.dumps(r["fail"], indent=1, default=str)[:3000])
            print("VIOLATION property=%s replay=%s" % (prop, path))
            return 1
        print("replay: the recorded input no longer fails")
        return 0
    if body["kind"] == "native" and body.get("native_replay"):
        from pyvc import native

        nat = native.replay(body["function"], REPO)
        print("replay: obligation %s of %s" % (body.get("obligation"), body.get("function")))
        if nat:
            print("replay: the real function still contradicts its contract: %s" % json.dumps(nat, default=str)[:1500])
            print("VIOLATION property=%s replay=%s" % (prop, path))
            return 1
        print("replay: the real function now satisfies its contract on the searched inputs")
        return 0
    print("replay: this file records a failed proof obligation without a concrete input:")
    print(json.dumps({k: body.get(k) for k in ("function", "obligation", "solver_status", "counter_model")}, indent=1)[:4000])
    print("re-running the property check:")
    return run_property(prop, "quick", 0)


# ----------------------------------------------------------------------------- baseline
def record_baseline(only_fns=()):
    """`vcheck.py baseline` records every function; `vcheck.py baseline f g` re-records
    only f and g (the other entries of the file are kept)"""
    from pyvc.run import run_tasks

    tasks = {}
    for prop in P.ALL:
        for groups, fn, mode, shards, t, only in P.DEDUCTIVE.get(prop, []):
            if t != "quick-only" and (not only_fns or fn in only_fns):
                tasks[fn] = (groups, fn, mode, shards, "")
    res = run_tasks(list(tasks.values()), REPO, timeout_ms=30000, procs=16, max_fail=0)
    deps = dep_hashes(res)
    out = {"functions": {}, "contracts": contract_hash(), "recorded_at": time.strftime("%Y-%m-%dT%H:%M:%SZ", time.gmtime())}
    if only_fns:
        out["functions"] = load_json(BASELINE, {"functions": {}})["functions"]
    tot = ok = 0
    for q, r in sorted(res.items()):
        proved = sorted(o["id"] for o in r["obligations"] if o["status"] == "proved")
        notp = sorted(o["id"] for o in r["obligations"] if o["status"] != "proved")
        tot += len(r["obligations"])
        ok += len(proved)
        out["functions"][q] = {"hash": r.get("hash"), "deps": deps.get(q), "proved": proved, "open": notp, "errors": r["errors"][:2]}
        print("%-50s %5d / %5d %s" % (q, len(proved), len(r["obligations"]), ("ERR " + r["errors"][0][:80]) if r["errors"] else ""))
    with open(BASELINE, "w") as f:
        json.dump(out, f, indent=0, sort_keys=True)
    print("baseline: %d / %d obligations proved over %d functions" % (ok, tot, len(res)))
    return 0


def main(argv):
    if len(argv) >= 2 and argv[1] == "replay":
        return replay(argv[2])
    if len(argv) >= 2 and argv[1] == "baseline":
        return record_baseline(tuple(argv[2:]))
    prop = argv[1]
    tier = os.environ.get("VERIF_TIER", "quick")
    if "--tier" in argv:
        tier = argv[argv.index("--tier") + 1]
    seed = int(os.environ.get("VERIF_SEED", "0"))
    try:
        return run_property(prop, tier, seed)
    except SystemExit:
        raise
    except Exception:
        traceback.print_exc()
        print("CHECKER-ERROR: vcheck crashed")
        return 3


if __name__ == "__main__":
    sys.exit(main(sys.argv))
