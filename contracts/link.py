"""
Contracts for traph/link_store/{node,link_store}.py (DESIGN 4.6).

Link store L: 16-byte stubs (target, previous).  A page's outbound / inbound list is the
chain head -> previous -> ... -> 0; a link's weight is its number of stubs.

Ghost: G.cnt[b] : target -> number of stubs with that target on the chain from stub b
(an array of arrays), with the local unfolding invariant
  LI2  stub(b) => G.cnt[b] = inc(G.cnt[prev[b]] or zero, target[b])
so that no recursive definition is needed.  LI1: prev[b] = 0 or an earlier stub.
The multiset of a request's targets is described by CNTT(i, t) = #{j < i : TG(j) = t}.
"""
import z3

from pyvc.lib import Contract, LoopSpec, SeqView
from pyvc.sym import BOOL, BV8, BYTES, INT, DeadPath, Obj, Opt, Path, Ref, Unsupported, bytes_val, fresh, to_z3, zand, znot
from . import node as N
from . import world as Wd
from .world import AL, AL16, FIELDS, W, mk_store, mk_world, node_data

ZERO = z3.K(INT, z3.IntVal(0))
TG = z3.Function("TG", INT, INT)  # the request's target blocks
TN = z3.Int("TN")
CNTT = z3.Function("CNTT", INT, INT, INT)


def request_axioms():
    i, t = z3.Ints("i t")
    return [
        TN >= 0,
        z3.ForAll([t], CNTT(0, t) == 0),
        z3.ForAll([i, t], z3.Implies(i >= 0, CNTT(i + 1, t) == CNTT(i, t) + z3.If(TG(i) == t, 1, 0))),
        z3.ForAll([i], z3.Implies(z3.And(i >= 0, i < TN), z3.And(TG(i) >= 128, TG(i) < 2 ** 62))),
    ]


class LW(W):
    def cnt(self, b):
        return z3.Select(self.p.w["G.cnt"], b)

    def cnt0(self, b):
        """count map of the (possibly empty) chain starting at pointer b"""
        return z3.If(b == 0, ZERO, self.cnt(b))


def LInv(p):
    w = LW(p)
    b = z3.Int("b")
    pv = w.l("prev", b)
    tg = w.l("target", b)
    inc = z3.Store(w.cnt0(pv), tg, z3.Select(w.cnt0(pv), tg) + 1)
    cs = [
        ("LI0:store-has-its-header", z3.And(p.w["L.size"] >= 16, AL16(p.w["L.size"]))),
        ("LI1:previous-is-0-or-an-earlier-stub", z3.ForAll([b], z3.Implies(w.stub(b), z3.Or(pv == 0, z3.And(w.stub(pv), pv < b))))),
        ("LI1:target-is-a-data-block", z3.ForAll([b], z3.Implies(w.stub(b), tg >= 128))),
        ("LI2:count-map-unfolds", z3.ForAll([b], z3.Implies(w.stub(b), w.cnt(b) == inc))),
        ("LI3:counts-are-nonnegative", z3.ForAll([b, z3.Int("t")], z3.Implies(w.stub(b), z3.Select(w.cnt(b), z3.Int("t")) >= 0))),
    ]
    cs += [("L-codec-range/%d" % i, c) for i, c in enumerate(Wd.links_in_range(w))]
    return cs


def mk_link_world(p):
    w = mk_world(p, trie=True, links=True)
    p.w["G.cnt"] = fresh("G_cnt", z3.ArraySort(INT, z3.ArraySort(INT, INT)))
    return LW(p)


def base(inv=True):
    p = Path()
    w = mk_link_world(p)
    for c in Wd.fields_in_range(w):
        p.assume(c)
    N.assume_all(p, N.I1(p))
    if inv:
        N.assume_all(p, LInv(p))
    for ax in request_axioms():
        p.assume(ax)
    tstore = mk_store(p, "T")
    lstore = mk_store(p, "L")
    ls = p.new_obj("LinkStore", {"storage": lstore, "header": None})
    return p, w, tstore, lstore, ls


def sym_link_node(p, store, name="ln"):
    lst = p.new_obj("list", {"items": [fresh(name + "_target", INT), fresh(name + "_prev", INT)]})
    return p.new_obj("LinkStoreNode", {"storage": store, "block": Opt(fresh(name + "_noblock", BOOL), fresh(name + "_block", INT)), "exists": fresh(name + "_exists", BOOL), "data": lst})


def link_node_at(p, store, b):
    w = LW(p)
    lst = p.new_obj("list", {"items": [w.l("target", b), w.l("prev", b)]})
    return p.new_obj("LinkStoreNode", {"storage": store, "block": b, "exists": True, "data": lst})


# ---------------------------------------------------------------------------- node accessors
class LAccessor(Contract):
    def __init__(self, name, spec):
        self.qual = "LinkStoreNode." + name
        self.spec = spec

    def setups(self, ex):
        p, w, ts, ls, store = base(inv=False)
        n = sym_link_node(p, ls)
        d = node_data(p, n)
        p.assume(z3.And(d[0] >= 0, d[0] < 2 ** 64, d[1] >= 0, d[1] < 2 ** 64))
        self.n = n
        yield p, n, [], {}, "any"

    def check(self, ex, p0, res, tag):
        n = self.n
        d = node_data(p0, n)
        exp = self.spec(d)
        for p1, kind, val in res:
            if kind == "raise":
                ex.oblige(p1, "raises-nothing(%s)" % val[0], False, val[1])
                continue
            if isinstance(exp, Opt):
                vn, vv = (val.none, val.val) if isinstance(val, Opt) else ((val is None), val)
                ex.oblige(p1, "result-is-None-iff", to_z3(vn) == exp.none, None)
                if vv is not None:
                    ex.oblige(p1, "result-value", z3.Implies(z3.Not(exp.none), to_z3(vv) == exp.val), None)
            else:
                ex.oblige(p1, "result", to_z3(val) == to_z3(exp), None)
            d1 = node_data(p1, n)
            ex.oblige(p1, "frame:data-unchanged", z3.And(to_z3(d1[0]) == d[0], to_z3(d1[1]) == d[1]), None)
            N.world_unchanged(ex, p1, p0)


class LSetter(Contract):
    def __init__(self, name, idx, floor):
        self.qual = "LinkStoreNode." + name
        self.idx, self.floor = idx, floor

    def setups(self, ex):
        p, w, ts, ls, store = base(inv=False)
        n = sym_link_node(p, ls)
        v = fresh("v", INT)
        p.assume(v >= 0)
        p.w["__v"] = v
        self.n = n
        yield p, n, [v], {}, "any"

    def check(self, ex, p0, res, tag):
        n = self.n
        v = p0.w["__v"]
        d = node_data(p0, n)
        for p1, kind, val in res:
            if kind == "raise":
                ex.oblige(p1, "raises-only-below-the-first-data-block", v < self.floor, val[1])
                continue
            ex.oblige(p1, "accepted-only-data-blocks", v >= self.floor, None)
            d1 = node_data(p1, n)
            ex.oblige(p1, "field-set", to_z3(d1[self.idx]) == v, None)
            ex.oblige(p1, "other-field-unchanged", to_z3(d1[1 - self.idx]) == d[1 - self.idx], None)
            N.world_unchanged(ex, p1, p0)


class LRead(Contract):
    qual = "LinkStoreNode.read"

    def setups(self, ex):
        p, w, ts, ls, store = base(inv=False)
        n = sym_link_node(p, ls)
        b = fresh("block", INT)
        p.assume(AL16(b))
        p.assume(b >= 16)
        p.w["__b"] = b
        self.n = n
        yield p, n, [b], {}, "any"

    def check(self, ex, p0, res, tag):
        n = self.n
        b = p0.w["__b"]
        w = LW(p0)
        size = p0.w["L.size"]
        for p1, kind, val in res:
            if kind == "raise":
                ex.oblige(p1, "raises-nothing(%s)" % val[0], False, val[1])
                continue
            o1 = p1.obj(n)
            d1 = [to_z3(x) for x in node_data(p1, n)]
            ex.oblige(p1, "exists<=>block-in-store", to_z3(o1.f["exists"]) == (b < size), None)
            ex.oblige(p1, "data==stored-stub", z3.Implies(b < size, z3.And(d1[0] == w.l("target", b), d1[1] == w.l("prev", b))), None)
            ex.oblige(p1, "data==default-when-missing", z3.Implies(b >= size, z3.And(d1[0] == 0, d1[1] == 0)), None)
            ex.oblige(p1, "block-set", z3.Implies(b < size, ex.opt_eq(o1.f["block"], b, p1)), None)
            N.world_unchanged(ex, p1, p0)

    def apply(self, ex, p, recv, args, kw, ln):
        b = args[0] if args else kw.get("block")
        b = ex.unwrap(b, p, "link node read block", ln) if (isinstance(b, Opt) or b is None) else b
        bz = to_z3(b)
        ex.oblige(p, "linknode.read:block-aligned", AL16(bz), ln, "pre")
        ex.oblige(p, "linknode.read:block-is-a-stub(not-the-header)", bz >= 16, ln, "pre")
        w = LW(p)
        out = []
        for q, c in ex.branch(p, bz < p.w["L.size"]):
            q = q.fork()
            o = q.obj(recv)
            if c:
                o.f["exists"] = True
                o.f["block"] = bz
                o.f["data"] = q.new_obj("list", {"items": [w.l("target", bz), w.l("prev", bz)]})
            else:
                o.f["exists"] = False
                o.f["data"] = q.new_obj("list", {"items": [0, 0]})
            q.mut += 1
            out.append((q, None))
        return out


# ---------------------------------------------------------------------------- add_links
def ghost_on_stub_write(ex, q, world, addr, raw, appended, ln):
    """appending a stub extends the ghost count map"""
    if world != "L" or "G.cnt" not in q.w or not appended:
        return
    w = LW(q)
    pv = to_z3(raw.fields[1])
    tg = to_z3(raw.fields[0])
    base_ = w.cnt0(pv)
    q.w["G.cnt"] = z3.Store(q.w["G.cnt"], addr, z3.Store(base_, tg, z3.Select(base_, tg) + 1))


class AddLinks(Contract):
    qual = "LinkStore.add_links"

    def prepare(self, ex):
        ex.write_hooks = [ghost_on_stub_write]

    def setups(self, ex):
        for out in (True, False):
            p, w, ts, lstore, store = base()
            a = fresh("src", INT)
            p.assume(w.blk(a))
            p.assume(z3.Not(w.flag(a, Wd.IS_TAIL)))
            fld = "outl" if out else "inl"
            # cross-store invariant I10a at the source: its list head is 0 or a stub
            p.assume(z3.Or(w.f(fld, a) == 0, w.stub(w.f(fld, a))))
            lst = p.new_obj("list", {"items": [w.f(f, a) for f in FIELDS]})
            src = p.new_obj("LRUTrieNode", {"storage": ts, "block": a, "exists": True, "tail": w.rest(a), "data": lst})
            tgs = p.new_obj("list", {"len": TN, "elem": lambda i: TG(i)})
            for k in list(p.w):
                p.w["old:" + k] = p.w[k]
            p.w["__a"] = a
            self.src = src
            yield p, store, [src, tgs], {"out": out}, out

    def check(self, ex, p0, res, out):
        a = p0.w["__a"]
        w0 = LW(p0)
        fld = "outl" if out else "inl"
        other = "inl" if out else "outl"
        head0 = w0.f(fld, a)
        size0 = p0.w["L.size"]
        t, b = z3.Ints("t b")
        for p1, kind, val in res:
            if kind == "raise":
                ex.oblige(p1, "raises-nothing(%s)" % val[0], False, val[1])
                continue
            w1 = LW(p1)
            head1 = w1.f(fld, a)
            ex.oblige(p1, "appends-one-stub-per-target", p1.w["L.size"] == size0 + 16 * TN, None)
            ex.oblige(p1, "empty-request-writes-nothing", z3.Implies(TN == 0, z3.And(*[p1.w[k] == p0.w[k] for k in p0.w if k.startswith(("T.", "L.size")) and not k.startswith("old:")])), None)
            ex.oblige(p1, "list-head-repointed-to-the-last-new-stub", z3.Implies(TN > 0, head1 == size0 + 16 * (TN - 1)), None)
            ex.oblige(p1, "weights:new-list==old-list+submitted-targets", z3.Implies(TN > 0, z3.ForAll([t], z3.Select(w1.cnt0(head1), t) == z3.Select(w0.cnt0(head0), t) + CNTT(TN, t))), None)
            ex.oblige(p1, "old-stubs-unchanged", z3.ForAll([b], z3.Implies(b < size0, z3.And(w1.l("target", b) == w0.l("target", b), w1.l("prev", b) == w0.l("prev", b), w1.cnt(b) == w0.cnt(b)))), None)
            for f in FIELDS:
                if f == fld:
                    continue
                ex.oblige(p1, "trie:source[%s]-unchanged" % f, w1.f(f, a) == w0.f(f, a), None)
                ex.oblige(p1, "trie:other-blocks[%s]-unchanged" % f, p1.w["T." + f] == p0.w["T." + f] if f != fld else True, None)
            ex.oblige(p1, "trie:only-the-source's-list-head-changes", z3.ForAll([b], z3.Implies(b != a, w1.f(fld, b) == w0.f(fld, b))), None)
            ex.oblige(p1, "trie:size-unchanged", p1.w["T.size"] == p0.w["T.size"], None)
            ex.oblige(p1, "head-is-0-or-a-stub", z3.Or(head1 == 0, w1.stub(head1)), None)
            for nm, f_ in LInv(p1):
                ex.oblige(p1, "preserves:" + nm, f_, None)


def add_links_inv(ex, p):
    w = LW(p)
    old = LW(type("P", (), {"w": {k[4:]: v for k, v in p.w.items() if k.startswith("old:")}})())
    size0 = old.p.w["L.size"]
    idx = [k for k in p.env if k.startswith("__i")]
    i = to_z3(p.env[idx[0]])
    src = p.env["source_node"]
    a = N_blk(p, src)
    out = p.env["out"]
    fld = "outl" if out else "inl"
    head0 = old.f(fld, a)
    tn = p.env["tail_node"]
    b = z3.Int("b")
    t = z3.Int("t")
    Wd.assume_A1(p)
    cs = list(LInv(p))
    cs.append(("stubs-appended-so-far", p.w["L.size"] == size0 + 16 * i))
    cs.append(("empty<=>no-iteration-yet", to_z3(ex.truth(p.env["empty"], p)) == (i == 0)))
    # tail_node: the previous head (if any) before the first iteration, then the last stub written
    if isinstance(tn, Opt):
        none, ref = tn.none, tn.val
    elif tn is None:
        none, ref = z3.BoolVal(True), None
    else:
        none, ref = z3.BoolVal(False), tn
    cur = z3.If(i == 0, head0, size0 + 16 * (i - 1))
    cs.append(("tail_node-is-None<=>list-empty-so-far", none == (cur == 0)))
    if ref is not None:
        tb = p.obj(ref).f["block"]
        tb = tb.val if isinstance(tb, Opt) else to_z3(tb)
        cs.append(("tail_node.block==current-list-head", z3.Implies(z3.Not(none), tb == cur)))
    cs.append(("current-head-is-0-or-a-stub", z3.Or(cur == 0, w.stub(cur))))
    cs.append(("weights-so-far", z3.ForAll([t], z3.Select(w.cnt0(cur), t) == z3.Select(old.cnt0(head0), t) + CNTT(i, t))))
    cs.append(("old-stubs-unchanged", z3.ForAll([b], z3.Implies(b < size0, z3.And(w.l("target", b) == old.l("target", b), w.l("prev", b) == old.l("prev", b), w.cnt(b) == old.cnt(b))))))
    for k in p.w:
        if k.startswith("T."):
            cs.append(("trie-untouched[%s]" % k, p.w[k] == old.p.w[k]))
    return cs


def N_blk(p, ref):
    b = p.obj(ref).f["block"]
    return b.val if isinstance(b, Opt) else to_z3(b)


def add_links_havoc(ex, p):
    store = p.obj(p.env["self"]).f["storage"]
    n = p.new_obj("LinkStoreNode", {"storage": store, "block": fresh("tail_block", INT), "exists": True, "data": p.new_obj("list", {"items": [fresh("tail_target", INT), fresh("tail_prev", INT)]})})
    p.env["tail_node"] = Opt(fresh("tail_none", BOOL), n)
    p.env["empty"] = fresh("empty", BOOL)


# ---------------------------------------------------------------------------- walks
class Weighted(Contract):
    """weighted_link_nodes_iter(block): requires a stub address; the counter it builds is
    exactly the ghost count map of the chain (each target once, with its weight)"""

    qual = "LinkStore.weighted_link_nodes_iter"

    def setups(self, ex):
        p, w, ts, lstore, store = base()
        b = fresh("block", INT)
        p.assume(w.stub(b))
        p.w["__b"] = b
        p.w["out.n"] = z3.IntVal(0)
        p.w["out.t"] = fresh("out_t", z3.ArraySort(INT, INT))
        p.w["out.w"] = fresh("out_w", z3.ArraySort(INT, INT))
        yield p, store, [b], {}, "stub"

    def on_yield(self, ex, p, v, ln, tag):
        if not (isinstance(v, tuple) and len(v) == 2):
            ex.oblige(p, "yields-a-pair", False, ln)
            return []
        n = p.w["out.n"]
        p.w["out.t"] = z3.Store(p.w["out.t"], n, to_z3(ex.unwrap(v[0], p, "yielded target", ln)))
        p.w["out.w"] = z3.Store(p.w["out.w"], n, to_z3(v[1]))
        p.w["out.n"] = n + 1
        p.mut += 1
        return [(p, "normal", None)]

    def check(self, ex, p0, res, tag):
        b = p0.w["__b"]
        w = LW(p0)
        j = z3.Int("j")
        for p1, kind, val in res:
            if kind == "raise":
                ex.oblige(p1, "raises-nothing-on-a-stub(%s)" % val[0], False, val[1])
                continue
            ex.oblige(p1, "every-yield-is-(target,weight-of-the-chain)", z3.ForAll([j], z3.Implies(z3.And(j >= 0, j < p1.w["out.n"]), z3.And(z3.Select(p1.w["out.w"], j) == z3.Select(w.cnt(b), z3.Select(p1.w["out.t"], j)), z3.Select(p1.w["out.w"], j) > 0))), None)
            N.world_unchanged(ex, p1, p0, keys=[k for k in p0.w if k.startswith(("T.", "L.", "G."))])


def weighted_loop_inv(ex, p):
    """weights + (what the rest of the chain holds) = count map of the whole chain"""
    w = LW(p)
    b = p.w["__b"]
    n = p.env["node"]
    nb = N_blk(p, n)
    wo = p.obj(p.env["weights"])
    t = z3.Int("t")
    d = node_data(p, n)
    cs = [
        ("node-is-a-stub-of-the-chain", w.stub(nb)),
        ("node-fresh", z3.And(to_z3(d[0]) == w.l("target", nb), to_z3(d[1]) == w.l("prev", nb), to_z3(ex.truth(p.obj(n).f["exists"], p)))),
        ("weights+rest==chain", z3.ForAll([t], z3.If(z3.Select(wo.f["dom"], t), z3.Select(wo.f["val"], t), 0) + z3.Select(w.cnt0(w.l("prev", nb)), t) == z3.Select(w.cnt(b), t))),
        ("recorded-weights-are-positive", z3.ForAll([t], z3.Implies(z3.Select(wo.f["dom"], t), z3.Select(wo.f["val"], t) > 0))),
        ("map-size-nonnegative", wo.f["n"] >= 0),
    ]
    return cs


def weighted_havoc(ex, p):
    store = p.obj(p.env["node"]).f["storage"]
    b = fresh("cur", INT)
    p.env["node"] = link_node_at(p, store, b)
    wo = p.obj(p.env["weights"])
    wo.f["dom"] = fresh("w_dom", z3.ArraySort(INT, BOOL))
    wo.f["val"] = fresh("w_val", z3.ArraySort(INT, INT))
    wo.f["n"] = fresh("w_n", INT)


def items_view(ex, p, ref, ln):
    """iteration over a map's items: an abstract enumeration of its domain"""
    o = p.obj(ref)
    KEY = z3.Function("key!%d" % id(o), INT, INT)
    n = o.f["n"]

    def elem(i):
        return (KEY(i), z3.Select(o.f["val"], KEY(i)))

    def facts(i):
        return [z3.Select(o.f["dom"], KEY(i))]

    return p, SeqView(n, elem, facts)


def weighted_yield_inv(ex, p):
    w = LW(p)
    b = p.w["__b"]
    j = z3.Int("j")
    return [("every-yield-is-(target,weight-of-the-chain)", z3.ForAll([j], z3.Implies(z3.And(j >= 0, j < p.w["out.n"]), z3.And(z3.Select(p.w["out.w"], j) == z3.Select(w.cnt(b), z3.Select(p.w["out.t"], j)), z3.Select(p.w["out.w"], j) > 0))))]


class CountLinks(Contract):
    qual = "LinkStore.count_links"

    def setups(self, ex):
        p, w, ts, lstore, store = base()
        yield p, store, [], {}, "any"

    def check(self, ex, p0, res, tag):
        for p1, kind, val in res:
            if kind == "raise":
                ex.oblige(p1, "raises-nothing", False, val[1])
                continue
            ex.oblige(p1, "2*result==stubs", to_z3(val) * 2 == (z3.ToReal(p0.w["L.size"]) / 16 - 1), None)


def install(lib):
    Wd.install_store(lib)
    lib.methods[("Counter", "items")] = lambda ex, p, recv, args, kw, ln: [(p, MapItems(recv))]
    lib.methods[("MapItems", "__iter__")] = lambda ex, p, it, ln: items_view(ex, p, it.ref, ln)
    cs = [
        LAccessor("has_previous", lambda d: d[1] != 0),
        LAccessor("previous", lambda d: Opt(d[1] < 16, d[1])),
        LAccessor("has_target", lambda d: d[0] != 0),
        LAccessor("target", lambda d: Opt(d[0] < 128, d[0])),
        LSetter("set_previous", 1, 16),
        LSetter("set_target", 0, 128),
        LRead(),
        AddLinks(),
        Weighted(),
        CountLinks(),
    ]
    lib.loop_spec("LinkStore.add_links::for#0", LoopSpec(add_links_inv, havoc=add_links_havoc, world=("L.target", "L.prev", "L.size", "G.cnt")))
    lib.loop_spec("LinkStore.weighted_link_nodes_iter::while#0", LoopSpec(weighted_loop_inv, havoc=weighted_havoc))
    lib.loop_spec("LinkStore.weighted_link_nodes_iter::for#0", LoopSpec(weighted_yield_inv, world=("out.n", "out.t", "out.w")))
    return cs


class MapItems(object):
    def __init__(self, ref):
        self.ref = ref


GROUP = "link"


# ---------------------------------------------------------------------------- deduped walk
class Deduped(Contract):
    """deduped_link_nodes_iter(block): requires a stub address; every yielded target
    occurs on the chain (count >= 1).  (Each once, and all of them: bounded.)"""

    qual = "LinkStore.deduped_link_nodes_iter"

    def setups(self, ex):
        p, w, ts, lstore, store = base()
        b = fresh("block", INT)
        p.assume(w.stub(b))
        p.w["__b"] = b
        p.w["out.n"] = z3.IntVal(0)
        yield p, store, [b], {}, "stub"

    def on_yield(self, ex, p, v, ln, tag):
        w = LW(p)
        t = ex.unwrap(v, p, "yielded target", ln)
        ex.oblige(p, "yielded-target-occurs-on-the-chain", z3.Select(w.cnt(p.w["__b"]), to_z3(t)) >= 1, ln)
        p.w["out.n"] = p.w["out.n"] + 1
        p.mut += 1
        return [(p, "normal", None)]

    def check(self, ex, p0, res, tag):
        for p1, kind, val in res:
            if kind == "raise":
                ex.oblige(p1, "raises-nothing-on-a-stub(%s)" % val[0], False, val[1])
                continue
            N.world_unchanged(ex, p1, p0, keys=[k for k in p0.w if k.startswith(("T.", "L.", "G."))])


def deduped_loop_inv(ex, p):
    w = LW(p)
    b = p.w["__b"]
    n = p.env["node"]
    nb = N_blk(p, n)
    d = node_data(p, n)
    t = z3.Int("t")
    return [
        ("node-is-a-stub-of-the-chain", w.stub(nb)),
        ("node-fresh", z3.And(to_z3(d[0]) == w.l("target", nb), to_z3(d[1]) == w.l("prev", nb), to_z3(ex.truth(p.obj(n).f["exists"], p)))),
        ("counts-from-here<=counts-of-the-whole-chain", z3.ForAll([t], z3.Select(w.cnt(nb), t) <= z3.Select(w.cnt(b), t))),
    ]


def deduped_havoc(ex, p):
    store = p.obj(p.env["node"]).f["storage"]
    p.env["node"] = link_node_at(p, store, fresh("cur", INT))
    so = p.obj(p.env["already_seen"])
    so.f["dom"] = fresh("seen_dom", z3.ArraySort(INT, BOOL))
    so.f["val"] = fresh("seen_val", z3.ArraySort(INT, INT))
    so.f["n"] = fresh("seen_n", INT)
    if "target" in p.env:
        p.env["target"] = Opt(fresh("tg_none", BOOL), fresh("tg", INT))
    if "len_before" in p.env:
        p.env["len_before"] = fresh("len_before", INT)


_install_l0 = install


def install(lib):
    cs = _install_l0(lib)
    lib.loop_spec("LinkStore.deduped_link_nodes_iter::while#0", LoopSpec(deduped_loop_inv, havoc=deduped_havoc))
    return cs + [Deduped()]
