"""developer tool: generate the obligations of one function and time their discharge"""
import sys, os, time
sys.path.insert(0,'/verif')
from pyvc.extract import Program
from pyvc.lib import Lib
from pyvc import smt
from pyvc.sym import Executor, FCtx, Func
import importlib, z3
grps=sys.argv[1].split(','); qual=sys.argv[2]
prog=Program(os.environ.get('VERIF_REPO','/repo')); lib=Lib(prog)
for g in grps:
    mod=importlib.import_module('contracts.'+g)
    cs=mod.install(lib) if hasattr(mod,'install') else mod.contracts()
    for c in cs: lib.register(c)
c=lib.lookup(qual); fi=prog.fn(qual)
ex=Executor(prog,lib,qual); ex._raises=[]; ex.write_hooks=[]; ex.node_write_hooks=[]
if hasattr(c,'prepare'): c.prepare(ex)
t0=time.time()
for p0,recv,args,kw,tag in c.setups(ex):
    f=Func(fi.qual,fi.node,fi.module,cls=fi.cls,recv=recv); q=p0.fork(); q.env=ex.bind(f,args,kw,q)
    fctx=FCtx(qual,fi.module,fi.cls,on_yield=(lambda e,p,v,ln,c=c,tag=tag:c.on_yield(e,p,v,ln,tag)) if c.on_yield else None)
    res=ex.block(fi.node.body,q,fctx); print(tag,'paths',len(res),[k for _,k,_ in res],'t=%.1f'%(time.time()-t0)); c.check(ex,p0,res,tag)
print('obligations',len(ex.obs),'gen %.1fs'%(time.time()-t0))
lim=int(os.environ.get('N','15')); pat=os.environ.get('PAT','')
n=0
for ob in ex.obs:
    if pat not in ob.name: continue
    for g in smt.split_goal(ob.goal):
        n+=1
        if n<=int(os.environ.get('SKIP','0')): continue
        if n>lim+int(os.environ.get('SKIP','0')): break
        t=time.time(); r=smt.discharge(ob.premises,g,int(os.environ.get('TO','10000')))
        print('%-8s st=%s %.2fs inst=%s %s'%(r['status'],r.get('stage'),time.time()-t,r.get('instances'),ob.name[:90]), flush=True)
        if os.environ.get('M') and r['status']!='proved': print('    ',(r.get('model') or r.get('stage1_model') or '')[:1500].replace('\n','; '))
if os.environ.get('CPROF'):
    import cProfile, pstats
    ob=[o for o in ex.obs if 'field-range/3' in o.name][-1]
    g=smt.split_goal(ob.goal)[0]
    cProfile.run('smt.discharge(ob.premises,g,10000)','/tmp/prof.out')
    pstats.Stats('/tmp/prof.out').sort_stats('cumulative').print_stats(18)
if os.environ.get('DETAIL'):
    pat=os.environ['DETAIL']; k=int(os.environ.get('K','-1'))
    obs=[o for o in ex.obs if pat in o.name]
    ob=obs[k]
    g=smt.split_goal(ob.goal)[int(os.environ.get('GI','0'))]
    prem=[]
    for c_ in ob.premises: prem+=smt.flatten_and(c_)
    prem=smt.cone(prem,g)
    ground=[c_ for c_ in prem if not smt._has_quant(c_)]
    quant=[c_ for c_ in prem if z3.is_quantifier(c_)]
    print('GOAL',g)
    neg=z3.Not(g)
    ints,strs=smt.harvest(ground+[neg]); print('pool ints',len(ints)); 
    for i in ints: print('    ',str(i).replace('\n',' ')[:150])
    print('strs',len(strs))
    inst=smt.instantiate(quant,ints,strs); print('inst',len(inst),'of quant',len(quant))
    ints2,strs2=smt.harvest(ground+[neg]+inst); print('pool2',len(ints2),len(strs2))
    if os.environ.get('G'):
        for c_ in ground: print('   G:',str(c_).replace('\n',' ')[:400])
    fs=ground+inst+[neg]; fs=fs+smt.ord_axioms(strs,fs); fs=fs+smt.term_axioms(fs)
    r,s_,dt=smt.check(fs,10000); print('z3 stage1',r,dt)
    if os.environ.get('EVALGOAL') and r==z3.sat:
        m=s_.model()
        def show(gg,ind=0):
            if z3.is_and(gg) or z3.is_or(gg):
                print(' '*ind+('AND' if z3.is_and(gg) else 'OR'), m.eval(gg))
                for c in gg.children(): show(c,ind+2)
            else:
                v=m.eval(gg)
                if not z3.is_true(v) or ind<=2: print(' '*ind+str(gg).replace('\n',' ')[:160],'=>',v)
        show(g)
    if r==z3.sat:
        m=s_.model()
        for x in ints: print('   ',str(x).replace('\n',' ')[:80],'=',m.eval(x))
        if os.environ.get('EV'):
            for e in os.environ['EV'].split(';'):
                pass
    if os.environ.get('DUMP'):
        ss=z3.Solver(); ss.add(fs); open(os.environ['DUMP'],'w').write('(set-logic ALL)\n'+ss.to_smt2())
        print('dumped',len(fs),'assertions')
    if os.environ.get('CVC'):
        import subprocess,re
        ss=z3.Solver(); ss.add(fs)
        txt='(set-option :produce-models true)\n(set-logic ALL)\n'+ss.to_smt2()
        names=sorted(set(re.findall(r'\|?(sk_[a-z]+![0-9]+|node_blk![0-9]+|r![0-9]+|T_size![0-9]+|stem![0-9]+|payload![0-9]+|tail![0-9]+|ensured![0-9]+)\|?',txt)))
        txt+='\n(get-value ('+' '.join('|%s|'%n for n in names)+'))\n'
        open('/tmp/q2.smt2','w').write(txt)
        print(subprocess.run(['cvc5','--strings-exp','--tlimit=60000','/tmp/q2.smt2'],capture_output=True,text=True).stdout[:3000])
if os.environ.get('EMATCH'):
    pat=os.environ['EMATCH']
    obs=[o for o in ex.obs if pat in o.name][:int(os.environ.get('EN','6'))]
    for ob in obs:
      for g in smt.split_goal(ob.goal)[:2]:
        prem=[]
        for c_ in ob.premises: prem+=smt.flatten_and(c_)
        prem=smt.cone(prem,g)
        s_=z3.Solver(); s_.set('timeout',20000); s_.set('auto_config',False); s_.set('smt.mbqi',False)
        neg=z3.Not(g)
        fs=prem+[neg]
        fs=fs+smt.term_axioms(fs)
        s_.add(fs)
        t=time.time(); r=s_.check(); print('ematch',r,'%.2fs'%(time.time()-t),ob.name[:80],flush=True)
if os.environ.get('TRIG'):
    pat=os.environ['TRIG']
    ob=[o for o in ex.obs if pat in o.name][int(os.environ.get('K','2'))]
    g=smt.split_goal(ob.goal)[0]
    prem=[]
    for c_ in ob.premises: prem+=smt.flatten_and(c_)
    prem=smt.cone(prem,g)
    ground=[c_ for c_ in prem if not smt._has_quant(c_)]
    quant=[c_ for c_ in prem if z3.is_quantifier(c_)]
    import cProfile,pstats
    cProfile.run('inst=smt.trigger_instantiate(quant, ground+[z3.Not(g)])','/tmp/prof2.out')
    print('instances',len(inst))
    pstats.Stats('/tmp/prof2.out').sort_stats('cumulative').print_stats(14)
