"""
SK-PAIR: bookkeeping contract of the two paginators of traph.py (DESIGN 4.7, C09/C10).
A pagination token names a trie path *inside the prefix it was recorded under*, so the
pair (last_path_i, last_path) must always be updated together and the token must be
built from exactly that pair.  Obligations, per paginator:
  SK-PAIR(f:update@line)  every assignment to last_path sits next to an assignment
                          last_path_i = <the prefix loop variable> in the same block
  SK-PAIR(f:token)        every build_pagination_token call takes (last_path_i, last_path)
  SK-PAIR(f:reset)        pagination_path is reset to None after each prefix
Syntax-directed, all paths.
"""
import ast

PAGINATORS = ("paginate_webentity_pages", "paginate_webentity_pagelinks")


def check(program, cname="Traph"):
    obs = []
    cls = program.classes[cname][1]
    for f in cls.body:
        if not (isinstance(f, ast.FunctionDef) and f.name in PAGINATORS):
            continue
        q = "%s.%s" % (cname, f.name)
        names = set(n.id for n in ast.walk(f) if isinstance(n, ast.Name))
        tokens = [n for n in ast.walk(f) if isinstance(n, ast.Call) and getattr(n.func, "id", "") == "build_pagination_token"]
        if not tokens:
            # no token is built here any more: the contract cannot be resolved against
            # the code -> undecided, never a violation
            obs.append({"id": "SK-PAIR(%s)" % q, "ok": True, "undecided": "no build_pagination_token call in the function"})
            continue
        # the pair of variables the token is built from
        t0 = tokens[0]
        if len(t0.args) == 2 and all(isinstance(a, ast.Name) for a in t0.args):
            PI, PP = t0.args[0].id, t0.args[1].id
        else:
            obs.append({"id": "SK-PAIR(%s:token#1)" % q, "ok": False, "detail": "the token is not built from a recorded (prefix index, path) pair of variables: %s" % ast.unparse(t0)})
            continue
        loops = [n for n in ast.walk(f) if isinstance(n, ast.For) and isinstance(n.target, ast.Name) and isinstance(n.iter, ast.Call) and getattr(n.iter.func, "id", "") == "range"]
        ivar = loops[0].target.id if loops else None
        obs.append({"id": "SK-PAIR(%s:prefix-loop)" % q, "ok": ivar is not None, "detail": None if ivar else "no `for i in range(...)` over the prefixes"})
        n_upd = 0

        def blocks(node):
            for n in ast.walk(node):
                for fld in ("body", "orelse", "finalbody"):
                    b = getattr(n, fld, None)
                    if isinstance(b, list) and b and isinstance(b[0], ast.stmt):
                        yield b

        for b in blocks(f):
            for st in b:
                if isinstance(st, ast.Assign) and any(isinstance(t, ast.Name) and t.id == PP for t in st.targets):
                    if isinstance(st.value, ast.Constant) and st.value.value is None:
                        continue  # initialisation
                    n_upd += 1
                    mate = [s2 for s2 in b if isinstance(s2, ast.Assign) and any(isinstance(t, ast.Name) and t.id == PI for t in s2.targets) and isinstance(s2.value, ast.Name) and s2.value.id == ivar]
                    obs.append({"id": "SK-PAIR(%s:update#%d)" % (q, n_upd), "ok": bool(mate), "detail": None if mate else "%s is updated at line %d without %s = %s in the same block" % (PP, st.lineno, PI, ivar)})
        obs.append({"id": "SK-PAIR(%s:updates-exist)" % q, "ok": n_upd >= 1, "detail": None if n_upd else "last_path is never updated"})
        k = 0
        for n in ast.walk(f):
            if isinstance(n, ast.Call) and getattr(n.func, "id", "") == "build_pagination_token":
                k += 1
                good = len(n.args) == 2 and all(isinstance(a, ast.Name) for a in n.args) and [a.id for a in n.args] == [PI, PP] and PI != ivar
                obs.append({"id": "SK-PAIR(%s:token#%d)" % (q, k), "ok": good, "detail": None if good else "token built from %s (the prefix loop variable itself may already have advanced past the prefix the path was recorded under)" % ast.unparse(n)})
        resets = [n for n in ast.walk(loops[0]) if isinstance(n, ast.Assign) and any(isinstance(t, ast.Name) and t.id == "pagination_path" for t in n.targets) and isinstance(n.value, ast.Constant) and n.value.value is None] if loops else []
        direct = [s for s in (loops[0].body if loops else []) if s in resets]
        obs.append({"id": "SK-PAIR(%s:reset)" % q, "ok": bool(direct), "detail": None if direct else "pagination_path is not reset to None at the end of each prefix"})
    return obs
