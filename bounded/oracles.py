"""
Per-property oracles for the bounded stand-in: each compares answers of the real API
with the reference model (statement-derived).  `ctx` carries the random source and a
place to note known findings.
"""
import itertools
import math
import struct
from collections import Counter, defaultdict

from .common import Failure, expect, rand_lru, snap, stems_of, prefixes_of, SHORT


def _TE():
    from traph import TraphException

    return TraphException


def by_weid(m):
    d = defaultdict(list)
    for p, w in m.pref.items():
        d[w].append(p)
    return d


def pages_of(m, w):
    return {l: c for l, c in m.pages.items() if m.weid_of(l) == w}


# ------------------------------------------------------------------------- C01
def C01(t, m, ctx):
    got = [(l, n.is_crawled()) for n, l in t.pages_iter()]
    expect(len(got) == len(set(l for l, _ in got)), "C01: a page is enumerated twice", repr(got))
    gd = dict(got)
    expect(
        gd == m.pages,
        "C01: page enumeration differs from the submitted pages",
        {
            "missing": repr(sorted(set(m.pages) - set(gd))),
            "invented": repr(sorted(set(gd) - set(m.pages))),
            "crawled_diff": repr(sorted(l for l in gd if l in m.pages and gd[l] != m.pages[l])),
        },
    )
    expect(t.count_pages() == len(m.pages), "C01: count_pages", [t.count_pages(), len(m.pages)])
    expect(
        t.count_crawled_pages() == sum(1 for c in m.pages.values() if c),
        "C01: count_crawled_pages",
        [t.count_crawled_pages(), sum(1 for c in m.pages.values() if c)],
    )


# ------------------------------------------------------------------------- C02
def C02(t, m, ctx):
    trie = t.lru_trie
    for l in m.stored:
        n = trie.lru_node(l)
        expect(n is not None, "C02: a stored LRU cannot be located", repr(l))
        expect(trie.windup_lru(n.block) == l, "C02: bottom-up reconstruction differs", repr(l))
        n2, _ = trie.follow_lru(l)
        expect(n2 is not None and n2.block == n.block, "C02: follow_lru and lru_node disagree", repr(l))
    allr = [l for n, l in trie.dfs_iter()]
    expect(len(allr) == len(set(allr)), "C02: traversal yields an LRU twice", repr(allr))
    expect(
        set(allr) == m.stored,
        "C02: full traversal differs from the stored stem-prefixes",
        {"missing": repr(sorted(m.stored - set(allr))), "extra": repr(sorted(set(allr) - m.stored))},
    )
    r = ctx["r"]
    alpha = ctx.get("alpha", SHORT)
    for _ in range(6):
        q = rand_lru(r, (1, 4), alpha)
        expect((trie.lru_node(q) is not None) == (q in m.stored), "C02: located iff stored", repr(q))
        n2, _ = trie.follow_lru(q)
        expect((n2 is not None) == (q in m.stored), "C02: follow_lru located iff stored", repr(q))
    check_inv(t, m)


# ------------------------------------------------------------------------- C03
def C03(t, m, ctx):
    out = Counter()
    inn = Counter()
    for p in m.pages:
        lo = t.get_page_links(p, include_inbound=False)
        for s_, t_, w in lo:
            out[(s_, t_)] += w
        expect(len(lo) == len(set((a, b) for a, b, _ in lo)), "C03: a link reported twice", repr(lo))
        li = t.get_page_links(p, include_outbound=False, include_internal=False)
        expect(len(li) == len(set((a, b) for a, b, _ in li)), "C03: a link reported twice", repr(li))
        for s_, t_, w in li:
            inn[(s_, t_)] += w
        # degrees
        wo = sum(w for (a, b), w in m.links.items() if a == p and b != p)
        wi = sum(w for (a, b), w in m.links.items() if b == p and a != p)
        ws = m.links.get((p, p), 0)
        no = len([1 for (a, b) in m.links if a == p and b != p])
        ni = len([1 for (a, b) in m.links if b == p and a != p])
        expect(t.get_page_outdegree(p, weighted=True) == wo, "C03: weighted outdegree", repr(p))
        expect(t.get_page_indegree(p, weighted=True) == wi, "C03: weighted indegree", repr(p))
        expect(t.get_page_outdegree(p) == no, "C03: outdegree", repr(p))
        expect(t.get_page_indegree(p) == ni, "C03: indegree", repr(p))
        expect(t.get_page_degree(p, weighted=True) == wo + wi + ws, "C03: weighted degree", repr(p))
        expect(t.get_page_degree(p) == no + ni + (1 if ws else 0), "C03: degree", repr(p))
        # the self link is reported once, as internal
        internal = t.get_page_links(p, include_inbound=False, include_outbound=False)
        expect(
            internal == ([[p, p, ws]] if ws else []),
            "C03: self-link not reported once as internal with its count",
            repr(internal),
        )
    expect(out == m.links, "C03: outbound weights differ from submissions", {"got": repr(dict(out)), "exp": repr(dict(m.links))})
    expect(
        inn == Counter({k: v for k, v in m.links.items() if k[0] != k[1]}),
        "C03: inbound weights differ from submissions",
        {"got": repr(dict(inn)), "exp": repr(dict(m.links))},
    )
    expect(t.count_links() == sum(m.links.values()), "C03: global link count", [t.count_links(), sum(m.links.values())])
    lo = list(t.links_iter(out=True))
    li = list(t.links_iter(out=False))
    expect(Counter(lo) == Counter(set(m.links)), "C03: outbound link enumeration", repr(lo))
    expect(Counter((b, a) for a, b in li) == Counter(set(m.links)), "C03: inbound enumeration is not the transpose", repr(li))


# ------------------------------------------------------------------------- C04
def C04(t, m, ctx):
    r = ctx["r"]
    alpha = ctx.get("alpha", SHORT)
    qs = list(m.stored) + [rand_lru(r, (1, 5), alpha) for _ in range(6)]
    # extensions of stored LRUs that are absent
    for l in list(m.pref)[:4]:
        qs.append(l + b"zz|")
    for q in qs:
        e = m.resolve(q)
        try:
            w = t.retrieve_webentity(q)
            p = t.retrieve_prefix(q)
            expect(e is not None and (p, w) == e, "C04: resolution is not the longest attached stem-prefix", [repr(q), repr(e), repr(p), w])
        except _TE():
            expect(e is None, "C04: resolution failed although a stem-prefix carries a webentity", [repr(q), repr(e)])
    wp = dict((l, n.webentity()) for n, l in t.webentity_prefix_iter())
    expect(wp == m.pref, "C04: attached prefixes differ from the net edits", {"got": repr(wp), "exp": repr(m.pref)})
    for q in list(m.stored)[:8] + [rand_lru(r, (1, 3), alpha) for _ in range(3)]:
        try:
            w = t.get_webentity_by_prefix(q)
            expect(m.pref.get(q) == w, "C04: get_webentity_by_prefix", [repr(q), w])
        except _TE():
            expect(q not in m.pref, "C04: get_webentity_by_prefix failed on an attached prefix", repr(q))


# ------------------------------------------------------------------------- C05
def C05(t, m, ctx):
    r = ctx["r"]
    seen = Counter()
    for w, ps in by_weid(m).items():
        ps = list(ps)
        r.shuffle(ps)
        got = t.get_webentity_pages(w, ps)
        exp = pages_of(m, w)
        expect(len(got) == len(set(g["lru"] for g in got)), "C05: a page appears twice within one answer", repr(got))
        expect(
            {g["lru"]: g["crawled"] for g in got} == exp,
            "C05: webentity pages differ from the pages resolving to it",
            {"weid": w, "prefixes": repr(ps), "got": repr(got), "exp": repr(exp)},
        )
        for g in got:
            seen[g["lru"]] += 1
            # ... and agrees with the index's own resolution of that page
            try:
                rw = t.retrieve_webentity(g["lru"])
            except Exception as e:  # the library's error: the page resolves to nothing
                rw = None
                if type(e).__name__ != "TraphException":
                    raise
            expect(rw == w, "C05: a page listed under a webentity resolves to another one (or to none)", {"weid": w, "lru": repr(g["lru"]), "resolves_to": rw})
        gotc = t.get_webentity_crawled_pages(w, ps)
        expect(
            sorted(g["lru"] for g in gotc) == sorted(l for l, c in exp.items() if c) and all(g["crawled"] is True for g in gotc),
            "C05: crawled-only variant",
            {"weid": w, "got": repr(gotc)},
        )
    exp_all = set(l for l in m.pages if m.resolve(l))
    expect(set(seen) == exp_all and all(v == 1 for v in seen.values()), "C05: not a partition of the resolving pages", repr(seen))


# ------------------------------------------------------------------------- C07
def _net(m, outd, auto):
    exp = defaultdict(Counter)
    for (a, b), wt in m.links.items():
        wa = m.weid_of(a)
        wb = m.weid_of(b)
        if wa is None or wb is None:
            continue
        if wa == wb and not auto:
            continue
        if outd:
            exp[wa][wb] += wt
        else:
            exp[wb][wa] += wt
    return {a: dict(d) for a, d in exp.items()}


def C07(t, m, ctx):
    nets = {}
    for outd in (True, False):
        for auto in (True, False):
            g = t.get_webentities_links(out=outd, include_auto=auto)
            g2 = t.get_webentities_links_slow(out=outd, include_auto=auto)
            exp = _net(m, outd, auto)
            tall = {}
            gg = {}
            for a, d in g.items():
                dd = {b: c for b, c in d.items() if b not in ("pages_crawled", "pages_uncrawled")}
                if dd:
                    gg[a] = dd
                tall[a] = (d.get("pages_crawled", 0), d.get("pages_uncrawled", 0))
            gg2 = {a: dict(d) for a, d in g2.items() if d}
            expect(gg == exp, "C07: webentity network differs from aggregated page links", {"out": outd, "auto": auto, "got": repr(gg), "exp": repr(exp)})
            expect(gg2 == exp, "C07: memory-light variant differs", {"out": outd, "auto": auto, "got": repr(gg2), "exp": repr(exp)})
            nets[(outd, auto)] = gg
            # tallies
            for w in set(m.pref.values()):
                pg = pages_of(m, w)
                et = (sum(1 for c in pg.values() if c), sum(1 for c in pg.values() if not c))
                expect(tall.get(w, (0, 0)) == et, "C07: crawled/uncrawled tallies", {"weid": w, "got": tall.get(w), "exp": et})
    for auto in (True, False):
        o = nets[(True, auto)]
        i = nets[(False, auto)]
        tr = defaultdict(dict)
        for a, d in o.items():
            for b, c in d.items():
                tr[b][a] = c
        expect(dict(tr) == i, "C07: inbound network is not the transpose of the outbound one", [repr(o), repr(i)])
    expect(dict(t.get_webentities_inlinks()) == dict(t.get_webentities_links(out=False)), "C07: inlinks alias", None)


# ------------------------------------------------------------------------- C08
def C08(t, m, ctx):
    r = ctx["r"]
    for w, ps in by_weid(m).items():
        ps = list(ps)
        r.shuffle(ps)
        for ii, io, ib in itertools.product([0, 1], [0, 1], [0, 1]):
            if not (ii or io or ib):
                continue
            got = t.get_webentity_pagelinks(w, ps, include_inbound=bool(ib), include_internal=bool(ii), include_outbound=bool(io))
            expl = []
            for (a, b), wt in m.links.items():
                wa = m.weid_of(a)
                wb = m.weid_of(b)
                if wa == w and wb == w and ii:
                    expl.append([a, b, wt])
                if wa == w and wb != w and io:
                    expl.append([a, b, wt])
                if wa != w and wb == w and ib:
                    expl.append([a, b, wt])
            expect(sorted(got) == sorted(expl), "C08: webentity page links", {"weid": w, "switches": [ii, io, ib], "got": repr(sorted(got)), "exp": repr(sorted(expl))})
        cited = set(m.weid_of(b) for (a, b) in m.links if m.weid_of(a) == w)
        citing = set(m.weid_of(a) for (a, b) in m.links if m.weid_of(b) == w)
        cited.discard(None)
        citing.discard(None)
        go = set(t.get_webentity_outlinks(w, ps))
        gi = set(t.get_webentity_inlinks(w, ps))
        expect(go == cited, "C08: cited webentities", {"weid": w, "got": repr(go), "exp": repr(cited)})
        expect(gi == citing, "C08: citing webentities", {"weid": w, "got": repr(gi), "exp": repr(citing)})
        expect(t.get_webentity_outdegree(w, ps) == len(cited), "C08: outdegree", w)
        expect(t.get_webentity_indegree(w, ps) == len(citing), "C08: indegree", w)
        expect(t.get_webentity_degree(w, ps) == len(cited) + len(citing), "C08: degree", w)


# ------------------------------------------------------------------------- C09
def _realm_order(m, w, ps):
    out = []
    for p in ps:
        out += sorted(l for l in m.pages if (m.resolve(l) or (None,))[0] == p)
    return out


def C09(t, m, ctx):
    from traph.helpers import build_pagination_token, parse_pagination_token

    r = ctx["r"]
    for w, ps in by_weid(m).items():
        ps = list(ps)
        r.shuffle(ps)
        for crawled_only in (False, True):
            expo = [l for l in _realm_order(m, w, ps) if m.pages[l] or not crawled_only]
            for k in (1, 2, 3, 4):
                tok = None
                acc = []
                calls = 0
                while True:
                    res = t.paginate_webentity_pages(w, ps, page_count=k, pagination_token=tok, crawled_only=crawled_only)
                    calls += 1
                    expect(calls < 150, "C09: pagination does not terminate (150 calls for one listing)", w)
                    acc += [x["lru"] for x in res["pages"]]
                    expect(res["count"] == len(res["pages"]), "C09: count differs from content", repr(res))
                    expect(res["count_crawled"] == sum(1 for x in res["pages"] if x["crawled"]), "C09: count_crawled", repr(res))
                    expect(all(m.pages.get(x["lru"]) == x["crawled"] for x in res["pages"]), "C09: crawled marks", repr(res))
                    if res["done"]:
                        break
                    expect(len(res["pages"]) == k, "C09: a non-final answer does not hold the requested count", repr(res))
                    tok = res["token"]
                    i, path = parse_pagination_token(tok)
                    expect(build_pagination_token(i, path) == tok, "C09: token does not round-trip", tok)
                expect(acc == expo, "C09: paginated pages differ (order/completeness/duplicates)", {"weid": w, "prefixes": repr(ps), "k": k, "crawled_only": crawled_only, "got": repr(acc), "exp": repr(expo)})
            # unpaginated call
            res = t.paginate_webentity_pages(w, ps, crawled_only=crawled_only)
            expect(res["done"] and [x["lru"] for x in res["pages"]] == expo, "C09: unpaginated answer", repr(res))


# ------------------------------------------------------------------------- C10
def C10(t, m, ctx):
    r = ctx["r"]
    for w, ps in by_weid(m).items():
        ps = list(ps)
        r.shuffle(ps)
        for ii, io in ((1, 0), (0, 1), (1, 1)):
            full = t.get_webentity_pagelinks(w, ps, include_internal=bool(ii), include_outbound=bool(io))
            nsrc = len(set(a for a, _, _ in full))
            for k in (1, 2, 3):
                tok = None
                acc = []
                calls = 0
                while True:
                    res = t.paginate_webentity_pagelinks(w, ps, include_internal=bool(ii), include_outbound=bool(io), source_page_count=k, pagination_token=tok)
                    calls += 1
                    expect(calls < 150, "C10: pagination does not terminate (150 calls for one listing)", w)
                    acc += res["pagelinks"]
                    expect(res["count_pagelinks"] == len(res["pagelinks"]), "C10: count_pagelinks", repr(res))
                    expect(res["count_sourcepages"] == len(set(a for a, _, _ in res["pagelinks"])), "C10: count_sourcepages differs from content", repr(res))
                    if res["done"]:
                        break
                    expect(res["count_sourcepages"] == k, "C10: a non-final answer does not cover the requested number of source pages", repr(res))
                    tok = res["token"]
                expect(sorted(acc) == sorted(full), "C10: paginated links differ from the unpaginated query", {"weid": w, "prefixes": repr(ps), "switches": [ii, io], "k": k, "got": repr(sorted(acc)), "exp": repr(sorted(full))})
            res = t.paginate_webentity_pagelinks(w, ps, include_internal=bool(ii), include_outbound=bool(io))
            expect(res["done"] and sorted(res["pagelinks"]) == sorted(full) and res["count_sourcepages"] == nsrc, "C10: unpaginated answer", repr(res))


# ------------------------------------------------------------------------- C13
def C13(t, m, ctx):
    r = ctx["r"]
    for w, ps in by_weid(m).items():
        ps = list(ps)
        r.shuffle(ps)
        ch = set(t.get_webentity_child_webentities(w, ps))
        ech = set(w2 for p2, w2 in m.pref.items() if w2 != w and any(p2.startswith(p) and p2 != p for p in ps))
        expect(ch == ech, "C13: child webentities", {"weid": w, "prefixes": repr(ps), "got": repr(ch), "exp": repr(ech)})
        pa = set(t.get_webentity_parent_webentities(w, ps))
        epa = set(w2 for p2, w2 in m.pref.items() if w2 != w and any(p.startswith(p2) and p2 != p for p in ps))
        expect(pa == epa, "C13: parent webentities", {"weid": w, "prefixes": repr(ps), "got": repr(pa), "exp": repr(epa)})


# ------------------------------------------------------------------------- C20
def C20(t, m, ctx):
    r = ctx["r"]
    for w, ps in by_weid(m).items():
        ps = list(ps)
        r.shuffle(ps)
        pg = pages_of(m, w)
        true_in = {l: len(set(a for (a, b) in m.links if b == l)) for l in pg}
        for k in (1, 2, 3, 5):
            for depth in (None, 0, 1, 2):
                ml = t.get_webentity_most_linked_pages(w, ps, pages_count=k, max_depth=depth)
                cand = {}
                for l in pg:
                    p = m.resolve(l)[0]
                    d = len(stems_of(l)) - len(stems_of(p))
                    if depth is None or d <= depth:
                        cand[l] = true_in[l]
                lrus = [x["lru"] for x in ml]
                expect(len(lrus) == len(set(lrus)), "C20: a page listed twice", repr(ml))
                expect(set(lrus) <= set(cand), "C20: a listed page is outside the webentity or the depth limit", {"weid": w, "depth": depth, "got": repr(ml)})
                expect(len(ml) == min(k, len(cand)), "C20: wrong number of pages listed", {"weid": w, "k": k, "depth": depth, "got": repr(ml), "cand": repr(cand)})
                vals = [x["indegree"] for x in ml]
                expect(vals == sorted(vals, reverse=True), "C20: not in non-increasing order of indegree", repr(ml))

                def judge(indeg):
                    for x in ml:
                        if indeg[x["lru"]] != x["indegree"]:
                            return "indegree of %r reported %d, distinct inbound sources %d" % (x["lru"], x["indegree"], indeg[x["lru"]])
                    if ml:
                        lowest = min(indeg[l] for l in lrus)
                        for l, v in indeg.items():
                            if l not in lrus and v > lowest:
                                return "omitted page %r has indegree %d > listed %d" % (l, v, lowest)
                    return None

                bad = judge(cand)
                if bad:
                    # known finding D7: a page nobody links to is reported with 1
                    adj = {l: (1 if v == 0 else v) for l, v in cand.items()}
                    bad2 = judge(adj)
                    zero = [l for l in lrus if cand[l] == 0] or [l for l, v in cand.items() if v == 0]
                    if bad2 is None and zero:
                        ctx["known"].add(("C20", "D7-indegree-1-for-page-without-inlinks"))
                    else:
                        raise Failure("C20: " + (bad2 or bad), {"weid": w, "k": k, "depth": depth, "got": repr(ml), "true": repr(cand)})


# ------------------------------------------------------------------------- C19
def C19(t, m, ctx):
    a, b = snap(t)
    exp = m.block_count()
    expect(len(a) % 128 == 0 and len(b) % 16 == 0, "C19: stores are not whole blocks", [len(a), len(b)])
    expect(len(a) // 128 == exp, "C19: trie store blocks differ from the accounting formula", {"blocks": len(a) // 128, "expected": exp})
    expect(len(b) // 16 == 1 + 2 * sum(m.links.values()), "C19: link store blocks", {"blocks": len(b) // 16, "expected": 1 + 2 * sum(m.links.values())})
    check_inv(t, m, only_refs=True)
    mt = t.metrics()
    tails = sum(max(1, -(-len(stems_of(l)[-1]) // 74)) - 1 for l in m.stored)
    lt = mt["lru_trie"]
    expect(lt["nb_pages"] == len(m.pages), "C19: metrics nb_pages", lt)
    expect(lt["nb_crawled_pages"] == sum(1 for c in m.pages.values() if c), "C19: metrics nb_crawled_pages", lt)
    expect(lt["nb_tail_nodes"] == tails, "C19: metrics nb_tail_nodes", [lt["nb_tail_nodes"], tails])
    expect(lt["nb_nodes"] == exp - 1, "C19: metrics nb_nodes", [lt["nb_nodes"], exp - 1])
    expect(lt["nb_stems"] == len(m.stored), "C19: metrics nb_stems", [lt["nb_stems"], len(m.stored)])
    expect(mt["link_store"]["nb_links"] == sum(m.links.values()), "C19: metrics nb_links", mt["link_store"])
    expect(t.count_links() == sum(m.links.values()), "C19: count_links", None)


# ------------------------------------------------------------------------- Inv on raw bytes
FMT = "75pBI6Q"
PAGE, CRAWLED, LINKED, DELETED, RULE, HAS_TAIL, IS_TAIL, NOCHILD = range(8)


def check_inv(t, m, only_refs=False):
    """DESIGN 3.3 I0-I11 evaluated on the raw store bytes (ghost state recomputed).
    Also guards the deductive part against a vacuous Inv."""
    tb, lb = snap(t)
    expect(len(tb) % 128 == 0 and len(tb) >= 128 and len(lb) % 16 == 0 and len(lb) >= 16, "Inv I0: sizes", [len(tb), len(lb)])
    B = {a: struct.unpack(FMT, tb[a : a + 128]) for a in range(128, len(tb), 128)}

    def fl(a, k):
        return (B[a][1] >> k) & 1

    heads = [a for a in B if not fl(a, IS_TAIL)]
    hs = set(heads)
    key = {}
    for a in B:
        st, flags, we, l, r, c, p, o, i = B[a]
        if fl(a, HAS_TAIL):
            expect(a + 128 in B and fl(a + 128, IS_TAIL) and len(st) == 74, "Inv I1: tail chain", a)
        if fl(a, IS_TAIL):
            expect(a - 128 in B and fl(a - 128, HAS_TAIL), "Inv I1: unreferenced tail block", a)
            expect((we, l, r, c, p, o, i) == (0,) * 7 and not fl(a, PAGE) and not fl(a, CRAWLED) and not fl(a, RULE), "Inv I1: tail block carries data", a)
            expect(len(st) >= 1, "Inv I1: empty tail chunk", a)
    for a in heads:
        k = B[a][0]
        b = a
        while fl(b, HAS_TAIL):
            b += 128
            k += B[b][0]
        key[a] = k
        expect(k.endswith(b"|") and k.count(b"|") == 1, "Inv I7: stored stem is not well-formed", repr(k))
    refs = {}
    for a in heads:
        st, flags, we, l, r, c, p, o, i = B[a]
        for nm, x in (("L", l), ("R", r), ("C", c)):
            expect(x == 0 or (x in hs and x > a), "Inv I2: pointer does not point forward to a head", [a, nm, x])
            if x:
                expect(x not in refs, "Inv I5: block referenced twice", x)
                refs[x] = (a, nm)
        expect(p == 0 or (p in hs and p < a), "Inv I2: parent pointer", a)
        if c:
            expect(B[c][6] == a, "Inv I3: child's parent", a)
        if l:
            expect(B[l][6] == p, "Inv I3: left sibling's parent", a)
        if r:
            expect(B[r][6] == p, "Inv I3: right sibling's parent", a)
    if heads:
        expect(128 in hs and B[128][6] == 0, "Inv I3: root", None)
    expect(set(refs) == hs - {128}, "Inv I5: unreferenced block(s)", sorted(hs - {128} - set(refs)))
    if only_refs:
        return
    lo = {}
    hi = {}
    roots = ([128] + [B[a][5] for a in heads if B[a][5]]) if heads else []
    for rt in roots:
        lo[rt] = None
        hi[rt] = None
        st_ = [rt]
        while st_:
            a = st_.pop()
            l, r = B[a][3], B[a][4]
            expect((lo[a] is None or lo[a] < key[a]) and (hi[a] is None or key[a] < hi[a]), "Inv I4: BST order on full stems", a)
            if l:
                lo[l] = lo[a]
                hi[l] = key[a]
                st_.append(l)
            if r:
                lo[r] = key[a]
                hi[r] = hi[a]
                st_.append(r)
    expect(set(lo) == hs, "Inv I4: heads outside every sibling tree", None)
    lru = {}
    for a in sorted(heads):
        p = B[a][6]
        lru[a] = (lru[p] if p else b"") + key[a]
    expect(len(set(lru.values())) == len(lru) and set(lru.values()) == m.stored, "Inv I7: stored LRUs differ from the view", repr(set(lru.values()) ^ m.stored))
    for a in heads:
        expect(bool(fl(a, PAGE)) == (lru[a] in m.pages), "Inv I8: page bit", repr(lru[a]))
        expect(bool(fl(a, CRAWLED)) == bool(m.pages.get(lru[a], False)), "Inv I8: crawled bit", repr(lru[a]))
        expect(B[a][2] == m.pref.get(lru[a], 0), "Inv I8: webentity field", repr(lru[a]))
        expect(bool(fl(a, RULE)) == (lru[a] in m.rules), "Inv I8: rule bit", repr(lru[a]))
    for a in heads:
        p = B[a][6]
        if p and (B[a][2] != 0 or not fl(a, NOCHILD)):
            expect(not fl(p, NOCHILD), "Inv I9: pruning mark hides a webentity", repr(lru[a]))
    S = {b: struct.unpack("QQ", lb[b : b + 16]) for b in range(16, len(lb), 16)}

    def chain(b):
        out = []
        while b:
            expect(b in S, "Inv I10: stub pointer outside the store", b)
            tg, pv = S[b]
            expect(pv == 0 or (pv in S and pv < b), "Inv I10: previous pointer", b)
            out.append(tg)
            b = pv
        return out

    M = Counter()
    Min = Counter()
    for a in heads:
        o, i = B[a][7], B[a][8]
        if o or i:
            expect(fl(a, PAGE), "Inv I10: links on a non-page", repr(lru[a]))
        for tg in chain(o):
            expect(tg in hs and fl(tg, PAGE), "Inv I10: link target is not a page", tg)
            M[(lru[a], lru[tg])] += 1
        for sg in chain(i):
            expect(sg in hs and fl(sg, PAGE), "Inv I10: link source is not a page", sg)
            Min[(lru[sg], lru[a])] += 1
    expect(M == m.links and Min == m.links, "Inv I10: stored multigraph / symmetry", {"out": repr(dict(M)), "in": repr(dict(Min)), "exp": repr(dict(m.links))})
    expect(len(lb) == 16 * (1 + 2 * sum(m.links.values())), "Inv I10: link store size", len(lb))
    expect(len(tb) // 128 == m.block_count(), "Inv I11: block accounting", [len(tb) // 128, m.block_count()])


# ------------------------------------------------------------------------- C14
def all_queries(t, m, ctx):
    """every read-only request, succeeding or failing with the library's error"""
    r = ctx["r"]
    alpha = ctx.get("alpha", SHORT)
    TE = _TE()
    qs = list(m.stored)[:6] + [rand_lru(r, (1, 4), alpha) for _ in range(4)]

    def safe(f):
        try:
            x = f()
            if hasattr(x, "__next__"):
                for _ in x:
                    pass
        except TE:
            pass

    for q in qs:
        safe(lambda: t.retrieve_prefix(q))
        safe(lambda: t.retrieve_webentity(q))
        safe(lambda: t.get_potential_prefix(q))
        safe(lambda: t.get_webentity_by_prefix(q))
        safe(lambda: t.get_page_links(q))
        safe(lambda: t.get_page_degree(q))
        safe(lambda: t.get_page_indegree(q, weighted=True))
        safe(lambda: t.get_page_outdegree(q))
        safe(lambda: t.expand_prefix(q))
    ws = list(by_weid(m).items()) + [(999, [rand_lru(r, (1, 3), alpha)])]
    for w, ps in ws:
        safe(lambda: t.get_webentity_pages(w, ps))
        safe(lambda: t.get_webentity_crawled_pages(w, ps))
        safe(lambda: t.paginate_webentity_pages(w, ps, page_count=1))
        safe(lambda: t.paginate_webentity_pages(w, ps, page_count=2, crawled_only=True))
        safe(lambda: t.get_webentity_most_linked_pages(w, ps, pages_count=2, max_depth=1))
        safe(lambda: t.get_webentity_parent_webentities(w, ps))
        safe(lambda: t.get_webentity_child_webentities(w, ps))
        safe(lambda: t.get_webentity_pagelinks(w, ps, include_inbound=True, include_outbound=True))
        safe(lambda: t.get_webentity_pagelinks(w, ps, include_internal=False))
        safe(lambda: t.paginate_webentity_pagelinks(w, ps, source_page_count=1, include_outbound=True))
        safe(lambda: t.get_webentity_outlinks(w, ps))
        safe(lambda: t.get_webentity_inlinks(w, ps))
        safe(lambda: t.get_webentity_degree(w, ps))
        safe(lambda: list(t.webentity_page_nodes_iter(w, ps)))
    for outd in (True, False):
        safe(lambda: t.get_webentities_links(out=outd, include_auto=True))
        safe(lambda: t.get_webentities_links_slow(out=outd))
        safe(lambda: list(t.links_iter(out=outd)))
    safe(lambda: list(t.pages_iter()))
    safe(lambda: list(t.webentity_prefix_iter()))
    safe(lambda: t.count_pages())
    safe(lambda: t.count_crawled_pages())
    safe(lambda: t.count_links())
    if m.stored:
        safe(lambda: t.metrics())


def C14(t, m, ctx):
    before = snap(t)
    all_queries(t, m, ctx)
    after = snap(t)
    expect(before == after, "C14: a read-only request changed the stores", {"trie_changed": before[0] != after[0], "links_changed": before[1] != after[1]})


# ------------------------------------------------------------------------- observation (C11/C15/C16)
def observe(t, m):
    """a canonical tuple of everything observable through the read API"""
    obs = {}
    obs["pages"] = sorted((l, n.is_crawled()) for n, l in t.pages_iter())
    obs["prefixes"] = sorted((l, n.webentity()) for n, l in t.webentity_prefix_iter())
    obs["counts"] = (t.count_pages(), t.count_crawled_pages(), t.count_links())
    lk = []
    for l, _ in obs["pages"]:
        lk.append((l, sorted(map(tuple, t.get_page_links(l)))))
    obs["links"] = lk
    obs["net"] = sorted((a, sorted(d.items(), key=repr)) for a, d in t.get_webentities_links(include_auto=True).items())
    wl = []
    for w, ps in sorted(by_weid(m).items()):
        ps = sorted(ps)
        wl.append((w, t.get_webentity_pages(w, ps), sorted(t.get_webentity_child_webentities(w, ps)), t.paginate_webentity_pages(w, ps, page_count=2)))
    obs["webentities"] = wl
    return obs


ORACLES = {
    "C01": [C01],
    "C02": [C02],
    "C03": [C03],
    "C04": [C04],
    "C05": [C05],
    "C07": [C07],
    "C08": [C08],
    "C09": [C09],
    "C10": [C10],
    "C13": [C13],
    "C14": [C14],
    "C19": [C19],
    "C20": [C20],
}
