"""the add_links variant of contracts/batch.py (same stubs, its own link-list model)"""
from .batch import install_add_links as install  # noqa: F401

GROUP = "batchlinks"
