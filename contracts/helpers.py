"""
Contracts for traph/helpers.py (DESIGN 4.4).

detailed_chunks_iter(n, s) yields (is_last_i, c_i) for i < k with
   k = 1 if len(s) <= n else ceil(len(s)/n),  c_i = s[n*i : n*i+n],  is_last_i <=> i = k-1
(so the chunks concatenate to s, every chunk but the last has n bytes, the last 1..n —
or the single chunk is the empty string).  Verified for the chunk sizes in CHUNK_SIZES
(74 is the only size any caller passes: LRU_TRIE_STEM_SIZE); a symbolic size would make
n*i non-linear.
"""
import z3

from pyvc.lib import Contract, LoopSpec, SeqView
from pyvc.sym import BOOL, BYTES, INT, Opt, Path, Unsupported, bytes_val, fresh, to_z3

CHUNK_SIZES = (74, 1, 2, 128)


def nchunks(L, n):
    return z3.If(L <= n, 1, (L + n - 1) / n)


def chunk(s, n, i):
    L = z3.Length(s)
    rem = L - n * i
    return z3.Extract(s, n * i, z3.If(rem < n, rem, n))


class DetailedChunks(Contract):
    qual = "detailed_chunks_iter"

    def setups(self, ex):
        for n in CHUNK_SIZES:
            p = Path()
            s = fresh("string", BYTES)
            p.w["__s"] = s
            p.w["out.n"] = z3.IntVal(0)
            p.w["out.last"] = fresh("out_last", z3.ArraySort(INT, BOOL))
            p.w["out.chunk"] = fresh("out_chunk", z3.ArraySort(INT, BYTES))
            yield p, None, [n, s], {}, n

    def on_yield(self, ex, p, v, ln, tag):
        if not (isinstance(v, tuple) and len(v) == 2):
            ex.oblige(p, "yields-a-pair", False, ln)
            return []
        n = p.w["out.n"]
        p.w["out.last"] = z3.Store(p.w["out.last"], n, to_z3(ex.truth(v[0], p)))
        p.w["out.chunk"] = z3.Store(p.w["out.chunk"], n, to_z3(v[1]))
        p.w["out.n"] = z3.simplify(n + 1)
        p.mut += 1
        return [(p, "normal", None)]

    @staticmethod
    def described(p, n, upto):
        s = p.w["__s"]
        j = z3.Int("j")
        k = nchunks(z3.Length(s), n)
        return [
            ("yield-j-is-chunk-j", z3.ForAll([j], z3.Implies(z3.And(j >= 0, j < upto), z3.Select(p.w["out.chunk"], j) == chunk(s, n, j)))),
            ("is_last<=>j==k-1", z3.ForAll([j], z3.Implies(z3.And(j >= 0, j < upto), z3.Select(p.w["out.last"], j) == (j == k - 1)))),
        ]

    def check(self, ex, p0, res, n):
        s = p0.w["__s"]
        k = nchunks(z3.Length(s), n)
        for p1, kind, val in res:
            if kind == "raise":
                ex.oblige(p1, "raises-nothing(%s)" % val[0], False, val[1])
                continue
            ex.oblige(p1, "number-of-chunks", p1.w["out.n"] == k, None)
            for nm, f in self.described(p1, n, p1.w["out.n"]):
                ex.oblige(p1, nm, f, None)

    def seq(self, ex, p, recv, args, kw, ln):
        n, s = args[0], to_z3(args[1])
        if not isinstance(n, int) or n not in CHUNK_SIZES:
            raise Unsupported("detailed_chunks_iter with a chunk size outside %r" % (CHUNK_SIZES,))
        k = nchunks(z3.Length(s), n)
        return p, SeqView(k, lambda i: (i == k - 1, chunk(s, n, i)))


def chunks_loop_inv(ex, p):
    n = p.env["chunk_size"]
    idx = [k for k in p.env if k.startswith("__i")][0]
    i = to_z3(p.env[idx])
    cs = [("yields-so-far==iterations", p.w["out.n"] == i), ("past-the-short-string-branch", z3.Length(p.w["__s"]) > n)]
    cs += DetailedChunks.described(p, n, p.w["out.n"])
    return cs


class Base4Append(Contract):
    qual = "base4_append"

    def setups(self, ex):
        p = Path()
        a, b = fresh("p", INT), fresh("n", INT)
        p.w["__a"], p.w["__b"] = a, b
        yield p, None, [a, b], {}, "any"

    def check(self, ex, p0, res, tag):
        for p1, kind, val in res:
            if kind == "raise":
                ex.oblige(p1, "raises-nothing", False, val[1])
                continue
            ex.oblige(p1, "result==4p+n", to_z3(val) == 4 * p0.w["__a"] + p0.w["__b"], None)


def install(lib):
    lib.loop_spec("detailed_chunks_iter::for#0", LoopSpec(chunks_loop_inv, world=("out.n", "out.last", "out.chunk")))
    return [DetailedChunks(), Base4Append()]


GROUP = "helpers"


class LruVariations(Contract):
    """lru_variations(lru) (C17, the two clauses a contract can decide): it raises
    nothing for ANY byte string, and the result is a list of 1..4 entries whose first is
    the input.  `split`, the host filter, `join` and the www `replace` are abstracted
    (lengths only): the identities between the entries are left to the bounded stand-in."""

    qual = "lru_variations"

    def setups(self, ex):
        p = Path()
        lru = fresh("lru", BYTES)
        p.w["__lru"] = lru
        yield p, None, [lru], {}, "any"

    def check(self, ex, p0, res, tag):
        lru = p0.w["__lru"]
        for p1, kind, val in res:
            if kind == "raise":
                ex.oblige(p1, "raises-nothing(%s)" % val[0], False, val[1])
                continue
            o = p1.obj(val) if hasattr(val, "oid") else None
            if o is None or "items" not in o.f:
                ex.oblige(p1, "returns-a-list", False, None)
                continue
            items = o.f["items"]
            ex.oblige(p1, "between-1-and-4-entries", z3.BoolVal(1 <= len(items) <= 4), None)
            ex.oblige(p1, "first-entry-is-the-prefix-itself", to_z3(items[0]) == lru, None)


class HttpsVariation(Contract):
    """https_variation switches exactly the leading scheme stem"""

    qual = "https_variation"

    def setups(self, ex):
        p = Path()
        lru = fresh("lru", BYTES)
        p.w["__lru"] = lru
        yield p, None, [lru], {}, "any"

    def check(self, ex, p0, res, tag):
        lru = p0.w["__lru"]
        http, https = to_z3(b"s:http|"), to_z3(b"s:https|")
        for p1, kind, val in res:
            if kind == "raise":
                ex.oblige(p1, "raises-nothing(%s)" % val[0], False, val[1])
                continue
            if isinstance(val, Opt):
                none, v = val.none, val.val
            else:
                none, v = z3.BoolVal(val is None), val
            is_http = z3.PrefixOf(http, lru)
            is_https = z3.PrefixOf(https, lru)
            ex.oblige(p1, "None<=>scheme-is-neither-http-nor-https", to_z3(none) == z3.Not(z3.Or(is_http, is_https)), None)
            if v is not None:
                vz = to_z3(v)
                rest_http = z3.Extract(lru, 7, z3.Length(lru) - 7)
                rest_https = z3.Extract(lru, 8, z3.Length(lru) - 8)
                ex.oblige(p1, "http->https:only-the-scheme-stem-changes", z3.Implies(z3.And(z3.Not(to_z3(none)), is_http), vz == z3.Concat(https, rest_http)), None)
                ex.oblige(p1, "https->http:only-the-scheme-stem-changes", z3.Implies(z3.And(z3.Not(to_z3(none)), z3.Not(is_http), is_https), vz == z3.Concat(http, rest_https)), None)


_install0 = install


def install(lib):
    return _install0(lib) + [HttpsVariation(), LruVariations()]


# ---------------------------------------------------------------------------- walk history (C06)
RULEPOS = z3.Function("RULEPOS", INT, INT)


class RulesToApply(Contract):
    """LRUTrieWalkHistory.rules_to_apply: one candidate anchor per recorded rule position,
    deepest first: the j-th yield is lru[0:position_(n-1-j)].  Positions recorded by the
    walks are lengths of stem-prefixes of the walked LRU, the LRU itself included
    (0 <= position <= len(lru))."""

    qual = "LRUTrieWalkHistory.rules_to_apply"

    def setups(self, ex):
        p = Path()
        lru = fresh("lru", BYTES)
        n = fresh("nrules", INT)
        j = z3.Int("j")
        p.assume(n >= 0)
        p.assume(z3.ForAll([j], z3.Implies(z3.And(j >= 0, j < n), z3.And(RULEPOS(j) >= 0, RULEPOS(j) <= z3.Length(lru)))))
        rules = p.new_obj("list", {"len": n, "elem": lambda i: RULEPOS(i)})
        h = p.new_obj("LRUTrieWalkHistory", {"lru": lru, "webentity_creation_rules": rules})
        p.w["__lru"], p.w["__n"] = lru, n
        p.w["out.n"] = z3.IntVal(0)
        p.w["out.v"] = fresh("out_v", z3.ArraySort(INT, BYTES))
        yield p, h, [], {}, "any"

    def on_yield(self, ex, p, v, ln, tag):
        n = p.w["out.n"]
        p.w["out.v"] = z3.Store(p.w["out.v"], n, to_z3(v))
        p.w["out.n"] = z3.simplify(n + 1)
        p.mut += 1
        return [(p, "normal", None)]

    @staticmethod
    def described(p, upto):
        j = z3.Int("j")
        lru, n = p.w["__lru"], p.w["__n"]
        return [("yield-j-is-the-prefix-cut-at-the-(n-1-j)-th-recorded-position", z3.ForAll([j], z3.Implies(z3.And(j >= 0, j < upto), z3.Select(p.w["out.v"], j) == z3.Extract(lru, 0, RULEPOS(n - 1 - j)))))]

    def check(self, ex, p0, res, tag):
        for p1, kind, val in res:
            if kind == "raise":
                ex.oblige(p1, "raises-nothing(%s)" % val[0], False, val[1])
                continue
            ex.oblige(p1, "one-candidate-per-recorded-rule", p1.w["out.n"] == p0.w["__n"], None)
            for nm, f in self.described(p1, p1.w["out.n"]):
                ex.oblige(p1, nm, f, None)


def rules_loop_inv(ex, p):
    idx = [k for k in p.env if k.startswith("__i")][0]
    i = to_z3(p.env[idx])
    return [("yields-so-far==iterations", p.w["out.n"] == i)] + RulesToApply.described(p, p.w["out.n"])


_install1 = install


def install(lib):
    lib.loop_spec("LRUTrieWalkHistory.rules_to_apply::for#0", LoopSpec(rules_loop_inv, world=("out.n", "out.v")))
    return _install1(lib) + [RulesToApply()]
