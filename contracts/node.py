"""
Contracts for traph/lru_trie/node.py (DESIGN 4.3), verified against the abstract Store.

Invariant used at this level (I1, tails):
  I1a  no dangling tail:   blk(a) and HAS_TAIL(a)           =>  a+128 < size
  I1b  ghost rest is the spelled tail:
         blk(a) and not HAS_TAIL(a)                          =>  G.rest[a] = ""
         blk(a) and HAS_TAIL(a) and a+128 < size             =>  G.rest[a] = stem[a+128] ++ G.rest[a+128]
  I1c  tail blocks are flagged and carry nothing else
`read` is also verified with no invariant at all (any aligned data block of any store,
torn ones included): it raises nothing and returns the stored fields (CR-R of C18).
"""
import z3

from pyvc.lib import Contract, LoopSpec
from pyvc.sym import bcat, blen, BOOL, BV8, BYTES, INT, DeadPath, Opt, Path, Ref, Unsupported, bytes_val, fresh, to_z3, zand, znot
from . import world as Wd
from .world import AL, FIELDS, HAS_TAIL, IS_TAIL, NOCHILD, PAGE, CRAWLED, RULE, W, bit, mk_store, mk_world, node_data, sym_node

DEFAULT_FLAGS = 128
CHUNK = 74


# ---------------------------------------------------------------------------- I1
def I1(p):
    w = W(p)
    a = z3.Int("a")
    size = p.w["T.size"]
    fl = w.f("flags", a)
    nxt = w.f("flags", a + 128)
    cs = [
        ("I1a:no-dangling-tail", z3.ForAll([a], z3.Implies(z3.And(w.blk(a), bit(fl, HAS_TAIL)), a + 128 < size))),
        ("I1b:rest-empty-without-tail", z3.ForAll([a], z3.Implies(z3.And(w.blk(a), z3.Not(bit(fl, HAS_TAIL))), w.rest(a) == bytes_val(b"")))),
        ("I1b:rest-unfolds", z3.ForAll([a], z3.Implies(z3.And(w.blk(a), bit(fl, HAS_TAIL), a + 128 < size), w.rest(a) == bcat(w.f("stem", a + 128), w.rest(a + 128))))),
        ("I1c:successor-of-a-tailed-block-is-a-tail", z3.ForAll([a], z3.Implies(z3.And(w.blk(a), bit(fl, HAS_TAIL), a + 128 < size), bit(nxt, IS_TAIL)))),
        ("I1c:tail-block-follows-a-tailed-block", z3.ForAll([a], z3.Implies(z3.And(w.blk(a), bit(fl, IS_TAIL)), z3.And(a >= 256, bit(w.f("flags", a - 128), HAS_TAIL))))),
    ]
    return cs


def invariant_context(p):
    """does the path carry the tail invariant for some version of the world?"""
    from pyvc import smt

    for c in p.pc:
        if z3.is_quantifier(c):
            sy = smt.symbols(c)
            if any(x.startswith(("G_rest", "G.rest")) for x in sy):
                return True
    return False


def has_clauses(p, clauses):
    for nm, f in clauses:
        if not any(c.eq(f) for c in p.pc):
            return False
    return True


def assume_all(p, clauses):
    for nm, f in clauses:
        p.assume(f)


def base_world(inv=True):
    p = Path()
    w = mk_world(p)
    for c in Wd.fields_in_range(w):
        p.assume(c)
    if inv:
        assume_all(p, I1(p))
    store = mk_store(p, "T")
    return p, w, store


def node_unchanged(ex, p1, p0, ref, what=("block", "exists", "tail", "data"), skip_data=()):
    o0, o1 = p0.obj(ref), p1.obj(ref)
    for k in what:
        if k == "data":
            d0, d1 = node_data(p0, ref), node_data(p1, ref)
            for i, (x, y) in enumerate(zip(d0, d1)):
                if i in skip_data:
                    continue
                ex.oblige(p1, "frame:data[%s]-unchanged" % FIELDS[i], to_z3(x) == to_z3(y), None)
        else:
            x, y = o0.f[k], o1.f[k]
            if isinstance(x, Opt) or isinstance(y, Opt) or x is None or y is None:
                ex.oblige(p1, "frame:%s-unchanged" % k, ex.opt_eq(x, y, p1), None)
            else:
                ex.oblige(p1, "frame:%s-unchanged" % k, to_z3(x) == to_z3(y), None)


def world_unchanged(ex, p1, p0, keys=None):
    for k in keys or p0.w:
        if k in p1.w and not p1.w[k].eq(p0.w[k]):
            ex.oblige(p1, "frame:%s-unchanged" % k, p1.w[k] == p0.w[k], None)


# ---------------------------------------------------------------------------- accessors
def _opt_ptr(v):
    return lambda d, o: Opt(d[v] < 128, d[v])


ACCESSORS = {
    "has_left": lambda d, o: d[3] != 0,
    "left": _opt_ptr(3),
    "has_right": lambda d, o: d[4] != 0,
    "right": _opt_ptr(4),
    "has_child": lambda d, o: d[5] != 0,
    "child": _opt_ptr(5),
    "has_parent": lambda d, o: d[6] != 0,
    "parent": lambda d, o: d[6],
    "has_outlinks": lambda d, o: d[7] != 0,
    "outlinks": lambda d, o: d[7],
    "has_inlinks": lambda d, o: d[8] != 0,
    "inlinks": lambda d, o: d[8],
    "has_webentity": lambda d, o: d[2] != 0,
    "webentity": lambda d, o: Opt(d[2] == 0, d[2]),
    "is_page": lambda d, o: bit(d[1], PAGE),
    "is_crawled": lambda d, o: bit(d[1], CRAWLED),
    "has_webentity_creation_rule": lambda d, o: bit(d[1], RULE),
    "has_tail": lambda d, o: bit(d[1], HAS_TAIL),
    "is_tail": lambda d, o: bit(d[1], IS_TAIL),
    "can_have_child_webentities": lambda d, o: z3.Not(bit(d[1], NOCHILD)),
    "stem": lambda d, o: bcat(d[0], o.f["tail"]),
}


class Accessor(Contract):
    def __init__(self, name, spec, args=()):
        self.name, self.spec, self.args = name, spec, args
        self.qual = "LRUTrieNode." + name

    def setups(self, ex):
        p, w, store = base_world(inv=False)
        n = sym_node(p, store)
        for c in Wd.in_range(node_data(p, n)):
            p.assume(c)
        p.w["__n"] = z3.IntVal(0)
        self.n = n
        yield p, n, list(self.args), {}, "any"

    def check(self, ex, p0, res, tag):
        n = self.n
        for p1, kind, val in res:
            if kind == "raise":
                ex.oblige(p1, "raises-nothing(%s)" % val[0], False, val[1])
                continue
            exp = self.spec(node_data(p0, n), p0.obj(n))
            if isinstance(exp, Opt):
                if isinstance(val, Opt):
                    vn, vv = val.none, val.val
                else:
                    vn, vv = (val is None), val
                ex.oblige(p1, "result-is-None-iff", to_z3(vn) == exp.none, None)
                if vv is not None:
                    ex.oblige(p1, "result-value", z3.Implies(z3.Not(exp.none), to_z3(vv) == exp.val), None)
            else:
                v = val
                if isinstance(v, Opt) or v is None:
                    ex.oblige(p1, "result-not-None", False, None)
                    continue
                vz = to_z3(v)
                ez = to_z3(exp)
                if vz.sort() == BOOL and ez.sort() != BOOL:
                    raise Unsupported("accessor sort")
                ex.oblige(p1, "result", vz == ez, None)
            node_unchanged(ex, p1, p0, n)
            world_unchanged(ex, p1, p0)


class LinksAccessor(Accessor):
    """has_links(out) / links(out): the out flag selects the field"""

    def __init__(self, name, out):
        idx = 7 if out else 8
        spec = (lambda d, o: d[idx] != 0) if name == "has_links" else (lambda d, o: d[idx])
        Accessor.__init__(self, name, spec)
        self.out = out

    def setups(self, ex):
        for s in Accessor.setups(self, ex):
            p, n, a, kw, tag = s
            yield p, n, [], {"out": self.out}, tag


# ---------------------------------------------------------------------------- setters
class FlagSetter(Contract):
    """flag_as_x / unflag_as_x: exactly one bit of the flags register changes"""

    def __init__(self, name, bitpos, value):
        self.qual = "LRUTrieNode." + name
        self.bitpos, self.value = bitpos, value

    def setups(self, ex):
        p, w, store = base_world(inv=False)
        n = sym_node(p, store)
        self.n = n
        yield p, n, [], {}, "any"

    def check(self, ex, p0, res, tag):
        n = self.n
        for p1, kind, val in res:
            if kind == "raise":
                ex.oblige(p1, "raises-nothing(%s)" % val[0], False, val[1])
                continue
            f0, f1 = node_data(p0, n)[1], node_data(p1, n)[1]
            f1 = Wd._coerce(f1, BV8)
            for k in range(8):
                if k == self.bitpos:
                    ex.oblige(p1, "bit%d-is-%s" % (k, self.value), bit(f1, k) == z3.BoolVal(self.value), None)
                else:
                    ex.oblige(p1, "bit%d-unchanged" % k, bit(f1, k) == bit(f0, k), None)
            node_unchanged(ex, p1, p0, n, skip_data=(1,))
            world_unchanged(ex, p1, p0)


class FieldSetter(Contract):
    def __init__(self, name, idx, guard128=False, exc=None, const=None, kw=None):
        self.qual = "LRUTrieNode." + name
        self.idx, self.guard128, self.exc, self.const, self.kw = idx, guard128, exc, const, kw or {}

    def setups(self, ex):
        p, w, store = base_world(inv=False)
        n = sym_node(p, store)
        self.n = n
        v = fresh("v", INT)
        p.assume(v >= 0)
        p.w["__v"] = v
        yield p, n, ([] if self.const is not None else [v]), dict(self.kw), "any"

    def check(self, ex, p0, res, tag):
        n = self.n
        v = p0.w["__v"] if self.const is None else z3.IntVal(self.const)
        for p1, kind, val in res:
            if kind == "raise":
                if self.guard128 and val[0] == self.exc:
                    ex.oblige(p1, "raises-only-below-first-data-block", v < 128, val[1])
                else:
                    ex.oblige(p1, "raises-nothing(%s)" % val[0], False, val[1])
                continue
            if self.guard128:
                ex.oblige(p1, "accepted-only-data-blocks", v >= 128, None)
            ex.oblige(p1, "field-set", to_z3(node_data(p1, n)[self.idx]) == v, None)
            node_unchanged(ex, p1, p0, n, skip_data=(self.idx,))
            world_unchanged(ex, p1, p0)


class SetStem(Contract):
    qual = "LRUTrieNode.set_stem"

    def setups(self, ex):
        p, w, store = base_world(inv=False)
        n = sym_node(p, store)
        self.n = n
        o = p.obj(n)
        # a node that carries no tail yet (how every caller uses it)
        o.f["tail"] = b""
        p.assume(z3.Not(bit(node_data(p, n)[1], HAS_TAIL)))
        s = fresh("stem", BYTES)
        p.w["__s"] = s
        yield p, n, [s], {}, "any"

    @staticmethod
    def post(d1, tail1, s):
        L = blen(s)
        return [
            ("payload++tail==stem", bcat(d1[0], tail1) == s),
            ("payload-fits", blen(d1[0]) <= CHUNK),
            ("has-tail<=>longer-than-payload", bit(Wd._coerce(d1[1], BV8), HAS_TAIL) == (L > CHUNK)),
            ("tail-nonempty<=>longer-than-payload", (blen(tail1) > 0) == (L > CHUNK)),
            ("payload-full-when-tailed", z3.Implies(L > CHUNK, blen(d1[0]) == CHUNK)),
        ]

    def apply(self, ex, p, recv, args, kw, ln):
        s = to_z3(args[0])
        q = p.fork()
        o = q.obj(recv)
        d = list(node_data(q, recv))
        f0 = Wd._coerce(d[1], BV8)
        ex.oblige(q, "set_stem:node-carries-no-tail-yet", z3.And(to_z3(o.f["tail"]) == bytes_val(b""), z3.Not(bit(f0, HAS_TAIL))), ln, "pre")
        L = blen(s)
        payload = fresh("payload", BYTES)
        tail = fresh("tail", BYTES)
        d[0] = payload
        d[1] = z3.If(L > CHUNK, f0 | z3.BitVecVal(1 << HAS_TAIL, 8), f0)
        o.f["data"] = q.new_obj("list", {"items": d})
        o.f["tail"] = tail
        q.assume(bcat(payload, tail) == s)
        q.assume(blen(payload) == z3.If(L > CHUNK, CHUNK, L))
        q.assume((blen(tail) > 0) == (L > CHUNK))
        q.mut += 1
        return [(q, None)]

    def check(self, ex, p0, res, tag):
        n = self.n
        s = p0.w["__s"]
        for p1, kind, val in res:
            if kind == "raise":
                ex.oblige(p1, "raises-nothing(%s)" % val[0], False, val[1])
                continue
            d1 = node_data(p1, n)
            t1 = to_z3(p1.obj(n).f["tail"])
            ex.oblige(p1, "payload-length", blen(to_z3(d1[0])) == z3.If(blen(s) > CHUNK, CHUNK, blen(s)), None)
            ex.oblige(p1, "flags-value", Wd._coerce(d1[1], BV8) == z3.If(blen(s) > CHUNK, node_data(p0, n)[1] | z3.BitVecVal(32, 8), node_data(p0, n)[1]), None)
            for nm, f in self.post([to_z3(x) for x in d1], t1, s):
                ex.oblige(p1, nm, f, None)
            f0, f1 = node_data(p0, n)[1], Wd._coerce(d1[1], BV8)
            for k in range(8):
                if k != HAS_TAIL:
                    ex.oblige(p1, "bit%d-unchanged" % k, bit(f1, k) == bit(f0, k), None)
            node_unchanged(ex, p1, p0, n, what=("block", "exists", "data"), skip_data=(0, 1))
            world_unchanged(ex, p1, p0)


# ---------------------------------------------------------------------------- read
def default_data():
    return [bytes_val(b""), z3.BitVecVal(DEFAULT_FLAGS, 8)] + [z3.IntVal(0)] * 7


class Read(Contract):
    qual = "LRUTrieNode.read"

    def setups(self, ex):
        for inv in (False, True):
            p, w, store = base_world(inv=inv)
            n = sym_node(p, store)
            b = fresh("block", INT)
            p.assume(AL(b))
            p.assume(b >= 128)
            p.w["__b"] = b
            self.n = n
            yield p, n, [b], {}, ("inv" if inv else "any")

    def check(self, ex, p0, res, tag):
        n = self.n
        b = p0.w["__b"]
        w = W(p0)
        size = p0.w["T.size"]
        for p1, kind, val in res:
            if kind == "raise":
                ex.oblige(p1, "raises-nothing(%s)" % val[0], False, val[1])
                continue
            o1 = p1.obj(n)
            d1 = [to_z3(x) for x in node_data(p1, n)]
            ex.oblige(p1, "exists<=>block-in-store", to_z3(o1.f["exists"]) == (b < size), None)
            for i, f in enumerate(FIELDS):
                ex.oblige(p1, "data[%s]==stored-field" % f, z3.Implies(b < size, Wd._coerce(d1[i], Wd.SORTS[i]) == w.f(f, b)), None)
                ex.oblige(p1, "data[%s]==default-when-missing" % f, z3.Implies(b >= size, Wd._coerce(d1[i], Wd.SORTS[i]) == default_data()[i]), None)
            blk = o1.f["block"]
            ex.oblige(p1, "block-set", z3.Implies(b < size, ex.opt_eq(blk, b, p1)), None)
            ex.oblige(p1, "block-kept-when-missing", z3.Implies(b >= size, ex.opt_eq(blk, p0.obj(n).f["block"], p1)), None)
            ex.oblige(p1, "tail-empty-when-missing", z3.Implies(b >= size, to_z3(o1.f["tail"]) == bytes_val(b"")), None)
            if tag == "inv":
                ex.oblige(p1, "tail==spelled-rest", z3.Implies(b < size, to_z3(o1.f["tail"]) == w.rest(b)), None)
            world_unchanged(ex, p1, p0)

    def apply(self, ex, p, recv, args, kw, ln):
        b = args[0] if args else kw.get("block")
        b = ex.unwrap(b, p, "node.read block", ln) if (isinstance(b, Opt) or b is None) else b
        bz = to_z3(b)
        ex.oblige(p, "node.read:block-aligned", AL(bz), ln, "pre")
        ex.oblige(p, "node.read:data-block", bz >= 128, ln, "pre")
        w = W(p)
        size = p.w["T.size"]
        out = []
        inv = has_clauses(p, I1(p))
        if not inv and invariant_context(p):
            # the caller works under the tail invariant but the world was rewritten since
            # it was last established: re-establish it here (obligations), then use it
            p = p.fork()
            for nm, f in I1(p):
                ex.oblige(p, "node.read:" + nm, f, ln, "pre")
            assume_all(p, I1(p))
            inv = True
        for q, c in ex.branch(p, bz < size):
            q = q.fork()
            o = q.obj(recv)
            if c:
                o.f["exists"] = True
                o.f["block"] = bz
                o.f["data"] = q.new_obj("list", {"items": [w.f(f, bz) for f in FIELDS]})
                o.f["tail"] = w.rest(bz) if inv else fresh("tail", BYTES)
            else:
                o.f["exists"] = False
                o.f["data"] = q.new_obj("list", {"items": [b"", DEFAULT_FLAGS] + [0] * 7})
                o.f["tail"] = b""
            q.mut += 1
            out.append((q, None))
        return out


def read_loop_inv(ex, p):
    w = W(p)
    blk = to_z3(p.env["block"])
    self_ = p.obj(p.env["self"])
    b0 = self_.f["block"]
    b0 = b0.val if isinstance(b0, Opt) else to_z3(b0)
    size = p.w["T.size"]
    cs = [
        ("cursor-aligned", AL(blk)),
        ("cursor-at-or-after-the-head", blk >= b0),
        ("cursor-block-exists", blk < size),
        ("cursor-block-has-a-tail", bit(w.f("flags", blk), HAS_TAIL)),
    ]
    if has_clauses(p, I1(p)):
        j = list_join(ex, p, p.env["chunks"])
        cs.append(("chunks-so-far++rest-of-cursor==rest-of-head", bcat(j, w.rest(blk)) == w.rest(b0)))
    return cs


def list_join(ex, p, ref):
    o = p.obj(ref)
    if "join" in o.f:
        return o.f["join"]
    items = [to_z3(x) for x in o.f["items"]]
    if not items:
        return bytes_val(b"")
    return bcat(*items) if len(items) > 1 else items[0]


def _append_join(ex, p, o, v):
    o.f["join"] = bcat(o.f["join"], to_z3(v))
    o.f["len"] = o.f["len"] + 1


def read_loop_havoc(ex, p):
    p.env["chunks"] = p.new_obj("list", {"len": fresh("nchunks", INT), "join": fresh("J", BYTES), "on_append": _append_join})
    p.env["block"] = fresh("cursor", INT)


# ---------------------------------------------------------------------------- write
class Write(Contract):
    """LRUTrieNode.write: in-place rewrite of an existing node, or append of a new
    node followed by its tail blocks (pointee order: head, then tails in order).
    Ghost: G.rest is extended for the appended blocks (head: the node's tail; each
    tail block: what remains after its chunk)."""

    qual = "LRUTrieNode.write"

    def pre_node(self, p, n):
        d = [to_z3(x) for x in node_data(p, n)]
        for c in Wd.in_range(d):
            p.assume(c)
        return d

    def setups(self, ex):
        # (1) existing node rewritten in place
        p, w, store = base_world(inv=True)
        n = sym_node(p, store)
        d = self.pre_node(p, n)
        o = p.obj(n)
        b = fresh("block", INT)
        o.f["block"] = b
        o.f["exists"] = True
        p.assume(w.blk(b))
        # stem and tail flag are those stored (write-once, F3): TS-W precondition
        p.assume(d[0] == w.f("stem", b))
        p.assume(bit(d[1], HAS_TAIL) == w.flag(b, HAS_TAIL))
        p.assume(bit(d[1], IS_TAIL) == w.flag(b, IS_TAIL))
        self.n = n
        p.w["__b"] = b
        yield p, n, [], {}, "existing"
        # (2) new node appended
        p, w, store = base_world(inv=True)
        n = sym_node(p, store)
        d = self.pre_node(p, n)
        o = p.obj(n)
        o.f["block"] = None
        o.f["exists"] = False
        t = to_z3(o.f["tail"])
        p.assume(p.w["T.size"] >= 128)
        p.assume(bit(d[1], HAS_TAIL) == (blen(t) > 0))
        p.assume(z3.Not(bit(d[1], IS_TAIL)))
        for k_ in list(p.w):
            p.w["old:" + k_] = p.w[k_]
        self.n = n
        yield p, n, [], {}, "new"

    def hook(self, ex, q, world, addr, raw, appended, ln):
        """ghost update at every append (see class docstring)"""
        if world != "T" or not appended:
            return
        flags = Wd._coerce(raw.fields[1], BV8)
        stem = raw.fields[0]
        prev = z3.Select(q.w["G.rest"], addr - 128)
        n = self.n
        is_tail = z3.simplify(bit(flags, IS_TAIL))
        t = to_z3(q.obj(n).f["tail"])
        idx = [k for k in q.env if k.startswith("__i")]
        if idx:
            # inside the chunk loop: block i+1 of the tail; what remains after it
            i = to_z3(q.env[idx[0]])
            val = z3.Extract(t, CHUNK * (i + 1), blen(t) - CHUNK * (i + 1))
        else:
            val = t
        q.w["G.rest"] = z3.Store(q.w["G.rest"], addr, val)

    def prepare(self, ex):
        ex.write_hooks = [self.hook]

    def check(self, ex, p0, res, tag):
        n = self.n
        w0 = W(p0)
        size0 = p0.w["T.size"]
        d0 = [to_z3(x) for x in node_data(p0, n)]
        t0 = to_z3(p0.obj(n).f["tail"])
        if tag == "new":
            tt, ii = fresh("t", BYTES), fresh("i", INT)
            ex.oblige(p0, "lemma:tail-split", tail_split_lemma(tt, ii), None)
        for p1, kind, val in res:
            if kind == "raise":
                ex.oblige(p1, "raises-nothing(%s)" % val[0], False, val[1])
                continue
            w1 = W(p1)
            o1 = p1.obj(n)
            a = z3.Int("a")
            ex.oblige(p1, "exists-after-write", to_z3(o1.f["exists"]) == z3.BoolVal(True), None)
            node_unchanged(ex, p1, p0, n, what=("tail", "data"))
            if tag == "existing":
                b = p0.w["__b"]
                ex.oblige(p1, "block-kept", ex.opt_eq(o1.f["block"], b, p1), None)
                ex.oblige(p1, "size-unchanged", p1.w["T.size"] == size0, None)
                for i, f in enumerate(FIELDS):
                    ex.oblige(p1, "stored[%s]==data" % f, w1.f(f, b) == Wd._coerce(d0[i], Wd.SORTS[i]), None)
                    ex.oblige(p1, "other-blocks[%s]-unchanged" % f, z3.ForAll([a], z3.Implies(a != b, w1.f(f, a) == w0.f(f, a))), None)
                ex.oblige(p1, "ghost-unchanged", p1.w["G.rest"] == p0.w["G.rest"], None)
            else:
                L = blen(t0)
                k = Wd.TB(L)
                ex.oblige(p1, "block==old-size", ex.opt_eq(o1.f["block"], size0, p1), None)
                ex.oblige(p1, "appended-1+ceil(len(tail)/74)-blocks", p1.w["T.size"] == size0 + 128 * (1 + k), None)
                for i, f in enumerate(FIELDS):
                    ex.oblige(p1, "head[%s]==data" % f, w1.f(f, size0) == Wd._coerce(d0[i], Wd.SORTS[i]), None)
                    ex.oblige(p1, "old-blocks[%s]-unchanged" % f, z3.ForAll([a], z3.Implies(a < size0, w1.f(f, a) == w0.f(f, a))), None)
                for nm, f in tails_after(w1, size0):
                    ex.oblige(p1, nm, f, None)
                ex.oblige(p1, "ghost-rest-of-head==tail", w1.rest(size0) == t0, None)
                ex.oblige(p1, "ghost-old-unchanged", z3.ForAll([a], z3.Implies(a < size0, w1.rest(a) == w0.rest(a))), None)
            for nm, f in I1(p1):
                ex.oblige(p1, "preserves:" + nm, f, None)
            for nm, f in Wd_fields_named(w1):
                ex.oblige(p1, "preserves:" + nm, f, None)

    def apply(self, ex, p, recv, args, kw, ln):
        """used by trie-level callers"""
        o = p.obj(recv)
        d = [Wd._coerce(x, srt) for x, srt in zip(node_data(p, recv), Wd.SORTS)]
        p = p.fork()
        Wd.assume_A1(p)
        for i, c in enumerate(Wd.in_range(d)):
            ex.oblige(p, "node.write:field-range/%d" % i, c, ln, "pre")
        w = W(p)
        blk = o.f["block"]
        out = []
        if isinstance(blk, Opt):
            branches = [(q, (None if c else blk.val)) for q, c in ex.branch(p, blk.none)]
        else:
            branches = [(p, blk)]
        for q, b in branches:
            q = q.fork()
            o = q.obj(recv)
            wq = W(q)
            if b is None:
                ex.oblige(q, "node.write:new-node-does-not-exist", znot(ex.truth(o.f["exists"], q)), ln, "pre")
                t = to_z3(o.f["tail"])
                ex.oblige(q, "node.write:tail-flag-matches-tail", bit(d[1], HAS_TAIL) == (blen(t) > 0), ln, "pre")
                ex.oblige(q, "node.write:not-a-tail-block", z3.Not(bit(d[1], IS_TAIL)), ln, "pre")
                ex.oblige(q, "node.write:store-has-a-header", q.w["T.size"] >= 128, ln, "pre")
                for nm, f in I1(q):
                    ex.oblige(q, "node.write:" + nm, f, ln, "pre")
                size0 = q.w["T.size"]
                old = dict(q.w)
                L = blen(t)
                k = Wd.TB(L)
                # The head block is stored at the old end.  The tail blocks land beyond
                # it, at addresses no premise speaks about (every clause is guarded by
                # a < size): they are modelled as already present in the arrays
                # ("prophecy"), and described by tails_after below.
                for i, (f, s) in enumerate(zip(FIELDS, Wd.SORTS)):
                    q.w["T." + f] = z3.Store(q.w["T." + f], size0, Wd._coerce(d[i], s))
                q.w["G.rest"] = z3.Store(q.w["G.rest"], size0, t)
                q.w["T.size"] = size0 + 128 * (1 + k)
                w1 = W(q)
                for nm, f in tails_after(w1, size0):
                    q.assume(f)
                q.assume(AL(q.w["T.size"]))
                assume_all(q, I1(q))
                o.f["block"] = size0
                o.f["exists"] = True
                q.mut += 1
                for h in getattr(ex, "node_write_hooks", []):
                    h(ex, q, recv, size0, True, old, ln)
                out.append((q, None))
            else:
                bz = to_z3(b)
                ex.oblige(q, "node.write:block-is-a-data-block", wq.blk(bz), ln, "pre")
                # write-once fields (F3): the RAM copy must agree with the store on
                # stem and tail flags, otherwise the rewrite corrupts the chain
                ex.oblige(q, "node.write:stem-unchanged", d[0] == wq.f("stem", bz), ln, "pre")
                ex.oblige(q, "node.write:tail-flags-unchanged", z3.And(bit(d[1], HAS_TAIL) == wq.flag(bz, HAS_TAIL), bit(d[1], IS_TAIL) == wq.flag(bz, IS_TAIL)), ln, "pre")
                old = dict(q.w)
                for i, (f, s) in enumerate(zip(FIELDS, Wd.SORTS)):
                    q.w["T." + f] = z3.Store(q.w["T." + f], bz, Wd._coerce(d[i], s))
                o.f["exists"] = True
                q.mut += 1
                for h in getattr(ex, "node_write_hooks", []):
                    h(ex, q, recv, bz, False, old, ln)
                out.append((q, None))
        return out


def tail_split_lemma(t, i):
    L = blen(t)
    m = z3.If(L - CHUNK * i < CHUNK, L - CHUNK * i, CHUNK)
    return z3.Implies(z3.And(i >= 0, CHUNK * i < L), z3.Extract(t, CHUNK * i, L - CHUNK * i) == bcat(z3.Extract(t, CHUNK * i, m), z3.Extract(t, CHUNK * (i + 1), L - CHUNK * (i + 1))))


def tails_after(w, head, name="new"):
    """every block after `head` is a tail block carrying nothing but its chunk"""
    a = z3.Int("a")
    rng = z3.And(w.blk(a), a > head)
    cs = [("%s-blocks-after-the-head-are-tails" % name, z3.ForAll([a], z3.Implies(rng, w.flag(a, IS_TAIL))))]
    for k in (PAGE, CRAWLED, RULE):
        cs.append(("%s-tail-blocks-bit%d-clear" % (name, k), z3.ForAll([a], z3.Implies(rng, z3.Not(w.flag(a, k))))))
    for f in ("we", "left", "right", "child", "parent", "outl", "inl"):
        cs.append(("%s-tail-blocks[%s]==0" % (name, f), z3.ForAll([a], z3.Implies(rng, w.f(f, a) == 0))))
    return cs


def Wd_fields_named(w):
    return [("codec-range/%d" % i, c) for i, c in enumerate(Wd.fields_in_range(w))]


def write_loop_inv(ex, p):
    """tail blocks written so far: chunk i sits at head+128(i+1); the ghost rest of the
    last written block is what is left of the tail; nothing below the head changed"""
    w = W(p)
    self_ = p.obj(p.env["self"])
    head = self_.f["block"]
    head = head.val if isinstance(head, Opt) else to_z3(head)
    t = to_z3(self_.f["tail"])
    d = [Wd._coerce(x, srt) for x, srt in zip(node_data(p, p.env["self"]), Wd.SORTS)]
    idx = [k for k in p.env if k.startswith("__i")]
    i = to_z3(p.env[idx[0]]) if idx else z3.IntVal(0)
    size = p.w["T.size"]
    L = blen(t)
    last = head + 128 * i
    a = z3.Int("a")
    old = Wd.Old({k[4:]: v for k, v in p.w.items() if k.startswith("old:")})
    cs = [
        ("size==head+128*(1+written)", size == head + 128 * (1 + i)),
        ("head==old-size", head == old.T_size),
        ("size-aligned", z3.And(AL(size), AL(last), AL(head), head >= 128)),
        ("rest-of-last-written==remaining-tail", w.rest(last) == z3.Extract(t, CHUNK * i, L - CHUNK * i)),
        ("last-written-expects-a-tail<=>chunks-remain", w.flag(last, HAS_TAIL) == (CHUNK * i < L)),
        ("ghost-rest-of-head==tail", w.rest(head) == t),
        ("ghost-old-unchanged", z3.ForAll([a], z3.Implies(a < head, w.rest(a) == old.rest(a)))),
    ]
    for k, f in enumerate(FIELDS):
        cs.append(("head[%s]==data" % f, w.f(f, head) == Wd._coerce(d[k], Wd.SORTS[k])))
        cs.append(("old-blocks[%s]-unchanged" % f, z3.ForAll([a], z3.Implies(a < head, w.f(f, a) == old.f(f, a)))))
    # lemma (discharged on its own in Write.check as `lemma:tail-split`): what remains of
    # the tail after i chunks is chunk i followed by what remains after i+1 chunks
    lem = tail_split_lemma(t, i)
    if not any(c.eq(lem) for c in p.pc):
        p.assume(lem)
    fl = w.f("flags", a)
    inv = I1(p)
    # I1a holds everywhere but at the frontier block while chunks remain
    cs.append(("I1a-except-frontier", z3.ForAll([a], z3.Implies(z3.And(w.blk(a), bit(fl, HAS_TAIL), a != last), a + 128 < size))))
    cs += inv[1:]
    cs += Wd_fields_named(w)
    cs += tails_after(w, head, "written")
    return cs


class WriteLoop(LoopSpec):
    pass


# ---------------------------------------------------------------------------- install
def contracts(lib=None):
    out = []
    for nm, spec in ACCESSORS.items():
        out.append(Accessor(nm, spec))
    for nm, b, v in (
        ("flag_as_page", PAGE, True),
        ("unflag_as_page", PAGE, False),
        ("flag_as_crawled", CRAWLED, True),
        ("unflag_as_crawled", CRAWLED, False),
        ("flag_as_webentity_creation_rule", RULE, True),
        ("unflag_as_webentity_creation_rule", RULE, False),
        ("flag_as_having_tail", HAS_TAIL, True),
        ("flag_can_have_child_webentities", NOCHILD, False),
    ):
        out.append(FlagSetter(nm, b, v))
    exc = "LRUTrieNodeUsageException"
    out += [
        FieldSetter("set_left", 3, True, exc),
        FieldSetter("set_right", 4, True, exc),
        FieldSetter("set_child", 5, True, exc),
        FieldSetter("set_parent", 6),
        FieldSetter("set_outlinks", 7),
        FieldSetter("set_inlinks", 8),
        FieldSetter("set_webentity", 2),
        FieldSetter("unset_webentity", 2, const=0),
        SetStem(),
        Read(),
        Write(),
    ]
    return out


def install(lib):
    Wd.install_store(lib)
    cs = contracts()
    lib.loop_spec("LRUTrieNode.read::while#0", LoopSpec(read_loop_inv, havoc=read_loop_havoc, locals_=("block",)))
    lib.loop_spec("LRUTrieNode.write::for#0", LoopSpec(write_loop_inv, world=("G.rest", "T.size") + tuple("T." + f for f in FIELDS)))
    return cs


GROUP = "node"
