"""
Contracts for the small functions of traph/traph.py and the trie header (DESIGN 4.2,
4.7): the id generator and the explicit prefix edits.  Each edit is verified against
add_lru's CONTRACT (not its body): the node it returns is Fresh and spells the LRU, the
world satisfies Inv, and - when add_lru was asked to - the parent of the node is
unmarked, which is what makes attaching a webentity preserve I9 (C13).

View of the properties at this level: the prefix map is  { path(a) -> T.we[a] : head a,
T.we[a] != 0 }.
"""
import z3

from pyvc.lib import Contract, LoopSpec
from pyvc.sym import bcat, blen, BOOL, BV8, BYTES, INT, DeadPath, Obj, Opt, Path, Ref, Unsupported, bytes_val, fresh, to_z3, zand, znot
from . import node as N
from . import trie as Tr
from . import world as Wd
from .trie import Inv, QL, QP, PRE, TW, base, is_fresh, node_blk, snapshot_old
from .world import FIELDS, NOCHILD, W, mk_store, mk_world


# ---------------------------------------------------------------------------- header
def mk_header(p, store, coherent=True):
    ver = p.w["T.hver"] if coherent else fresh("ver", BYTES)
    hid = p.w["T.hid"] if coherent else fresh("hid", INT)
    data = p.new_obj("list", {"items": [hid, ver]})
    return p.new_obj("LRUTrieHeader", {"storage": store, "data": data})


class HeaderInit(Contract):
    """LRUTrieHeader(storage): creates block 0 iff the store is empty, then holds a copy
    of block 0 (so a reopen continues from the persisted counter: C11, C12)"""

    qual = "LRUTrieHeader.__init__"

    def setups(self, ex):
        p = Path()
        w = mk_world(p)
        p.assume(z3.Or(p.w["T.size"] == 0, p.w["T.size"] >= 128))
        p.assume(z3.And(p.w["T.hid"] >= 0, p.w["T.hid"] < 2 ** 32))
        store = mk_store(p, "T")
        h = p.new_obj("LRUTrieHeader", {})
        snapshot_old(p)
        self.h = h
        yield p, h, [store], {}, "any"

    def check(self, ex, p0, res, tag):
        size0, hid0 = p0.w["T.size"], p0.w["T.hid"]
        for p1, kind, val in res:
            if kind == "raise":
                ex.oblige(p1, "raises-nothing(%s)" % val[0], False, val[1])
                continue
            d = p1.obj(p1.obj(self.h).f["data"]).f["items"]
            ex.oblige(p1, "empty-store:header-created-with-id-0", z3.Implies(size0 == 0, z3.And(p1.w["T.size"] == 128, p1.w["T.hid"] == 0)), None)
            ex.oblige(p1, "existing-store:nothing-written", z3.Implies(size0 >= 128, z3.And(p1.w["T.size"] == size0, p1.w["T.hid"] == hid0, p1.w["T.hver"] == p0.w["T.hver"])), None)
            ex.oblige(p1, "ram-copy==block-0", to_z3(d[0]) == p1.w["T.hid"], None)
            for f in FIELDS:
                ex.oblige(p1, "data-blocks[%s]-untouched" % f, p1.w["T." + f] == p0.w["T." + f], None)


class GenId(Contract):
    """Traph.__generated_web_entity_id: the persisted counter and the result are the old
    counter + 1 (block 0 is rewritten before returning)"""

    qual = "Traph.__generated_web_entity_id"

    def setups(self, ex):
        p = Path()
        w = mk_world(p)
        p.assume(p.w["T.size"] >= 128)
        # fewer than 2**32 - 1 creations (stated precondition of C12)
        p.assume(z3.And(p.w["T.hid"] >= 0, p.w["T.hid"] < 2 ** 32 - 1))
        store = mk_store(p, "T")
        h = mk_header(p, store)
        trie = p.new_obj("LRUTrie", {"storage": store, "header": h, "encoding": "utf-8"})
        t = p.new_obj("Traph", {"lru_trie": trie, "encoding": "utf-8"})
        snapshot_old(p)
        self.h = h
        yield p, t, [], {}, "any"

    def check(self, ex, p0, res, tag):
        hid0 = p0.w["T.hid"]
        for p1, kind, val in res:
            if kind == "raise":
                ex.oblige(p1, "raises-nothing(%s)" % val[0], False, val[1])
                continue
            ex.oblige(p1, "result==old-counter+1", to_z3(val) == hid0 + 1, None)
            ex.oblige(p1, "persisted-counter==result", p1.w["T.hid"] == hid0 + 1, None)
            d = p1.obj(p1.obj(self.h).f["data"]).f["items"]
            ex.oblige(p1, "ram-copy==block-0", to_z3(d[0]) == p1.w["T.hid"], None)
            ex.oblige(p1, "size-unchanged", p1.w["T.size"] == p0.w["T.size"], None)
            for f in FIELDS:
                ex.oblige(p1, "data-blocks[%s]-untouched" % f, p1.w["T." + f] == p0.w["T." + f], None)


# ---------------------------------------------------------------------------- prefix edits
def mk_traph(p, trie):
    return p.new_obj("Traph", {"lru_trie": trie, "encoding": "utf-8"})


def others_we_unchanged(p1, rb, ref="mid:"):
    """the webentity field of every block but rb is what add_lru left"""
    mid = TW(type("P", (), {"w": {k[len(ref):]: v for k, v in p1.w.items() if k.startswith(ref)}})())
    w1 = TW(p1)
    a = z3.Int("a")
    cs = [("prefix-map:every-other-prefix-unchanged", z3.ForAll([a], z3.Implies(a != rb, w1.f("we", a) == mid.f("we", a))))]
    for f in FIELDS:
        if f != "we":
            cs.append(("edit-touches-only-the-webentity-field[%s]" % f, p1.w["T." + f] == mid.p.w["T." + f]))
    cs.append(("edit-allocates-nothing-beyond-add_lru", p1.w["T.size"] == mid.p.w["T.size"]))
    return cs, mid


class AddPrefix(Contract):
    qual = "Traph.add_prefix_to_webentity"

    def prepare(self, ex):
        ex.node_write_hooks = [Tr.ghost_on_node_write]

    def setups(self, ex):
        p, w, store, trie = base()
        t = mk_traph(p, trie)
        lru = fresh("prefix", BYTES)
        p.assume(lru == PRE(QL))
        p.assume(QL >= 1)
        weid = fresh("weid", INT)
        p.assume(z3.And(weid >= 1, weid < 2 ** 32))
        p.w["__weid"] = weid
        snapshot_old(p)
        yield p, t, [lru, weid], {}, "any"

    def check(self, ex, p0, res, tag):
        weid = p0.w["__weid"]
        for p1, kind, val in res:
            Tr.simp_world(p1)
            w1 = TW(p1)
            mid = TW(type("P", (), {"w": {k[4:]: v for k, v in p1.w.items() if k.startswith("mid:")}})())
            target = z3.Select(p1.w["G.addr"], QP(QL))
            if kind == "raise":
                if val[0] != "TraphException":
                    ex.oblige(p1, "raises-only-the-library's-error(%s)" % val[0], False, val[1])
                    continue
                ex.oblige(p1, "refused=>prefix-already-attached", z3.And(w1.head(target), w1.f("we", target) != 0), val[1])
                ex.oblige(p1, "refused=>no-webentity-written", p1.w["T.we"] == mid.p.w["T.we"], val[1])
            else:
                ex.oblige(p1, "returns-True", to_z3(ex.truth(val, p1)), None)
                ex.oblige(p1, "attached", z3.And(w1.head(target), w1.path(target) == QP(QL), w1.f("we", target) == weid), None)
                ex.oblige(p1, "was-unattached", mid.f("we", target) == 0, None)
                cs, _ = others_we_unchanged(p1, target)
                for nm, f in cs:
                    ex.oblige(p1, nm, f, None)
            for nm, f in Inv(p1):
                ex.oblige(p1, "preserves:" + nm, f, None)


class RemovePrefix(Contract):
    qual = "Traph.remove_prefix_from_webentity"

    def prepare(self, ex):
        ex.node_write_hooks = [Tr.ghost_on_node_write]

    def setups(self, ex):
        for mode in ("checked", "unchecked"):
            p, w, store, trie = base()
            t = mk_traph(p, trie)
            lru = fresh("prefix", BYTES)
            p.assume(lru == PRE(QL))
            p.assume(QL >= 1)
            snapshot_old(p)
            if mode == "checked":
                weid = fresh("weid", INT)
                p.assume(z3.And(weid >= 1, weid < 2 ** 32))
                p.w["__weid"] = weid
                yield p, t, [lru, weid], {}, mode
            else:
                yield p, t, [lru], {}, mode

    def check(self, ex, p0, res, mode):
        for p1, kind, val in res:
            Tr.simp_world(p1)
            w1 = TW(p1)
            mid = TW(type("P", (), {"w": {k[4:]: v for k, v in p1.w.items() if k.startswith("mid:")}})())
            target = z3.Select(p1.w["G.addr"], QP(QL))
            if kind == "raise":
                if val[0] != "TraphException" or mode == "unchecked":
                    ex.oblige(p1, "raises-only-the-library's-error-and-only-when-checking(%s)" % val[0], False, val[1])
                    continue
                ex.oblige(p1, "refused=>attached-to-another-webentity-or-none", w1.f("we", target) != p0.w["__weid"], val[1])
                ex.oblige(p1, "refused=>no-webentity-written", p1.w["T.we"] == mid.p.w["T.we"], val[1])
            else:
                ex.oblige(p1, "detached", z3.And(w1.head(target), w1.f("we", target) == 0), None)
                if mode == "checked":
                    ex.oblige(p1, "accepted=>was-attached-to-that-webentity", mid.f("we", target) == p0.w["__weid"], None)
                cs, _ = others_we_unchanged(p1, target)
                for nm, f in cs:
                    ex.oblige(p1, nm, f, None)
            for nm, f in Inv(p1):
                ex.oblige(p1, "preserves:" + nm, f, None)


class MovePrefix(Contract):
    """move = remove (source checked or not) then add: afterwards the prefix belongs to
    the target webentity and the pruning marks above it are cleared (I9)"""

    qual = "Traph.move_prefix_to_webentity"

    def prepare(self, ex):
        ex.node_write_hooks = [Tr.ghost_on_node_write]

    def setups(self, ex):
        p, w, store, trie = base()
        t = mk_traph(p, trie)
        lru = fresh("prefix", BYTES)
        p.assume(lru == PRE(QL))
        p.assume(QL >= 1)
        wt = fresh("weid_target", INT)
        p.assume(z3.And(wt >= 1, wt < 2 ** 32))
        p.w["__wt"] = wt
        snapshot_old(p)
        yield p, t, [lru, wt], {}, "unchecked-source"

    def check(self, ex, p0, res, mode):
        wt = p0.w["__wt"]
        for p1, kind, val in res:
            Tr.simp_world(p1)
            w1 = TW(p1)
            target = z3.Select(p1.w["G.addr"], QP(QL))
            if kind == "raise":
                ex.oblige(p1, "raises-nothing-when-the-source-is-not-checked(%s)" % val[0], False, val[1])
                continue
            ex.oblige(p1, "attached-to-the-target-webentity", z3.And(w1.head(target), w1.path(target) == QP(QL), w1.f("we", target) == wt), None)
            for nm, f in Inv(p1):
                ex.oblige(p1, "preserves:" + nm, f, None)


def install(lib):
    return [HeaderInit(), GenId(), AddPrefix(), RemovePrefix(), MovePrefix()]


GROUP = "facade"


# ---------------------------------------------------------------------------- resolution (C04)
class Retrieve(Contract):
    """retrieve_webentity / retrieve_prefix: with k the number of stem levels of the LRU
    that are stored (follow_lru's contract), the answer is the webentity (resp. the
    bytes) of the deepest of those k stem-prefixes that carries one, and the library's
    own error is raised iff none of them does.  Nothing is written."""

    def __init__(self, name):
        self.qual = "Traph." + name
        self.name = name

    def setups(self, ex):
        p, w, store, trie = base()
        for ax in Tr.deep_axioms(p):
            p.assume(ax)
        t = mk_traph(p, trie)
        lru = fresh("lru", BYTES)
        p.assume(lru == PRE(QL))
        snapshot_old(p)
        yield p, t, [lru], {}, "any"

    def check(self, ex, p0, res, tag):
        for p1, kind, val in res:
            k = p1.w.get("__follow_k")
            if k is None:
                ex.oblige(p1, "goes-through-follow_lru", False, None)
                continue
            w = TW(p1)
            d = Tr.DEEP(k)
            if kind == "raise":
                if val[0] != "TraphException":
                    ex.oblige(p1, "raises-only-the-library's-error(%s)" % val[0], False, val[1])
                    continue
                ex.oblige(p1, "fails=>no-stored-stem-prefix-carries-a-webentity", d == -1, val[1])
            else:
                ex.oblige(p1, "answers=>some-stored-stem-prefix-carries-a-webentity", d >= 0, None)
                if self.name == "retrieve_webentity":
                    ex.oblige(p1, "answer==webentity-of-the-deepest-such-prefix", Tr.enc_we(val) == w.f("we", Tr.wn(p1, d)), None)
                else:
                    ex.oblige(p1, "answer==bytes-of-the-deepest-such-prefix", to_z3(val) == PRE(d + 1), None)
            for k_ in Tr.TKEYS:
                if not p1.w[k_].eq(p0.w[k_]):
                    ex.oblige(p1, "store-unchanged[%s]" % k_, p1.w[k_] == p0.w[k_], None)


_install_f0 = install


def install(lib):
    return _install_f0(lib) + [Retrieve("retrieve_webentity"), Retrieve("retrieve_prefix")]
