#!/bin/bash
# usage: tools/importseed.sh <worktree> <prop> <seed name>
# re-validates a sub-agent's change in ITS OWN worktree (tests pass with it, demo fails with it and passes without),
# then copies it to /verif/seeded/<seed name>/
set -u
wt=$1; prop=$2; name=$3; src=$wt/out/$prop
[ -f $src/patch.diff ] || { echo "no patch"; exit 9; }
cd $wt && git checkout -q -- . && git apply --check $src/patch.diff || { echo "patch does not apply"; exit 9; }
PYTHONPATH=$wt /venv/bin/python $src/demo.py > /tmp/imp_clean.log 2>&1; c0=$?
git apply $src/patch.diff
PYTHONPATH=$wt /venv/bin/python $src/demo.py > /tmp/imp_mut.log 2>&1; c1=$?
/venv/bin/python -m pytest -q -p no:cacheprovider --timeout=900 > /tmp/imp_tests.log 2>&1; ct=$?
git checkout -q -- .
echo "$name: demo clean=$c0 changed=$c1 tests=$ct ($(tail -1 /tmp/imp_tests.log))"
if [ $c0 -eq 0 ] && [ $c1 -ne 0 ] && [ $ct -eq 0 ]; then
  mkdir -p /verif/seeded/$name && cp $src/patch.diff $src/demo.py /verif/seeded/$name/ && cp $src/note.txt /verif/seeded/$name/note.txt 2>/dev/null
  echo "imported"
else
  echo "REJECTED"; tail -5 /tmp/imp_mut.log
fi
