"""
PRE-STUB: call-site precondition of the link-list walks (contracts/link.py):
`weighted_link_nodes_iter(b)`, `deduped_link_nodes_iter(b)`, `link_nodes_iter(b)` require b
to be a stub address, i.e. a non-zero list head.  In traph.py a list head is obtained
from node.outlinks() / node.inlinks() / node.links(out=..); the obligation at every
call site is that the call is dominated by the matching has_outlinks() / has_inlinks() /
has_links(..) test on the same node (directly, through an early `continue`, or at the
point where the pointer was put into the list being iterated).
Syntax-directed, all paths; one named obligation per call site.
"""
import ast

WALKS = {"weighted_link_nodes_iter", "deduped_link_nodes_iter", "link_nodes_iter"}
GETTERS = {"outlinks": "out", "inlinks": "in", "links": "param"}
TESTS = {"has_outlinks": "out", "has_inlinks": "in", "has_links": "param", "links": "param"}


def _facts_of(cond, positive=True):
    """facts established when cond is True (positive) / False (not positive)"""
    out = set()
    if isinstance(cond, ast.BoolOp):
        if (isinstance(cond.op, ast.And) and positive) or (isinstance(cond.op, ast.Or) and not positive):
            for v in cond.values:
                out |= _facts_of(v, positive)
        return out
    if isinstance(cond, ast.UnaryOp) and isinstance(cond.op, ast.Not):
        return _facts_of(cond.operand, not positive)
    if positive and isinstance(cond, ast.Call) and isinstance(cond.func, ast.Attribute) and cond.func.attr in TESTS and isinstance(cond.func.value, ast.Name):
        out.add((cond.func.value.id, TESTS[cond.func.attr]))
    return out


def _ends_block(body):
    return bool(body) and isinstance(body[-1], (ast.Continue, ast.Return, ast.Raise, ast.Break))


class PreStub(object):
    def __init__(self, program):
        self.program = program
        self.obs = []

    def check(self, cname="Traph"):
        cls = self.program.classes[cname][1]
        for f in cls.body:
            if isinstance(f, ast.FunctionDef):
                self.q = "%s.%s" % (cname, f.name)
                self.fn = f
                self.guarded_lists = self.lists_filled_under_guard(f)
                self.block(f.body, set(), {})
        return self.obs

    def lists_filled_under_guard(self, f):
        """names of lists whose every append of a links pointer happens under the test"""
        ok = {}

        def rec(stmts, facts):
            for s in stmts:
                if isinstance(s, ast.If):
                    rec(s.body, facts | _facts_of(s.test, True))
                    rec(s.orelse, facts | _facts_of(s.test, False))
                    if _ends_block(s.body):
                        facts = facts | _facts_of(s.test, False)
                elif isinstance(s, (ast.For, ast.While)):
                    rec(s.body, set(facts))
                elif isinstance(s, ast.Expr) and isinstance(s.value, ast.Call) and isinstance(s.value.func, ast.Attribute) and s.value.func.attr == "append" and isinstance(s.value.func.value, ast.Name):
                    lst = s.value.func.value.id
                    for n in ast.walk(s.value):
                        if isinstance(n, ast.Call) and isinstance(n.func, ast.Attribute) and n.func.attr in GETTERS and isinstance(n.func.value, ast.Name):
                            good = (n.func.value.id, GETTERS[n.func.attr]) in facts
                            ok[lst] = ok.get(lst, True) and good

        rec(f.body, set())
        return set(k for k, v in ok.items() if v)

    def block(self, stmts, facts, defs):
        facts = set(facts)
        defs = dict(defs)
        for s in stmts:
            if isinstance(s, ast.If):
                self.scan(s.test, facts, defs)
                self.block(s.body, facts | _facts_of(s.test, True), defs)
                self.block(s.orelse, facts | _facts_of(s.test, False), defs)
                if _ends_block(s.body):
                    facts |= _facts_of(s.test, False)
            elif isinstance(s, ast.For):
                d2 = dict(defs)
                # for a, b in <guarded list>: the pointer component is a stub
                if isinstance(s.iter, ast.Name) and s.iter.id in self.guarded_lists:
                    for n in ast.walk(s.target):
                        if isinstance(n, ast.Name):
                            d2[n.id] = ("@guarded-list", s.iter.id)
                self.scan(s.iter, facts, defs)
                self.block(s.body, facts, d2)
            elif isinstance(s, ast.While):
                self.scan(s.test, facts, defs)
                self.block(s.body, facts, defs)
            elif isinstance(s, ast.Assign):
                self.scan(s.value, facts, defs)
                v = s.value
                if isinstance(v, ast.Call) and isinstance(v.func, ast.Attribute) and v.func.attr in GETTERS and isinstance(v.func.value, ast.Name):
                    for t in s.targets:
                        if isinstance(t, ast.Name):
                            defs[t.id] = (v.func.value.id, GETTERS[v.func.attr])
                else:
                    for t in s.targets:
                        if isinstance(t, ast.Name):
                            defs.pop(t.id, None)
            elif isinstance(s, ast.Try):
                self.block(s.body, facts, defs)
            else:
                for n in ast.iter_child_nodes(s):
                    if isinstance(n, ast.expr):
                        self.scan(n, facts, defs)

    def scan(self, e, facts, defs):
        for n in ast.walk(e):
            if isinstance(n, ast.Call) and isinstance(n.func, ast.Attribute) and n.func.attr in WALKS and n.args:
                a = n.args[0]
                ok = False
                why = "the list head may be 0 here: no has_outlinks()/has_inlinks()/has_links() test on the same node dominates the walk"
                src = None
                if isinstance(a, ast.Name):
                    src = defs.get(a.id)
                elif isinstance(a, ast.Call) and isinstance(a.func, ast.Attribute) and a.func.attr in GETTERS and isinstance(a.func.value, ast.Name):
                    src = (a.func.value.id, GETTERS[a.func.attr])
                if src is not None:
                    if src[0] == "@guarded-list":
                        ok = True
                    elif src in facts:
                        ok = True
                else:
                    why = "cannot tell where the list head comes from"
                self.obs.append({"id": "PRE-STUB(%s %s(%s))" % (self.q, n.func.attr, ast.unparse(a)), "ok": ok, "detail": None if ok else why})
