"""
pyvc.smt — discharge of proof obligations (encoding decision E3).

stage 0  obligation without quantifiers: one query; unsat = proved, sat = refuted
         (a genuine counter-model of the verification condition).
stage 1  quantified premises are replaced by their ground instances over a term pool
         harvested from the obligation; unsat = proved (fewer premises); sat = nothing.
stage 2  full query with quantifiers (z3 e-matching + MBQI): unsat = proved, sat =
         refuted, unknown = undecided.
"""
import itertools
import time

import z3

from .sym import BYTES, INT, ORD, _has_quant


def flatten_and(f):
    if z3.is_and(f):
        out = []
        for c in f.children():
            out += flatten_and(c)
        return out
    return [f]


def split_goal(goal):
    """one conjunct per query; universally quantified goals are skolemised"""
    goals = []
    for g in flatten_and(goal):
        if z3.is_quantifier(g) and g.is_forall():
            vs = [z3.FreshConst(g.var_sort(i), "sk_" + g.var_name(i)) for i in range(g.num_vars())]
            body = z3.substitute_vars(g.body(), *reversed(vs))
            goals += split_goal(body)
        elif z3.is_implies(g) and (z3.is_and(g.arg(1)) or (z3.is_quantifier(g.arg(1)) and g.arg(1).is_forall())):
            for sub in split_goal(g.arg(1)):
                goals.append(z3.Implies(g.arg(0), sub))
        else:
            goals.append(g)
    return goals


def _subterms(fs):
    seen = {}
    stack = list(fs)
    while stack:
        x = stack.pop()
        i = x.get_id()
        if i in seen:
            continue
        seen[i] = x
        if z3.is_quantifier(x):
            continue
        stack.extend(x.children())
    return seen.values()


class Info(object):
    __slots__ = ("f", "syms", "ints", "strs", "seq", "terms", "quant")


_INFO = {}
_SEQ_OPS = None


def info(f):
    """per-formula facts, computed once (formulas are shared by many obligations)"""
    i = f.get_id()
    r = _INFO.get(i)
    if r is not None:
        return r
    global _SEQ_OPS
    if _SEQ_OPS is None:
        _SEQ_OPS = (z3.Z3_OP_SEQ_EXTRACT, z3.Z3_OP_SEQ_CONCAT, z3.Z3_OP_SEQ_CONTAINS, z3.Z3_OP_SEQ_PREFIX, z3.Z3_OP_SEQ_REPLACE, z3.Z3_OP_SEQ_AT, z3.Z3_OP_SEQ_INDEX)
    r = Info()
    r.f = f
    r.syms = set()
    r.ints = {}
    r.strs = {}
    r.seq = False
    r.terms = {}  # ground ext(...) / ord(...) applications, for TERM_AXIOMS
    r.quant = False
    seen = set()
    stack = [(f, False)]
    while stack:
        t, inq = stack.pop()
        tid = t.get_id()
        if (tid, inq) in seen:
            continue
        seen.add((tid, inq))
        if z3.is_quantifier(t):
            r.quant = True
            stack.append((t.body(), True))
            continue
        if not z3.is_app(t):
            continue
        d = t.decl()
        k = d.kind()
        ch = t.children()
        if k == z3.Z3_OP_UNINTERPRETED:
            r.syms.add(d.name())
            if not ch and d.name().startswith("lit_"):
                r.terms[tid] = t
        if k in _SEQ_OPS:
            r.seq = True
        if not inq:
            if k in (z3.Z3_OP_SELECT, z3.Z3_OP_STORE):
                idx = ch[1]
                if idx.sort() == INT:
                    r.ints[idx.get_id()] = idx
            elif k == z3.Z3_OP_UNINTERPRETED and ch:
                for a in ch:
                    if a.sort() == INT:
                        r.ints[a.get_id()] = a
                nm = d.name()
                if nm in TERM_FUNCS:
                    r.terms[tid] = t
                if nm in INDEX_FUNCS and t.sort() == INT:
                    r.ints[tid] = t
            if t.sort() == BYTES and k in (z3.Z3_OP_UNINTERPRETED, z3.Z3_OP_SELECT, z3.Z3_OP_SEQ_CONCAT, z3.Z3_OP_SEQ_EXTRACT):
                r.strs[tid] = t
        for c in ch:
            stack.append((c, inq))
    _INFO[i] = r
    return r


def union_info(fs):
    syms = set()
    ints = {}
    strs = {}
    terms = {}
    seq = False
    for f in fs:
        r = info(f)
        ints.update(r.ints)
        strs.update(r.strs)
        terms.update(r.terms)
        seq = seq or r.seq
    return ints, strs, terms, seq


def harvest(fs):
    ints, strs, terms, seq = union_info(fs)
    return list(ints.values()), list(strs.values())


def harvest_old(fs):
    """index terms of array reads / uninterpreted applications of sort Int, and all
    String-sorted ground terms"""
    ints = {}
    strs = {}
    for t in _subterms(fs):
        if z3.is_quantifier(t) or not z3.is_app(t):
            continue
        k = t.decl().kind()
        if k in (z3.Z3_OP_SELECT, z3.Z3_OP_STORE):
            idx = t.arg(1)
            if idx.sort() == INT and not _has_var(idx):
                ints[idx.get_id()] = idx
        elif k == z3.Z3_OP_UNINTERPRETED and t.num_args() > 0:
            for a in t.children():
                if a.sort() == INT and not _has_var(a):
                    ints[a.get_id()] = a
        if t.sort() == BYTES and not _has_var(t) and k in (z3.Z3_OP_UNINTERPRETED, z3.Z3_OP_SELECT, z3.Z3_OP_SEQ_CONCAT, z3.Z3_OP_SEQ_EXTRACT) :
            strs[t.get_id()] = t
    return list(ints.values()), list(strs.values())


def _has_var(t):
    for s in _subterms([t]):
        if z3.is_var(s):
            return True
    return False


_INST_CACHE = {}


def instantiate(qs, ints, strs, cap=6000):
    out = []
    for q in qs:
        n = q.num_vars()
        pools = []
        for j in range(n):
            s = q.var_sort(j)
            pools.append(ints if s == INT else (strs if s == BYTES else []))
        total = 1
        for pl in pools:
            total *= max(1, len(pl))
        if any(len(pl) == 0 for pl in pools) or total > cap:
            continue
        qid = q.get_id()
        body = None
        for tup in itertools.product(*pools):
            key = (qid,) + tuple(t.get_id() for t in tup)
            r = _INST_CACHE.get(key)
            if r is None:
                if body is None:
                    body = q.body()
                r = z3.substitute_vars(body, *reversed(tup))
                _INST_CACHE[key] = r
            out.append(r)
    return out


# ---------------------------------------------------------------------------- trigger-driven instantiation
_TRIG = {}
_E_FAILS = {}
USE_TRIGGER_STAGE = False


def _peel(arr, out):
    """array terms reachable through store / ite chains"""
    stack = [arr]
    while stack:
        a = stack.pop()
        i = a.get_id()
        if i in out:
            continue
        out[i] = a
        if z3.is_app(a):
            k = a.decl().kind()
            if k == z3.Z3_OP_STORE:
                stack.append(a.arg(0))
            elif k == z3.Z3_OP_ITE:
                stack.append(a.arg(1))
                stack.append(a.arg(2))


def _offset(idx, nvars):
    """idx = var_j + c  ->  (j, c) ; var_j -> (j, 0) ; else None"""
    if z3.is_var(idx):
        return z3.get_var_index(idx), 0
    if z3.is_app(idx) and idx.decl().kind() == z3.Z3_OP_ADD and idx.num_args() == 2:
        a, b = idx.arg(0), idx.arg(1)
        if z3.is_var(a) and z3.is_int_value(b):
            return z3.get_var_index(a), b.as_long()
        if z3.is_var(b) and z3.is_int_value(a):
            return z3.get_var_index(b), a.as_long()
    if z3.is_app(idx) and idx.decl().kind() == z3.Z3_OP_SUB and idx.num_args() == 2:
        a, b = idx.arg(0), idx.arg(1)
        if z3.is_var(a) and z3.is_int_value(b):
            return z3.get_var_index(a), -b.as_long()
    return None


def triggers(q):
    """per bound variable: [(key, offset)] where key identifies an array term or an
    uninterpreted function applied to (variable + offset)"""
    r = _TRIG.get(q.get_id())
    if r is not None:
        return r[0]
    n = q.num_vars()
    trig = [set() for _ in range(n)]
    seen = set()
    stack = [q.body()]
    while stack:
        t = stack.pop()
        if t.get_id() in seen:
            continue
        seen.add(t.get_id())
        if not z3.is_app(t):
            continue
        k = t.decl().kind()
        ch = t.children()
        if k == z3.Z3_OP_SELECT:
            off = _offset(ch[1], n)
            if off is not None:
                arrs = {}
                _peel(ch[0], arrs)
                for aid, a in arrs.items():
                    if not _has_var(a):
                        trig[n - 1 - off[0]].add((("arr", aid), off[1]))
        elif k == z3.Z3_OP_UNINTERPRETED and ch:
            for pos, a in enumerate(ch):
                off = _offset(a, n) if a.sort() == INT else None
                if off is not None:
                    trig[n - 1 - off[0]].add((("fn", t.decl().name(), pos), off[1]))
        stack.extend(ch)
    _TRIG[q.get_id()] = (trig, q)
    return trig


_OCC = {}


def occurrences(f):
    """ground formula -> {key: {term id: term}} for select indices / function args"""
    r = _OCC.get(f.get_id())
    if r is not None:
        return r[0]
    occ = {}
    seen = set()
    stack = [f]
    while stack:
        t = stack.pop()
        if t.get_id() in seen:
            continue
        seen.add(t.get_id())
        if z3.is_quantifier(t) or not z3.is_app(t):
            continue
        k = t.decl().kind()
        ch = t.children()
        if k == z3.Z3_OP_SELECT and ch[1].sort() == INT:
            arrs = {}
            _peel(ch[0], arrs)
            for aid in arrs:
                occ.setdefault(("arr", aid), {})[ch[1].get_id()] = ch[1]
        elif k == z3.Z3_OP_UNINTERPRETED and ch:
            for pos, a in enumerate(ch):
                if a.sort() == INT:
                    occ.setdefault(("fn", t.decl().name(), pos), {})[a.get_id()] = a
        stack.extend(ch)
    _OCC[f.get_id()] = (occ, f)
    return occ


def trigger_instantiate(quant, ground, rounds=2, cap=1500, per_clause=64):
    occ = {}

    def absorb(fs):
        for f in fs:
            for k, d in occurrences(f).items():
                occ.setdefault(k, {}).update(d)

    absorb(ground)
    done = set()
    out = []
    frontier = list(ground)
    for rnd in range(rounds):
        new = []
        for q in quant:
            trig = triggers(q)
            n = q.num_vars()
            if any(q.var_sort(j) != INT for j in range(n)):
                continue
            cands = []
            ok = True
            for j in range(n):
                c = {}
                for key, off in trig[j]:
                    for tid, t in occ.get(key, {}).items():
                        tt = t if off == 0 else z3.simplify(t - off)
                        c[tt.get_id()] = tt
                if not c:
                    ok = False
                    break
                cands.append(list(c.values()))
            if not ok:
                continue
            total = 1
            for c in cands:
                total *= len(c)
            if total > per_clause:
                # keep the terms of the obligation itself (first round) in priority
                cands = [c[: max(1, int(per_clause ** (1.0 / n)))] for c in cands]
            qid = q.get_id()
            body = None
            for tup in itertools.product(*cands):
                key = (qid,) + tuple(t.get_id() for t in tup)
                if key in done:
                    continue
                done.add(key)
                r = _INST_CACHE.get(key)
                if r is None:
                    if body is None:
                        body = q.body()
                    r = z3.substitute_vars(body, *reversed(tup))
                    _INST_CACHE[key] = r
                new.append(r)
                if len(out) + len(new) >= cap:
                    break
            if len(out) + len(new) >= cap:
                break
        if not new:
            break
        out += new
        absorb(new)
        if len(out) >= cap:
            break
    return out


def ord_axioms(strs, formulas):
    uses_ord = any("ord" in info(f).syms for f in formulas)
    if not uses_ord:
        return []
    out = []
    for a, b in itertools.combinations(strs, 2):
        out.append(z3.Implies(ORD(a) == ORD(b), a == b))
    return out


CVC5 = "/usr/bin/cvc5"


def cvc5_check(fs, timeout_ms, want_model=False):
    """second back end (takes z3's unknowns on sequence-heavy queries)"""
    import os
    import subprocess
    import tempfile

    s = z3.Solver()
    s.add(fs)
    text = "(set-logic ALL)\n" + s.to_smt2()
    if want_model:
        text = "(set-option :produce-models true)\n" + text + "\n(get-model)\n"
    fd, path = tempfile.mkstemp(suffix=".smt2", prefix="pyvc_")
    t = time.time()
    try:
        with os.fdopen(fd, "w") as f:
            f.write(text)
        cmd = [CVC5, "--strings-exp", "--tlimit=%d" % int(timeout_ms)]
        if want_model:
            cmd.append("--strings-fmf")
        try:
            out = subprocess.run(cmd + [path], capture_output=True, text=True, timeout=timeout_ms / 1000.0 + 5).stdout
        except subprocess.TimeoutExpired:
            return "unknown", "", time.time() - t
    finally:
        try:
            os.unlink(path)
        except OSError:
            pass
    first = out.strip().split("\n")[0] if out.strip() else "unknown"
    if first not in ("sat", "unsat"):
        first = "unknown"
    return first, out[:4000], time.time() - t


def uses_seq(fs):
    return any(info(f).seq for f in fs)


def check(fs, timeout_ms, **opts):
    s = z3.Solver()
    s.set("timeout", int(timeout_ms))
    for k, v in opts.items():
        s.set(k, v)
    s.add(fs)
    t = time.time()
    r = s.check()
    dt = time.time() - t
    return r, s, dt


TERM_FUNCS = {"ext", "ord", "cat", "blen"}  # applications of these are collected for TERM_AXIOMS
INDEX_FUNCS = {"DEEP"}  # integer-valued spec functions whose values are used as indices
TERM_AXIOMS = []  # callables: iterable of ground subterms -> list of facts (theory lemmas on demand)


def symbols(f):
    return info(f).syms


GLOBAL_SYMBOLS = {"AL", "AL16", "ord", "NEG", "POS", "ext", "parentp", "lastk", "ROOTP", "cat", "blen"}


def _abstract_bytes_axioms(terms):
    """laws of the abstract byte-string sort, instantiated on the terms present"""
    from .sym import ABSTRACT_BYTES, BLEN, CAT

    out = []
    lits = []
    for t in terms:
        nm = t.decl().name()
        if nm == "cat":
            a, b = t.arg(0), t.arg(1)
            out.append(BLEN(t) == BLEN(a) + BLEN(b))
            # associativity, on demand: a ++ (b ++ c) = (a ++ b) ++ c
            if z3.is_app(b) and b.decl().name() == "cat":
                out.append(t == CAT(CAT(a, b.arg(0)), b.arg(1)))
            out.append(BLEN(a) >= 0)
            out.append(BLEN(b) >= 0)
            empty = z3.Const("lit_", a.sort())
            out.append(z3.Implies(a == empty, t == b))
            out.append(z3.Implies(b == empty, t == a))
        elif nm == "blen":
            out.append(t >= 0)
        elif nm.startswith("lit_"):
            lits.append(t)
            out.append(BLEN(t) == len(nm[4:]) // 2)
    for a, b in itertools.combinations(lits, 2):
        out.append(a != b)
    return out


def cone(prem, goal):
    """premises connected to the goal through shared uninterpreted symbols
    (dropping the others only removes premises: sound for proofs)"""
    full = [symbols(c) for c in prem]
    syms = [sy - GLOBAL_SYMBOLS for sy in full]
    if not (symbols(goal) - GLOBAL_SYMBOLS):
        return list(prem)  # e.g. the goal `False` (unreachability): everything matters
    cur = symbols(goal) - GLOBAL_SYMBOLS
    gl = symbols(goal) & GLOBAL_SYMBOLS
    keep = [False] * len(prem)
    changed = True
    while changed:
        changed = False
        for i, sy in enumerate(syms):
            if not keep[i] and sy and (sy & cur):
                keep[i] = True
                gl |= full[i] & GLOBAL_SYMBOLS
                if sy - cur:
                    cur |= sy
                    changed = True
    # axioms over global symbols only: kept when one of their symbols is in play
    for i, sy in enumerate(syms):
        if not sy and (full[i] & gl or not full[i]):
            keep[i] = True
    return [c for c, k in zip(prem, keep) if k]


def term_axioms(fs):
    from .sym import ABSTRACT_BYTES

    out = []
    terms = {}
    for f in fs:
        terms.update(info(f).terms)
    terms = list(terms.values())
    gens = list(TERM_AXIOMS) + ([_abstract_bytes_axioms] if ABSTRACT_BYTES else [])
    for gen in gens:
        out += gen(terms)
    # the generated facts may mention new terms (e.g. blen(cat(..))): one more round
    if out:
        t2 = {}
        for f in out:
            t2.update(info(f).terms)
        new = [t for i, t in t2.items() if i not in set(x.get_id() for x in terms)]
        for gen in gens:
            out += gen(new)
    return out


def discharge(premises, goal, timeout_ms=10000, hints=None, hint_arrays=None):
    """-> dict(status, stage, time_s, detail)"""
    t0 = time.time()
    prem = []
    for c in premises:
        prem += flatten_and(c)
    prem = cone(prem, goal)
    ground = [c for c in prem if not _has_quant(c)]
    quant = [c for c in prem if z3.is_quantifier(c) and c.is_forall()]
    odd = [c for c in prem if _has_quant(c) and not (z3.is_quantifier(c) and c.is_forall())]
    neg = z3.Not(goal)
    if not quant and not odd and not _has_quant(goal):
        ints, strs = harvest(ground + [neg])
        fs0 = ground + [neg] + ord_axioms(strs, ground + [neg])
        fs0 = fs0 + term_axioms(fs0)
        seq = uses_seq(fs0)
        r, s, dt = check(fs0, min(timeout_ms, 1500) if seq else timeout_ms)
        if r == z3.unsat:
            return dict(status="proved", stage=0, backend="z3", time_s=time.time() - t0)
        if r == z3.sat:
            return dict(status="refuted", stage=0, backend="z3", time_s=time.time() - t0, model=_model_str(s))
        if seq:
            # z3's sequence solver is unstable; cvc5 takes its unknowns
            r2, out, dt2 = cvc5_check(fs0, timeout_ms)
            if r2 == "unsat":
                return dict(status="proved", stage=0, backend="cvc5", time_s=time.time() - t0)
            if r2 == "sat":
                r3, out3, dt3 = cvc5_check(fs0, timeout_ms, want_model=True)
                return dict(status="refuted", stage=0, backend="cvc5", time_s=time.time() - t0, model=out3 if r3 == "sat" else out)
        return dict(status="unknown", stage=0, time_s=time.time() - t0, detail=s.reason_unknown())
    base = ground + [neg]
    if hints:
        base = base + list(hints)
    fsE = ground + quant + odd + [neg]
    fsE = fsE + term_axioms(ground + [neg])
    seq = uses_seq(fsE)
    ints, strs = harvest(base)
    if hint_arrays:
        # instantiation hints (DESIGN 3.7): close the term pool once under the given
        # pointer arrays (e.g. the parent of every address mentioned)
        have = set(t.get_id() for t in ints)
        for arr in hint_arrays:
            for t in list(ints):
                nt = z3.Select(arr, t)
                if nt.get_id() not in have:
                    have.add(nt.get_id())
                    ints.append(nt)
    estimate = 0
    for q in quant:
        n = 1
        for j in range(q.num_vars()):
            n *= len(ints) if q.var_sort(j) == INT else max(1, len(strs))
        estimate += n

    def stage_e(budget):
        # z3 e-matching on the quantified premises (MBQI off): goal-directed
        # instantiation modulo equalities.  unsat = proved; anything else = nothing.
        rE, sE, dtE = check(fsE, min(timeout_ms, budget), auto_config=False, **{"smt.mbqi": False})
        if rE == z3.unsat:
            return dict(status="proved", stage="e", backend="z3", time_s=time.time() - t0)
        return None

    state = {}

    if seq and not info(neg).seq:
        # the goal does not speak about byte-string structure: first try without the
        # premises that do (fewer premises: sound), which keeps the sequence solver out
        g2 = [c for c in ground if not info(c).seq]
        q2 = [c for c in quant if not info(c).seq]
        if len(g2) + len(q2) < len(ground) + len(quant):
            r0 = discharge(g2 + q2, goal, min(timeout_ms, 6000), hints, hint_arrays)
            if r0["status"] == "proved":
                r0["time_s"] = time.time() - t0
                r0["note"] = "without the byte-string premises"
                return r0

    def stage_1():
        # explicit ground instances over the obligation's own terms (bounded)
        inst = instantiate(quant, ints, strs, cap=4000)
        fs = base + inst + ord_axioms(strs, base + inst)
        fs = fs + term_axioms(fs)
        r, s, dt = check(fs, min(timeout_ms, 2000 + len(inst) // 3))
        if r != z3.unsat:
            # second round: terms created by the first-round instances, for the
            # single-variable clauses only (keeps the instance count linear)
            ints2, strs2 = harvest(base + inst)
            if len(ints2) > len(ints) and len(ints2) <= 140:
                have = set(x.get_id() for x in ints)
                new_ints = [t for t in ints2 if t.get_id() not in have]
                one = [q for q in quant if q.num_vars() == 1 and q.var_sort(0) == INT]
                inst = inst + instantiate(one, new_ints, strs)
                fs = base + inst + ord_axioms(strs, base + inst)
                fs = fs + term_axioms(fs)
                r_1, s_1 = r, s
                r, s, dt = check(fs, min(timeout_ms, 2000 if seq else 5000))
                if r == z3.unknown and r_1 == z3.sat:
                    # the deeper round is undecided: keep the first round's model as
                    # the candidate counter-model
                    r, s = r_1, s_1
        state["r"], state["s"] = r, s
        if r == z3.unsat:
            return dict(status="proved", stage=1, backend="z3", time_s=time.time() - t0, instances=len(inst))
        if r == z3.unknown and not seq:
            # second opinion on the ground instance set
            rc, outc, dtc = cvc5_check(fs, min(timeout_ms, 8000))
            if rc == "unsat":
                return dict(status="proved", stage=1, backend="cvc5", time_s=time.time() - t0, instances=len(inst))
            if rc == "sat":
                state["r"], state["s"], state["cvc5_sat"] = z3.sat, None, True
        if seq:
            r1, out1, dt1 = cvc5_check(fs, timeout_ms)
            if r1 == "unsat":
                return dict(status="proved", stage=1, backend="cvc5", time_s=time.time() - t0, instances=len(inst))
            rEc, outE, dtEc = cvc5_check(fsE, timeout_ms)
            if rEc == "unsat":
                return dict(status="proved", stage="e", backend="cvc5", time_s=time.time() - t0)
        return None

    # adaptive: obligations sharing their quantified premises tend to need the same
    # stage; remember where e-matching failed and skip it there
    gkey = hash(tuple(sorted(q.get_id() for q in quant)))
    e_fail = _E_FAILS.get(gkey, 0)
    if estimate <= 2500:
        order = [stage_1, lambda: stage_e(3000)]
    elif e_fail >= 2:
        order = [stage_1, lambda: stage_e(2000)]
    else:
        order = [lambda: stage_e(4000), stage_1]
    for st in order:
        res = st()
        if res is not None:
            if res["stage"] == 1 and estimate > 2500:
                _E_FAILS[gkey] = e_fail + 1
            return res
    r, s = state.get("r"), state.get("s")
    # stage 2: with quantifiers and MBQI: a `sat` here is a genuine counter-model
    r2, s2, dt2 = check(ground + quant + odd + [neg] + ord_axioms(strs, ground + [neg]), min(timeout_ms, 3000))
    if r2 == z3.unsat:
        return dict(status="proved", stage=2, backend="z3", time_s=time.time() - t0)
    if r2 == z3.sat:
        return dict(status="refuted", stage=2, backend="z3", time_s=time.time() - t0, model=_model_str(s2))
    return dict(status="unknown", stage=2, time_s=time.time() - t0, detail=s2.reason_unknown(), stage1=str(r), stage1_model=(_model_str(s) if s is not None else "cvc5: the ground instance set is satisfiable") if r == z3.sat else None)


def _model_str(s, limit=4000):
    try:
        m = s.model()
        items = []
        for d in m.decls():
            nm = d.name()
            if nm.startswith("k!") or nm.startswith("z3name"):
                continue
            items.append("%s = %s" % (nm, str(m[d]).replace("\n", " ")[:200]))
        return "\n".join(sorted(items))[:limit]
    except Exception as e:
        return "<no model: %s>" % e


def satisfiable(fs, timeout_ms=4000):
    """vacuity guard: the premises of a contract must be jointly satisfiable (ground
    part + instantiated quantifiers)"""
    prem = []
    for c in fs:
        prem += flatten_and(c)
    ground = [c for c in prem if not _has_quant(c)]
    quant = [c for c in prem if z3.is_quantifier(c) and c.is_forall()]
    ints, strs = harvest(ground)
    inst = instantiate(quant, ints, strs)
    r, s, dt = check(ground + inst, timeout_ms)
    return r
