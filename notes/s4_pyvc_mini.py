"""
Throw-away spike (design round): a miniature AST -> z3 symbolic executor run on the REAL source of
LRUTrie.lru_node and LRUTrieNode accessors, to validate DESIGN 2.2 encoding choices:
 - methods of the node object are executed from their real AST (inlined), module constants read from the module
 - storage = uninterpreted field functions over Int addresses; flags as 8-bit vectors
 - stems = uninterpreted Key sort with order embedding into Real
 - while-True loops cut at a sidecar invariant; for-range loop cut at a sidecar invariant
Restriction of the spike only: no tails (HAS_TAIL assumed clear), lru given as an abstract stem sequence.
Obligation proved: lru_node returns None or a node whose block b is a head with lru[b] == stems[:l]  (soundness half),
and under Inv-GAP it returns non-None when the lru is stored (completeness half).
"""
import ast, sys, time, itertools
sys.path.insert(0, '/repo')
from z3 import *
import traph.lru_trie.node as NODEMOD

SRC_NODE = ast.parse(open('/repo/traph/lru_trie/node.py').read())
SRC_TRIE = ast.parse(open('/repo/traph/lru_trie/lru_trie.py').read())
def find_method(tree, cls, name):
    for c in tree.body:
        if isinstance(c, ast.ClassDef) and c.name == cls:
            for f in c.body:
                if isinstance(f, ast.FunctionDef) and f.name == name: return f
    raise KeyError(name)
CONSTS = {k: v for k, v in vars(NODEMOD).items() if k.isupper()}

Key = DeclareSort('Key'); ordk = Function('ord', Key, RealSort())
A = IntSort()
T = dict(key=Function('T_key', A, Key), flags=Function('T_flags', A, BitVecSort(8)))
for f in ('we','left','right','child','parent','outl','inl'): T[f] = Function('T_'+f, A, A)
FIELDS = ['key','flags','we','left','right','child','parent','outl','inl']
size = Int('size')
lru_g = Function('G_lruid', A, A)       # ghost: id of the stored lru of a head (abstract)
# abstract stem sequence of the query and prefix ids:  pid(i) = id of stems[:i]; ext(id,key) = id of id++[key]
stems = Function('stems', A, Key); L = Int('l'); ext = Function('ext', A, Key, A); pid = Function('pid', A, A)
lo = Function('G_lo', A, RealSort()); hi = Function('G_hi', A, RealSort())
NEG, POS = Real('NEG'), Real('POS')
a, b = Ints('a b')
def head(x): return And(x >= 128, x < size, Extract(6,6,T['flags'](x)) == 0)
AXIOMS = [ForAll([a,b], Implies(And(head(a),head(b)), (ordk(T['key'](a)) == ordk(T['key'](b))) == (T['key'](a) == T['key'](b)))),
          ForAll([a], Implies(a >= 0, pid(a+1) == ext(pid(a), stems(a)))),
          ForAll([a], And(NEG < ordk(stems(a)), ordk(stems(a)) < POS))]
k1,k2=Consts('k1 k2',Key)
AXIOMS.append(ForAll([k1,k2], (ordk(k1)==ordk(k2))==(k1==k2)))
def INV():
    N = head
    cs = []
    for f in ('left','right','child'):
        cs.append(ForAll([a], Implies(N(a), Or(T[f](a) == 0, And(N(T[f](a)), T[f](a) > a)))))
    cs.append(ForAll([a], Implies(N(a), Extract(5,5,T['flags'](a)) == 0)))                      # spike: no tails
    cs.append(ForAll([a], Implies(And(N(a), T['child'](a) != 0), And(T['parent'](T['child'](a)) == a, lo(T['child'](a)) == NEG, hi(T['child'](a)) == POS))))
    cs.append(ForAll([a], Implies(And(N(a), T['left'](a) != 0), And(T['parent'](T['left'](a)) == T['parent'](a), lo(T['left'](a)) == lo(a), hi(T['left'](a)) == ordk(T['key'](a))))))
    cs.append(ForAll([a], Implies(And(N(a), T['right'](a) != 0), And(T['parent'](T['right'](a)) == T['parent'](a), lo(T['right'](a)) == ordk(T['key'](a)), hi(T['right'](a)) == hi(a)))))
    cs.append(ForAll([a], Implies(N(a), And(lo(a) < ordk(T['key'](a)), ordk(T['key'](a)) < hi(a)))))
    cs.append(Implies(size > 128, And(N(IntVal(128)), T['parent'](128) == 0, lo(128) == NEG, hi(128) == POS)))
    # view: lru id of a head = ext(lru id of parent, key); top level parent id = pid(0)
    cs.append(ForAll([a], Implies(N(a), lru_g(a) == ext(If(T['parent'](a) == 0, pid(0), lru_g(T['parent'](a))), T['key'](a)))))
    cs.append(ForAll([a], Implies(N(a), Or(T['parent'](a) == 0, And(N(T['parent'](a)), T['parent'](a) < a)))))
    # GAP
    cs.append(ForAll([a,b], Implies(And(N(a),N(b),T['parent'](a)==T['parent'](b), lo(a) < ordk(T['key'](b)), ordk(T['key'](b)) < ordk(T['key'](a))), T['left'](a) != 0)))
    cs.append(ForAll([a,b], Implies(And(N(a),N(b),T['parent'](a)==T['parent'](b), ordk(T['key'](a)) < ordk(T['key'](b)), ordk(T['key'](b)) < hi(a)), T['right'](a) != 0)))
    return cs

class Obj:
    def __init__(s, cls, fields): s.cls, s.f = cls, fields
class Ret(Exception):
    pass
fresh_ctr = itertools.count()
def fresh(name, sort): return Const('%s!%d' % (name, next(fresh_ctr)), sort)

class Path:
    def __init__(s, env, pc, heap): s.env, s.pc, s.heap = env, pc, heap
    def fork(s): 
        import copy
        heap = {k: Obj(o.cls, dict((fk, list(fv) if isinstance(fv, list) else fv) for fk, fv in o.f.items())) for k, o in s.heap.items()}
        return Path(dict(s.env), list(s.pc), heap)

OBLIGATIONS = []   # (name, premises, goal)
def feasible(pc):
    s = Solver(); s.set('timeout', 500); s.add([c for c in pc if not is_quantifier(c) and not (is_bool(c) and any(is_quantifier(x) for x in c.children()))]); return s.check() != unsat

def tobool(v):
    if isinstance(v, bool): return BoolVal(v)
    if is_bool(v): return v
    if v is None: return BoolVal(False)
    if isinstance(v, int): return BoolVal(v != 0)
    if is_bv(v): return v != 0
    if is_int(v): return v != 0
    raise NotImplementedError(('tobool', v))

class Exec:
    def __init__(s, contracts): s.contracts = contracts
    # ---- expressions: return list of (path, value)
    def ev(s, e, p):
        if isinstance(e, ast.Constant): return [(p, e.value)]
        if isinstance(e, ast.Name):
            if e.id in p.env: return [(p, p.env[e.id])]
            if e.id in CONSTS: return [(p, CONSTS[e.id])]
            raise NameError(e.id)
        if isinstance(e, ast.Attribute):
            out = []
            for p1, o in s.ev(e.value, p):
                out.append((p1, p1.heap[o].f[e.attr] if isinstance(o, str) else getattr(o, e.attr)))
            return out
        if isinstance(e, ast.Subscript):
            out = []
            for p1, base in s.ev(e.value, p):
                for p2, idx in s.ev(e.slice, p1):
                    if isinstance(base, list): out.append((p2, base[idx]))
                    elif base == 'STEMS': out.append((p2, stems(idx if not isinstance(idx,int) else IntVal(idx))))
                    else: raise NotImplementedError(ast.dump(e))
            return out
        if isinstance(e, ast.Compare) and len(e.ops) == 1:
            out = []
            for p1, l_ in s.ev(e.left, p):
                for p2, r_ in s.ev(e.comparators[0], p1):
                    out.append((p2, s.cmp(e.ops[0], l_, r_)))
            return out
        if isinstance(e, ast.BinOp):
            out = []
            for p1, l_ in s.ev(e.left, p):
                for p2, r_ in s.ev(e.right, p1):
                    out.append((p2, s.binop(e.op, l_, r_)))
            return out
        if isinstance(e, ast.UnaryOp) and isinstance(e.op, ast.Not):
            return [(p1, Not(tobool(v))) for p1, v in s.ev(e.operand, p)]
        if isinstance(e, ast.Call): return s.call(e, p)
        raise NotImplementedError(ast.dump(e))
    def cmp(s, op, l_, r_):
        if l_ is None or r_ is None:
            same = (l_ is None and r_ is None)
            return same if isinstance(op, (ast.Eq, ast.Is)) else (not same)
        if is_expr(l_) and l_.sort() == Key or is_expr(r_) and r_.sort() == Key:
            if isinstance(op, ast.Eq): return ordk(l_) == ordk(r_)
            if isinstance(op, ast.Lt): return ordk(l_) < ordk(r_)
        if is_bv(l_) and isinstance(r_, int): r_ = BitVecVal(r_, l_.size())
        m = {ast.Eq: lambda: l_ == r_, ast.NotEq: lambda: l_ != r_, ast.Lt: lambda: l_ < r_, ast.LtE: lambda: l_ <= r_, ast.Gt: lambda: l_ > r_, ast.GtE: lambda: l_ >= r_}
        return m[type(op)]()
    def binop(s, op, l_, r_):
        if isinstance(op, ast.Add) and r_ == b'' and is_expr(l_) and l_.sort() == Key: return l_   # spike: empty tail
        if is_bv(l_) or is_bv(r_):
            if isinstance(l_, int): l_ = BitVecVal(l_, 8)
            if isinstance(r_, int): r_ = BitVecVal(r_, 8)
            return {ast.RShift: lambda: LShR(l_, r_), ast.BitAnd: lambda: l_ & r_, ast.LShift: lambda: l_ << r_, ast.BitOr: lambda: l_ | r_}[type(op)]()
        return {ast.Add: lambda: l_ + r_, ast.Sub: lambda: l_ - r_, ast.Mult: lambda: l_ * r_, ast.LShift: lambda: l_ << r_}[type(op)]()
    # ---- calls
    def call(s, e, p):
        f = e.func
        if isinstance(f, ast.Name):
            if f.id == 'bool': return [(p1, tobool(v)) for p1, v in s.ev(e.args[0], p)]
            if f.id == 'len' : return [(p, L)]
            if f.id == 'list': return [(p, 'STEMS')]                  # spike: list(lru_iter(lru)) = abstract stem sequence (contract of lru_iter)
            if f.id == 'range': return [(p, ('range', s.ev(e.args[0], p)[0][1]))]
            if f.id == 'test':
                (p1, d), = s.ev(e.args[0], p); (_, r), = s.ev(e.args[1], p1); (_, pos), = s.ev(e.args[2], p1)
                return s.inline(find_function(SRC_NODE, 'test'), None, [d, r, pos], p1)
        if isinstance(f, ast.Attribute):
            recv_paths = s.ev(f.value, p)
            out = []
            for p1, recv in recv_paths:
                if isinstance(recv, str) and recv in p1.heap:
                    o = p1.heap[recv]
                    if o.cls == 'LRUTrieNode':
                        if f.attr == 'read':                                   # contract of LRUTrieNode.read (no tails): DESIGN 4.3
                          for p2, blk in s.ev(e.args[0], p1):
                            if blk is None:
                                OBLIGATIONS.append(('pre:read(block is not None)', list(p2.pc), BoolVal(False))); continue
                            blk = IntVal(blk) if isinstance(blk, int) else blk
                            ok = p2.fork(); ok.pc.append(And(blk < size, blk >= 0))
                            oo = ok.heap[recv]; oo.f['exists'] = True; oo.f['block'] = blk
                            oo.f['data'] = [T[fl](blk) for fl in FIELDS]
                            out.append((ok, None))
                            no = p2.fork(); no.pc.append(Not(And(blk < size, blk >= 0)))
                            no.heap[recv].f['exists'] = False; no.heap[recv].f['data'] = [fresh('dk', Key), BitVecVal(128, 8)] + [IntVal(0)] * 7
                            no.pc.append(True)
                            out.append((no, None))
                          continue
                        m = find_method(SRC_NODE, 'LRUTrieNode', f.attr)
                        args = []
                        pa = p1
                        for aexp in e.args:
                            (pa, v), = s.ev(aexp, pa); args.append(v)
                        out += s.inline(m, recv, args, pa)
                        continue
                    if o.cls == 'LRUTrie':
                        if f.attr == 'root':                                  # real body: self.node(block=FIRST) -> LRUTrieNode(storage, block=...) -> read
                            nid = 'node%d' % next(fresh_ctr)
                            p2 = p1.fork(); p2.heap[nid] = Obj('LRUTrieNode', {'block': IntVal(-1), 'exists': False, 'data': None, 'tail': b''})
                            fake = ast.parse('n.read(%d)' % CONSTS['LRU_TRIE_FIRST_DATA_BLOCK']).body[0].value
                            p2.env = dict(p2.env); p2.env['n'] = nid
                            for p3, _ in s.call(fake, p2): out.append((p3, nid))
                            continue
                raise NotImplementedError(ast.dump(e))
            return out
        raise NotImplementedError(ast.dump(e))
    def inline(s, fn, self_obj, args, p):
        saved = p.env
        env = {}
        params = [a_.arg for a_ in fn.args.args]
        if self_obj is not None: env[params[0]] = self_obj; params = params[1:]
        for n_, v in zip(params, args): env[n_] = v
        p = p.fork(); p.env = env
        res = []
        for p1, kind, val in s.block(fn.body, p):
            p1.env = saved
            if kind == 'raise': res.append(('RAISE', p1, val))
            else: res.append((p1, val if kind == 'return' else None))
        out = []
        for r in res:
            if r[0] == 'RAISE':
                OBLIGATIONS.append(('no-exception:%s:%s' % (fn.name, r[2]), list(r[1].pc), BoolVal(False)))
            else: out.append(r)
        return out
    # ---- statements: returns list of (path, kind, value) kind in normal/break/continue/return/raise
    def block(s, stmts, p):
        paths = [(p, 'normal', None)]
        for st in stmts:
            nxt = []
            for p1, kind, val in paths:
                if kind != 'normal': nxt.append((p1, kind, val)); continue
                nxt += s.stmt(st, p1)
            paths = nxt
        return paths
    def stmt(s, st, p):
        if isinstance(st, ast.Expr):
            if isinstance(st.value, ast.Constant): return [(p, 'normal', None)]
            return [(p1, 'normal', None) for p1, _ in s.ev(st.value, p)]
        if isinstance(st, ast.Assign):
            out = []
            for p1, v in s.ev(st.value, p):
                t = st.targets[0]
                p1 = p1.fork()
                if isinstance(t, ast.Name): p1.env[t.id] = v
                elif isinstance(t, ast.Attribute):
                    (p1, o), = s.ev(t.value, p1); p1.heap[o].f[t.attr] = v
                else: raise NotImplementedError(ast.dump(st))
                out.append((p1, 'normal', None))
            return out
        if isinstance(st, ast.Return):
            if st.value is None: return [(p, 'return', None)]
            return [(p1, 'return', v) for p1, v in s.ev(st.value, p)]
        if isinstance(st, ast.Raise):
            return [(p, 'raise', ast.unparse(st.exc)[:40])]
        if isinstance(st, ast.Break): return [(p, 'break', None)]
        if isinstance(st, ast.If):
            out = []
            for p1, c in s.ev(st.test, p):
                c = tobool(c)
                pt = p1.fork(); pt.pc.append(c)
                pf = p1.fork(); pf.pc.append(Not(c))
                if feasible(pt.pc): out += s.block(st.body, pt)
                if feasible(pf.pc): out += s.block(st.orelse, pf) if st.orelse else [(pf, 'normal', None)]
            return out
        if isinstance(st, (ast.While, ast.For)):
            return s.loop(st, p)
        raise NotImplementedError(ast.dump(st))
    def loop(s, st, p):
        key = ('for' if isinstance(st, ast.For) else 'while') + '@%d' % st.lineno
        c = s.contracts[key]
        # 1. invariant on entry
        p = p.fork()
        if isinstance(st, ast.For):
            (p, rng), = s.ev(st.iter, p); ub = rng[1]
            p.env[st.target.id] = IntVal(0)
        for nm, inv in c['inv'](p): OBLIGATIONS.append(('%s:entry:%s' % (key, nm), list(p.pc), inv))
        # 2. havoc
        h = p.fork(); c['havoc'](h)
        for nm, inv in c['inv'](h): h.pc.append(inv)
        out = []
        if isinstance(st, ast.For):
            i = h.env[st.target.id]
            body = h.fork(); body.pc.append(i < ub)
            exitp = h.fork(); exitp.pc.append(i >= ub)
            results = s.block(st.body, body)
            for p1, kind, val in results:
                if kind in ('normal', 'continue'):
                    p1 = p1.fork(); p1.env[st.target.id] = p1.env[st.target.id] + 1
                    for nm, inv in c['inv'](p1): OBLIGATIONS.append(('%s:preserve:%s' % (key, nm), list(p1.pc), inv))
                elif kind == 'break': out.append((p1, 'normal', None))
                else: out.append((p1, kind, val))
            out.append((exitp, 'normal', None))
        else:
            results = s.block(st.body, h)        # while True
            for p1, kind, val in results:
                if kind in ('normal', 'continue'):
                    for nm, inv in c['inv'](p1): OBLIGATIONS.append(('%s:preserve:%s' % (key, nm), list(p1.pc), inv))
                elif kind == 'break': out.append((p1, 'normal', None))
                else: out.append((p1, kind, val))
        return out

def find_function(tree, name):
    for f in tree.body:
        if isinstance(f, ast.FunctionDef) and f.name == name: return f

# ------------------------------------------------------------------ sidecar contract for LRUTrie.lru_node
FN = find_method(SRC_TRIE, 'LRUTrie', 'lru_node')
for_line = [n for n in ast.walk(FN) if isinstance(n, ast.For)][0].lineno
while_line = [n for n in ast.walk(FN) if isinstance(n, ast.While)][0].lineno
def node_fresh(p, nm='node'):
    o = p.heap[p.env[nm]]; blk = o.f['block']
    return [('fresh', And(*[o.f['data'][k] == T[fl](blk) for k, fl in enumerate(FIELDS)]))]
def grp_id(blk): return If(T['parent'](blk) == 0, pid(0), lru_g(T['parent'](blk)))
def inv_for(p):
    i = p.env['i']; o = p.heap[p.env['node']]; blk = o.f['block']
    ex = o.f['exists']
    cs = [('i-range', And(i >= 0, i <= L))]
    # node is the BST root of the sibling group whose members have lru id ext(pid(i), .)   (or the missing root of an empty trie)
    cs.append(('group', Or(And(ex == False, size == 128, i == 0) if not isinstance(ex, bool) else BoolVal(ex is False),
                           And(ex, head(blk), grp_id(blk) == pid(i), lo(blk) == NEG, hi(blk) == POS)) if True else None))
    if not (isinstance(ex, bool) and ex is False): cs += [(n_, Implies(head(blk), f_)) for n_, f_ in node_fresh(p)]
    return cs
def havoc_for(p):
    p.env['i'] = fresh('i', A)
    nid = 'node%d' % next(fresh_ctr)
    p.heap[nid] = Obj('LRUTrieNode', {'block': fresh('blk', A), 'exists': fresh('ex', BoolSort()), 'tail': b'',
                                       'data': [fresh('d_key', Key), fresh('d_flags', BitVecSort(8))] + [fresh('d%d' % k, A) for k in range(7)]})
    p.env['node'] = nid
    o = p.heap[nid]
    # a node that does not exist carries default data (contract of read)
    p.pc.append(Implies(Not(o.f['exists']), And(o.f['data'][3] == 0, o.f['data'][4] == 0, o.f['data'][5] == 0)))
    for k in ('stem', 'current_stem'): p.env.pop(k, None)
def inv_while(p):
    i = p.env['i']; o = p.heap[p.env['node']]; blk = o.f['block']; ex = o.f['exists']; stem = p.env['stem']
    cs = [('i-range', And(i >= 0, i < L)), ('stem', stem == stems(i))]
    cs.append(('group', Or(And(Not(ex), size == 128, i == 0),
                           And(ex, head(blk), grp_id(blk) == pid(i), lo(blk) < ordk(stem), ordk(stem) < hi(blk)))))
    cs += [(n_, Implies(ex, f_)) for n_, f_ in node_fresh(p)]
    cs.append(('default', Implies(Not(ex), And(o.f['data'][3] == 0, o.f['data'][4] == 0))))
    return cs
def havoc_while(p):
    i = p.env['i']; st_ = p.env['stem']
    havoc_for(p); p.env['i'] = i; p.env['stem'] = st_
CONTRACTS = {'for@%d' % for_line: {'inv': inv_for, 'havoc': havoc_for}, 'while@%d' % while_line: {'inv': inv_while, 'havoc': havoc_while}}

def main():
    t0 = time.time()
    ex = Exec(CONTRACTS)
    p = Path({'self': 'trie', 'lru': 'LRU'}, INV() + [L >= 1, size >= 128], {'trie': Obj('LRUTrie', {})})
    results = ex.block(FN.body, p)
    target = Int('target')   # ghost: address of the stored lru, if stored
    for p1, kind, val in results:
        assert kind in ('return', 'normal'), kind
        if val is None:
            # completeness: returning None is impossible if some head has lru id pid(l)
            OBLIGATIONS.append(('post:None=>not-stored', list(p1.pc) + [head(target), lru_g(target) == pid(L)], BoolVal(False)))
        else:
            o = p1.heap[val]
            OBLIGATIONS.append(('post:node=>is-the-lru', list(p1.pc), And(head(o.f['block']), lru_g(o.f['block']) == pid(L))))
    print('paths:', len(results), 'obligations:', len(OBLIGATIONS), 'gen time %.2fs' % (time.time() - t0))
    ok = 0
    def pool_of(fs):
        seen = {}
        def walk(e):
            if is_quantifier(e): return
            if is_app(e):
                if e.sort() == IntSort() and (e.num_args() > 0 or e.decl().kind() == Z3_OP_UNINTERPRETED) and e.decl().name() not in ('+','-','*','mod','%'):
                    if e.decl().kind() == Z3_OP_UNINTERPRETED: seen[e.get_id()] = e
                for c in e.children(): walk(c)
        for f in fs: walk(f)
        return list(seen.values())
    def instantiate(prems, pool):
        out = []
        for q in prems:
            if is_quantifier(q) and q.is_forall() and all(q.var_sort(j) == IntSort() for j in range(q.num_vars())):
                n = q.num_vars()
                if len(pool) ** n > 400: continue
                for tup in itertools.product(pool, repeat=n):
                    out.append(substitute_vars(q.body(), *reversed(tup)))
        return out
    for name, prem, goal in OBLIGATIONS:
        ground = [c for c in prem if not is_quantifier(c)]
        pool = pool_of(ground + [goal])
        pool = pool + [L, IntVal(0), IntVal(128)]
        extra = instantiate(AXIOMS + prem, pool)
        kp = {}
        def walkk(e):
            if is_quantifier(e): return
            if is_app(e):
                if e.sort() == Key: kp[e.get_id()] = e
                for c in e.children(): walkk(c)
        for f_ in ground + [goal]: walkk(f_)
        kp = list(kp.values())
        for x_ in kp:
            for y_ in kp:
                if x_.get_id() < y_.get_id(): extra.append((ordk(x_) == ordk(y_)) == (x_ == y_))
        # second round: pointers of pool terms
        s = Solver(); s.set('timeout', 20000); s.add(ground + extra + [Not(goal)])
        t = time.time(); r = s.check(); dt = time.time() - t
        if r == unsat: ok += 1
        else:
            print('  %-40s %s %.2fs' % (name, r, dt))
            if r == sat and ('preserve:group' in name or 'post:' in name):
                m = s.model()
                print('     goal:', goal)
                def show(g,ind=6):
                    if is_and(g) or is_or(g):
                        print(' '*ind+('AND' if is_and(g) else 'OR'), m.eval(g))
                        for c in g.children(): show(c,ind+2)
                    else: print(' '*ind+str(g).replace(chr(10),' ')[:150],'=>',m.eval(g))
                show(goal)
                for c in ground[-9:]: print('     pc:', str(c).replace(chr(10),' ')[:200])
    print('discharged %d / %d  total %.1fs' % (ok, len(OBLIGATIONS), time.time() - t0))
main()
