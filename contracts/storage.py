"""
Contracts for traph/storage/*.py (DESIGN 4.1): the three back-ends refine one block
store.  Verified at byte level: a store is a byte string whose length is a whole
number of blocks; `read` returns None past the end and otherwise the block_size bytes at
the (aligned) offset; `write` appends or overwrites exactly one block.

Trusted here (A5): the sequential-file model of pyvc.lib.file_method, bytearray
slicing / slice assignment / extend as z3 sequence operations, mmap slicing == bytes
slicing of the file content.
"""
import z3

from pyvc.lib import Contract
from pyvc.sym import BYTES, INT, Opt, Path, Ref, fresh, to_z3, znot

BLOCK_SIZES = (128, 16)


def aligned(x, bs, name):
    """x = bs * k for some k >= 0 (no `mod`: encoding decision E1)"""
    k = fresh(name + "_k", INT)
    return [x == bs * k, k >= 0]


class _Base(Contract):
    cls = None
    method = None
    kinds = ("memory",)

    @property
    def qual(self):
        return "%s.%s" % (self.cls, self.method)

    def mk(self, bs, whole=True):
        """-> (path, recv, C) : a store object with symbolic content C"""
        p = Path()
        C = fresh("C", BYTES)
        if whole:
            for f in aligned(z3.Length(C), bs, "n"):
                p.assume(f)
        if self.cls == "MemoryStorage":
            arr = p.new_obj("bytearray", {"content": C})
            recv = p.new_obj("MemoryStorage", {"block_size": bs, "array": arr})
        elif self.cls == "FileStorage":
            pos = fresh("pos", INT)
            p.assume(pos >= 0)
            fl = p.new_obj("file", {"content": C, "pos": pos})
            recv = p.new_obj("FileStorage", {"block_size": bs, "file": fl})
        else:
            fl = p.new_obj("file", {"content": C, "pos": fresh("pos", INT)})
            recv = p.new_obj("MemMapStorage", {"block_size": bs, "file": fl, "map": C})
        p.w["C0"] = C
        return p, recv, C

    def content(self, p, recv):
        o = p.obj(recv)
        if self.cls == "MemoryStorage":
            return p.obj(o.f["array"]).f["content"]
        if self.cls == "FileStorage":
            return p.obj(o.f["file"]).f["content"]
        return o.f["map"]

    def no_raise(self, ex, res):
        for p1, kind, val in res:
            if kind == "raise":
                ex.oblige(p1, "raises-nothing(%s)" % val[0], False, val[1], "post")


class Len(_Base):
    method = "__len__"

    def setups(self, ex):
        for bs in BLOCK_SIZES:
            p, recv, C = self.mk(bs, whole=False)
            yield p, recv, [], {}, bs

    def check(self, ex, p0, res, bs):
        self.no_raise(ex, res)
        recv = [v for v in p0.heap if v.startswith(self.cls)][0]
        for p1, kind, val in res:
            if kind == "raise":
                continue
            ex.oblige(p1, "result==len(content)", to_z3(val) == z3.Length(p0.w["C0"]), None)
            ex.oblige(p1, "content-unchanged", self.content(p1, Ref(recv)) == p0.w["C0"], None)


class CountBlocks(_Base):
    method = "count_blocks"

    def setups(self, ex):
        for bs in BLOCK_SIZES:
            p, recv, C = self.mk(bs)
            yield p, recv, [], {}, bs

    def check(self, ex, p0, res, bs):
        self.no_raise(ex, res)
        recv = [v for v in p0.heap if v.startswith(self.cls)][0]
        for p1, kind, val in res:
            if kind == "raise":
                continue
            ex.oblige(p1, "result*block_size==len(content)", to_z3(val) * bs == z3.ToReal(z3.Length(p0.w["C0"])), None)
            ex.oblige(p1, "content-unchanged", self.content(p1, Ref(recv)) == p0.w["C0"], None)


class Corruption(_Base):
    cls = "FileStorage"
    method = "check_for_corruption"

    def setups(self, ex):
        for bs in BLOCK_SIZES:
            p, recv, C = self.mk(bs, whole=False)
            yield p, recv, [], {}, bs

    def check(self, ex, p0, res, bs):
        self.no_raise(ex, res)
        recv = [v for v in p0.heap if v.startswith(self.cls)][0]
        n = z3.Length(p0.w["C0"])
        for p1, kind, val in res:
            if kind == "raise":
                continue
            whole = n % bs == 0
            ex.oblige(p1, "corrupted<=>partial-block", to_z3(ex.truth(val, p1)) == z3.Not(whole), None)
            ex.oblige(p1, "content-unchanged", self.content(p1, Ref(recv)) == p0.w["C0"], None)


class Read(_Base):
    method = "read"

    def setups(self, ex):
        for bs in BLOCK_SIZES:
            p, recv, C = self.mk(bs)
            b = fresh("block", INT)
            for f in aligned(b, bs, "b"):
                p.assume(f)
            p.w["b"] = b
            yield p, recv, [b], {}, (bs, "at")
            if self.cls == "FileStorage":
                # read() without a block: reads at the file cursor
                p, recv, C = self.mk(bs)
                pos = p.obj(p.obj(recv).f["file"]).f["pos"]
                for f in aligned(pos, bs, "pos"):
                    p.assume(f)
                p.w["b"] = pos
                yield p, recv, [], {}, (bs, "cursor")

    def check(self, ex, p0, res, tag):
        bs, mode = tag
        self.no_raise(ex, res)
        recv = [v for v in p0.heap if v.startswith(self.cls)][0]
        C = p0.w["C0"]
        b = p0.w["b"]
        n = z3.Length(C)
        for p1, kind, val in res:
            if kind == "raise":
                continue
            if isinstance(val, Opt):
                none, v = val.none, val.val
            else:
                none, v = (val is None), val
            none = to_z3(none)
            ex.oblige(p1, "None<=>past-the-end", none == (b >= n), None)
            if v is not None:
                vz = ex.bytes_of(v, p1)
                ex.oblige(p1, "block-content", z3.Implies(z3.Not(none), vz == z3.Extract(C, b, bs)), None)
                ex.oblige(p1, "block-length", z3.Implies(z3.Not(none), z3.Length(vz) == bs), None)
            ex.oblige(p1, "content-unchanged", self.content(p1, Ref(recv)) == C, None)


class Write(_Base):
    method = "write"

    def setups(self, ex):
        for bs in BLOCK_SIZES:
            for mode in ("append", "at"):
                p, recv, C = self.mk(bs)
                d = fresh("data", BYTES)
                p.assume(z3.Length(d) == bs)
                p.w["d"] = d
                if mode == "append":
                    yield p, recv, [d], {}, (bs, mode)
                else:
                    b = fresh("block", INT)
                    for f in aligned(b, bs, "b"):
                        p.assume(f)
                    # in place, or exactly at the end (header creation on an empty store)
                    p.assume(b <= z3.Length(C))
                    p.w["b"] = b
                    yield p, recv, [d, b], {}, (bs, mode)

    def check(self, ex, p0, res, tag):
        bs, mode = tag
        self.no_raise(ex, res)
        recv = [v for v in p0.heap if v.startswith(self.cls)][0]
        C = p0.w["C0"]
        d = p0.w["d"]
        n = z3.Length(C)
        where = n if mode == "append" else p0.w["b"]
        for p1, kind, val in res:
            if kind == "raise":
                continue
            C1 = self.content(p1, Ref(recv))
            ex.oblige(p1, "returns-block-address", to_z3(val) == where, None)
            ex.oblige(p1, "length", z3.Length(C1) == z3.If(where < n, n, n + bs), None)
            ex.oblige(p1, "block-written", z3.Extract(C1, where, bs) == d, None)
            # frame: every other block is unchanged
            a = fresh("a", INT)
            k = fresh("ak", INT)
            ex.oblige(p1, "other-blocks-unchanged", z3.Implies(z3.And(a == bs * k, k >= 0, a < n, a != where), z3.Extract(C1, a, bs) == z3.Extract(C, a, bs)), None)
            if mode == "append":
                ex.oblige(p1, "append", C1 == z3.Concat(C, d), None)


def make(cls_, base, **kw):
    return type(base.__name__ + "_" + cls_, (base,), dict(cls=cls_, **kw))()


def contracts():
    out = []
    for cls_ in ("MemoryStorage", "FileStorage"):
        for base in (Len, CountBlocks, Read, Write):
            out.append(make(cls_, base))
    out.append(make("MemMapStorage", Read))
    out.append(Corruption())
    return out


GROUP = "storage"
