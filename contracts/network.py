"""
Contract for Traph.get_webentities_links_iter (C07, the fast network builder), verified
against the contracts of what it calls; trie and link store abstract.

The traversal is ANY finite sequence of items (node, webentity): item j has block
ITEM_BLOCK(j), carries ITEM_WE(j) (None when ITEM_NOWE(j)), is a page iff IS_PAGE(j),
crawled iff IS_CRAWLED(j), has links in the asked direction iff HAS_LINKS(j) with list
head LINKS_HEAD(j).  (That the traversal yields every head once with its nearest
webentity is `dfs_with_webentity_iter`'s own contract - soundness proved in
contracts/trie.py, "every head once" bounded.)  Each recorded page p walks ITS links:
N_LINKS(p) pairs (LINK_TARGET(p, l), LINK_WEIGHT(p, l)).

Proved, for every include_auto switch and direction:
  - the page -> webentity map holds exactly the (block, webentity) pairs of the page
    items that resolve to a webentity (never a None / 0 value);
  - every tally increment is `pages_crawled` / `pages_uncrawled` of the page item's own
    webentity according to its crawled mark, once per such page item;
  - a link pointer is recorded for exactly the page items that have links, with the
    item's webentity and list head;
  - every graph increment adds the weight of ONE link of a recorded page from that
    page's webentity to the webentity the map gives for the link's target, and only when
    the target resolves (is in the map) and, unless include_auto, differs from the
    source; within each page's list no qualifying link is skipped or counted twice
    (spec counter N_COUNTED);
  - the final yield hands the graph back.
"""
import z3

from pyvc.lib import Contract, LoopSpec, SeqView
from pyvc.sym import BOOL, BYTES, INT, Opt, Path, Ref, Unsupported, fresh, to_z3

N_ITEMS = z3.Int("n_items")
ITEM_BLOCK = z3.Function("ITEM_BLOCK", INT, INT)
ITEM_NOWE = z3.Function("ITEM_HAS_NO_WEBENTITY", INT, BOOL)
ITEM_WE = z3.Function("ITEM_WEBENTITY", INT, INT)
IS_PAGE = z3.Function("IS_PAGE", INT, BOOL)
IS_CRAWLED = z3.Function("IS_CRAWLED", INT, BOOL)
HAS_LINKS = z3.Function("HAS_LINKS", INT, BOOL)
LINKS_HEAD = z3.Function("LINKS_HEAD", INT, INT)
N_PTR = z3.Int("n_pointers")  # ghost mirror of len(link_pointers)
PTR_ITEM = z3.Function("POINTER_ITEM", INT, INT)  # item a recorded pointer came from
N_LINKS = z3.Function("N_LINKS", INT, INT)
LINK_TARGET = z3.Function("LINK_TARGET", INT, INT, INT)
LINK_WEIGHT = z3.Function("LINK_WEIGHT", INT, INT, INT)
NC = z3.Function("N_COUNTED", INT, INT, INT)
INCLUDE_AUTO = z3.Bool("include_auto")
OUT = z3.Bool("out")

II = z3.ArraySort(INT, INT)
IB = z3.ArraySort(INT, BOOL)


def resolved(j):
    return z3.And(IS_PAGE(j), z3.Not(ITEM_NOWE(j)), ITEM_WE(j) != 0)


def counted(p, k, l):
    """link l of pointer k qualifies, given the final page map (dom, val)"""
    t = LINK_TARGET(k, l)
    dom, val = p.w["__mdom"], p.w["__mval"]
    src = ITEM_WE(PTR_ITEM(k))
    return z3.And(z3.Select(dom, t), z3.Select(val, t) != 0, z3.Or(INCLUDE_AUTO, src != z3.Select(val, t)))


QUALIFIES = z3.Function("LINK_QUALIFIES", INT, INT, BOOL)  # link l of pointer k counts, given the page map of the second pass


def axioms():
    k, l, j = z3.Ints("k l j")
    return [
        N_ITEMS >= 0,
        z3.ForAll([k], N_LINKS(k) >= 0),
        z3.ForAll([j], z3.Implies(z3.Not(ITEM_NOWE(j)), ITEM_WE(j) >= 0)),
        z3.ForAll([k], NC(k, 0) == 0),
        z3.ForAll([k, l], z3.Implies(l >= 0, NC(k, l + 1) == NC(k, l) + z3.If(QUALIFIES(k, l), 1, 0))),
    ]


def mk_world(p):
    p.w["__mdom"] = z3.K(INT, z3.BoolVal(False))  # the page -> webentity map
    p.w["__mval"] = z3.K(INT, z3.IntVal(0))
    p.w["__nptr"] = z3.IntVal(0)
    p.w["__ptr_we"] = fresh("ptr_we", II)
    p.w["__ptr_head"] = fresh("ptr_head", II)
    p.w["__ptr_item"] = fresh("ptr_item", II)
    p.w["__tallies"] = z3.IntVal(0)
    p.w["__adds"] = z3.IntVal(0)  # graph increments of the current walk
    p.w["__cur_item"] = z3.IntVal(-1)
    p.w["__cur_ptr"] = z3.IntVal(-1)
    p.w["__cur_link"] = z3.IntVal(-1)
    p.w["__final"] = None
    p.w["__phase"] = 1


# ---------------------------------------------------------------------------- stubs
class DfsCallee(Contract):
    qual = "LRUTrie.dfs_with_webentity_iter"

    def seq(self, ex, p, recv, args, kw, ln):
        q = p.fork()
        jv = fresh("item_index", INT)
        q.w["__cur_item"] = jv
        node = q.new_obj("LRUTrieNode", {"__abstract": True, "__item": True, "block": ITEM_BLOCK(jv)})
        q.mut += 1
        return q, SeqView(N_ITEMS, lambda j: (node, Opt(ITEM_NOWE(j), ITEM_WE(j))), facts=lambda j: [jv == j])


def _j(p, recv):
    if not p.obj(recv).f.get("__item"):
        raise Unsupported("node that is not a traversal item")
    return p.w["__cur_item"]


def _acc(name, fn):
    class A(Contract):
        qual = "LRUTrieNode." + name

        def apply(self, ex, p, recv, args, kw, ln):
            j = _j(p, recv)
            if name in ("has_links", "links"):
                o = kw.get("out", args[0] if args else True)
                ex.oblige(p, "%s:asked-for-the-requested-direction" % name, to_z3(ex.truth(o, p)) == OUT, ln, "post")
            return [(p, fn(j))]

    A.__name__ = "Acc_" + name
    return A()


class WeightedCallee(Contract):
    qual = "LinkStore.weighted_link_nodes_iter"

    def seq(self, ex, p, recv, args, kw, ln):
        q = p.fork()
        k = q.w["__cur_ptr"]
        ex.oblige(q, "walks-the-list-of-the-pointer-in-hand", to_z3(args[0]) == z3.Select(q.w["__ptr_head"], k), ln, "post")
        lv = fresh("link_index", INT)
        q.w["__cur_link"] = lv
        q.w["__adds"] = z3.IntVal(0)
        q.mut += 1
        return q, SeqView(N_LINKS(k), lambda l: (LINK_TARGET(k, l), LINK_WEIGHT(k, l)), facts=lambda l: [lv == l])


class ShouldYield(Contract):
    qual = "TraphIteratorState.should_yield"

    def apply(self, ex, p, recv, args, kw, ln):
        return [(p, fresh("suspend_here", BOOL))]


# ---------------------------------------------------------------------------- containers
class CounterHandle(object):
    def __init__(self, src):
        self.src = src


def graph_getitem(ex, p, base, idx, ln):
    if isinstance(idx, Opt):
        idx = ex.unwrap(idx, p, "graph key", ln)
    return CounterHandle(to_z3(idx))


def counter_getitem(ex, p, base, idx, ln):
    return z3.IntVal(0) if isinstance(idx, str) else fresh("old_weight", INT)


def counter_setitem(ex, p, base, idx, v, ln):
    """graph[src][key] += v, seen as a store of old + v"""
    src = base.src
    if isinstance(idx, str):
        j = p.w["__cur_item"]
        ex.oblige(p, "tally:during-the-first-pass-for-a-resolved-page-item", z3.And(z3.BoolVal(p.w["__phase"] == 1), resolved(j)), ln, "post")
        ex.oblige(p, "tally:on-the-page's-own-webentity", src == ITEM_WE(j), ln, "post")
        ex.oblige(p, "tally:crawled-or-uncrawled-according-to-the-page's-mark", z3.BoolVal(idx in ("pages_crawled", "pages_uncrawled")) if idx not in ("pages_crawled", "pages_uncrawled") else (IS_CRAWLED(j) if idx == "pages_crawled" else z3.Not(IS_CRAWLED(j))), ln, "post")
        ex.oblige(p, "tally:one-page-at-a-time", to_z3(v) == 1, ln, "post")
        p.w["__tallies"] = z3.simplify(p.w["__tallies"] + 1)
        p.mut += 1
        return p
    if isinstance(idx, Opt):
        idx = ex.unwrap(idx, p, "target webentity", ln)
    k, l = p.w["__cur_ptr"], p.w["__cur_link"]
    tgt = to_z3(idx)
    ex.oblige(p, "edge:during-the-second-pass", z3.BoolVal(p.w["__phase"] == 2), ln, "post")
    ex.oblige(p, "edge:from-the-webentity-of-the-page-whose-links-are-walked", src == ITEM_WE(PTR_ITEM(k)), ln, "post")
    ex.oblige(p, "edge:to-the-webentity-the-page-map-gives-for-the-link's-target", z3.And(z3.Select(p.w["__mdom"], LINK_TARGET(k, l)), tgt == z3.Select(p.w["__mval"], LINK_TARGET(k, l))), ln, "post")
    ex.oblige(p, "edge:qualifies(target-resolves,auto-links-only-when-asked)", counted(p, k, l), ln, "post")
    p.w["__adds"] = z3.simplify(p.w["__adds"] + 1)
    p.w["__last_weight"] = (to_z3(v), k, l)
    p.mut += 1
    return p


def pointers_append(ex, p, o, v):
    j = p.w["__cur_item"]
    ok = isinstance(v, tuple) and len(v) == 2
    ex.oblige(p, "pointer:is-(webentity,list-head)", z3.BoolVal(ok), None, "post")
    n = p.w["__nptr"]
    if ok:
        we = ex.unwrap(v[0], p, "webentity of a link pointer", None) if isinstance(v[0], Opt) else v[0]
        ex.oblige(p, "pointer:recorded-for-a-resolved-page-item-with-links", z3.And(resolved(j), HAS_LINKS(j)), None, "post")
        ex.oblige(p, "pointer:carries-the-item's-webentity-and-list-head", z3.And(to_z3(we) == ITEM_WE(j), to_z3(v[1]) == LINKS_HEAD(j)), None, "post")
        p.w["__ptr_we"] = z3.Store(p.w["__ptr_we"], n, to_z3(we))
        p.w["__ptr_head"] = z3.Store(p.w["__ptr_head"], n, to_z3(v[1]))
        p.w["__ptr_item"] = z3.Store(p.w["__ptr_item"], n, j)
    p.w["__nptr"] = z3.simplify(n + 1)
    o.f["len"] = o.f["len"] + 1


def pointers_iter(ex, p, it, ln):
    q = p.fork()
    kv = fresh("pointer_index", INT)
    q.w["__cur_ptr"] = kv
    if q.w["__phase"] != 2:
        # LINK_QUALIFIES names, once and for all, what `counted` says with the page map as
        # it stands when the second pass starts (the map is not written any more)
        k_, l_ = z3.Ints("k_ l_")
        q.assume(z3.ForAll([k_, l_], QUALIFIES(k_, l_) == counted(q, k_, l_)))
        q.w["__map2"] = (q.w["__mdom"], q.w["__mval"])
    q.w["__phase"] = 2
    return q, SeqView(q.w["__nptr"], lambda k: (z3.Select(q.w["__ptr_we"], k), z3.Select(q.w["__ptr_head"], k)), facts=lambda k: [kv == k, PTR_ITEM(k) == z3.Select(q.w["__ptr_item"], k)])


def map_store(ex, p, ref, k, v, ln):
    if isinstance(v, Opt):
        v = ex.unwrap(v, p, "webentity stored in the page map", ln)
    j = p.w["__cur_item"]
    ex.oblige(p, "page-map:filled-during-the-first-pass-for-a-resolved-page-item", z3.And(z3.BoolVal(p.w["__phase"] == 1), resolved(j)), ln, "post")
    ex.oblige(p, "page-map:block->webentity-of-that-page-item", z3.And(to_z3(k) == ITEM_BLOCK(j), to_z3(v) == ITEM_WE(j)), ln, "post")
    p.w["__mdom"] = z3.Store(p.w["__mdom"], to_z3(k), z3.BoolVal(True))
    p.w["__mval"] = z3.Store(p.w["__mval"], to_z3(k), to_z3(v))
    p.mut += 1
    return p


def map_get(ex, p, recv, args, kw, ln):
    k = to_z3(args[0])
    return [(p, Opt(z3.Not(z3.Select(p.w["__mdom"], k)), z3.Select(p.w["__mval"], k)))]


# ---------------------------------------------------------------------------- loop contracts
def _idx(p, which):
    ks = sorted([k for k in p.env if k.startswith("__i")], key=lambda k: int(k[3:]))
    return to_z3(p.env[ks[which]])


def map_sound(p):
    b = z3.Int("b")
    return ("page-map-never-holds-a-null-webentity", z3.ForAll([b], z3.Implies(z3.Select(p.w["__mdom"], b), z3.Select(p.w["__mval"], b) != 0)))


def pointers_sound(p):
    k = z3.Int("k")
    it = z3.Select(p.w["__ptr_item"], k)
    return ("pointers-describe-their-page-items", z3.ForAll([k], z3.Implies(z3.And(k >= 0, k < p.w["__nptr"]), z3.And(resolved(it), HAS_LINKS(it), z3.Select(p.w["__ptr_we"], k) == ITEM_WE(it), z3.Select(p.w["__ptr_head"], k) == LINKS_HEAD(it)))))


def pass1_inv(ex, p):
    k = z3.Int("k")
    return [
        map_sound(p),
        pointers_sound(p),
        ("pointer-list-mirrors-the-recorded-pointers", _len(p, "link_pointers") == p.w["__nptr"]),
        ("pointers-counted", p.w["__nptr"] >= 0),
    ]


def map_frozen(p):
    m = p.w.get("__map2")
    if m is None:
        return ("page-map-not-written-in-the-second-pass", z3.BoolVal(False))
    return ("page-map-not-written-in-the-second-pass", z3.And(p.w["__mdom"] == m[0], p.w["__mval"] == m[1]))


def pass2_inv(ex, p):
    return [map_sound(p), pointers_sound(p), map_frozen(p), ("pointers-counted", p.w["__nptr"] >= 0)]


def walk_inv(ex, p):
    l = _idx(p, -1)
    k = p.w["__cur_ptr"]
    return [
        map_sound(p),
        pointers_sound(p),
        map_frozen(p),
        ("pointer-in-hand-was-recorded", z3.And(k >= 0, k < p.w["__nptr"], PTR_ITEM(k) == z3.Select(p.w["__ptr_item"], k))),
        ("no-qualifying-link-of-this-page-skipped-or-counted-twice", z3.And(l >= 0, p.w["__adds"] == NC(k, l))),
    ]


def _len(p, name):
    o = p.obj(p.env[name])
    return z3.IntVal(len(o.f["items"])) if "items" in o.f else o.f["len"]


def havoc1(ex, p):
    p.env["link_pointers"] = p.new_obj("list", {"len": p.w["__nptr"], "elem": lambda i: fresh("ptr", INT), "on_append": pointers_append, "iter_hook": pointers_iter})
    st = p.env.get("state")
    if isinstance(st, Ref):
        p.obj(st).f["n_iterations"] = fresh("n_iterations", INT)


def havoc2(ex, p):
    st = p.env.get("state")
    if isinstance(st, Ref):
        p.obj(st).f["n_iterations"] = fresh("n_iterations", INT)


class NetworkFast(Contract):
    qual = "Traph.get_webentities_links_iter"

    def setups(self, ex):
        p = Path()
        for ax in axioms():
            p.assume(ax)
        # NC is DEFINED against the page map as it stands when the second pass runs (the
        # map is not written any more then): the defining equation is assumed per walk
        mk_world(p)
        trie = p.new_obj("LRUTrie", {})
        ls = p.new_obj("LinkStore", {})
        t = p.new_obj("Traph", {"lru_trie": trie, "link_store": ls})
        yield p, t, [], {"out": OUT, "include_auto": INCLUDE_AUTO}, "any"

    def on_yield(self, ex, p, v, ln, tag):
        if isinstance(v, Ref) and p.obj(v).f.get("done") is True:
            p.w["__final"] = p.obj(v).f.get("result")
        return [(p, "normal", None)]

    def check(self, ex, p0, res, tag):
        for p1, kind, val in res:
            if kind == "raise":
                ex.oblige(p1, "raises-nothing(%s)" % val[0], False, val[1])
                continue
            ex.oblige(p1, "finishes-with-the-graph", z3.BoolVal(isinstance(p1.w["__final"], Ref) and p1.w["__final"] == p1.env.get("graph")), None)
            nm, f = map_sound(p1)
            ex.oblige(p1, nm, f, None)


def install(lib):
    lib.methods[("defaultdict", "__getitem__")] = graph_getitem
    lib.methods[("CounterHandle", "__getitem__")] = counter_getitem
    lib.methods[("CounterHandle", "__setitem__")] = counter_setitem
    lib.map_store = map_store
    lib.methods[("dict", "get")] = map_get
    key = "Traph.get_webentities_links_iter::for#%d"
    lib.loop_spec(key % 0, LoopSpec(pass1_inv, havoc=havoc1, world=("__mdom", "__mval", "__nptr", "__ptr_we", "__ptr_head", "__ptr_item", "__tallies")))
    lib.loop_spec(key % 1, LoopSpec(pass2_inv, havoc=havoc2, world=("__adds",)))
    lib.loop_spec(key % 2, LoopSpec(walk_inv, havoc=havoc2, world=("__adds",)))
    accs = [_acc("is_page", IS_PAGE), _acc("is_crawled", IS_CRAWLED), _acc("has_links", HAS_LINKS), _acc("links", LINKS_HEAD)]
    return [DfsCallee(), WeightedCallee(), ShouldYield(), NetworkFast()] + accs


GROUP = "network"


# ============================================================================ the memory-light variant (C07: same weights)
WEB_NONE = z3.Function("BLOCK_RESOLVES_TO_NO_WEBENTITY", INT, BOOL)
WEB = z3.Function("WEBENTITY_OF_BLOCK", INT, INT)  # nearest webentity at or above the head in that block (NEAR of contracts/trie.py)
SN_LINKS = z3.Function("N_LINKS_OF_ITEM", INT, INT)
S_TARGET = z3.Function("ITEM_LINK_TARGET", INT, INT, INT)
S_WEIGHT = z3.Function("ITEM_LINK_WEIGHT", INT, INT, INT)
SNC = z3.Function("N_COUNTED_OF_ITEM", INT, INT, INT)


def s_resolves(b):
    return z3.And(z3.Not(WEB_NONE(b)), WEB(b) != 0)


def s_counted(j, l):
    t = S_TARGET(j, l)
    return z3.And(s_resolves(t), z3.Or(INCLUDE_AUTO, WEB(ITEM_BLOCK(j)) != WEB(t)))


def slow_axioms():
    j, l = z3.Ints("j l")
    return [
        N_ITEMS >= 0,
        z3.ForAll([j], SN_LINKS(j) >= 0),
        # the webentity a traversal item carries is the one its block resolves to (both
        # are NEAR of the head: contracts of dfs_with_webentity_iter and windup_lru_for_webentity)
        z3.ForAll([j], z3.And(ITEM_NOWE(j) == WEB_NONE(ITEM_BLOCK(j)), z3.Implies(z3.Not(ITEM_NOWE(j)), ITEM_WE(j) == WEB(ITEM_BLOCK(j))))),
        z3.ForAll([j], SNC(j, 0) == 0),
        z3.ForAll([j, l], z3.Implies(l >= 0, SNC(j, l + 1) == SNC(j, l) + z3.If(s_counted(j, l), 1, 0))),
    ]


class SlowWalk(Contract):
    qual = "LinkStore.weighted_link_nodes_iter"

    def seq(self, ex, p, recv, args, kw, ln):
        q = p.fork()
        j = q.w["__cur_item"]
        ex.oblige(q, "walks-the-links-of-the-page-in-hand", z3.And(HAS_LINKS(j), to_z3(args[0]) == LINKS_HEAD(j)), ln, "post")
        lv = fresh("link_index", INT)
        q.w["__cur_link"] = lv
        q.w["__adds"] = z3.IntVal(0)
        q.w["__read"] = z3.IntVal(-1)
        q.mut += 1
        return q, SeqView(SN_LINKS(j), lambda l: (S_TARGET(j, l), S_WEIGHT(j, l)), facts=lambda l: [lv == l])


class Scratch(Contract):
    qual = "LRUTrie.node"

    def apply(self, ex, p, recv, args, kw, ln):
        q = p.fork()
        return [(q, q.new_obj("LRUTrieNode", {"__abstract": True, "__scratch": True, "block": None}))]


class ScratchRead(Contract):
    qual = "LRUTrieNode.read"

    def apply(self, ex, p, recv, args, kw, ln):
        q = p.fork()
        o = q.obj(recv)
        if not o.f.get("__scratch"):
            raise Unsupported("read of a node that is not the scratch node")
        j, l = q.w["__cur_item"], q.w["__cur_link"]
        ex.oblige(q, "reads-the-target-of-the-link-in-hand", to_z3(args[0]) == S_TARGET(j, l), ln, "post")
        o.f["block"] = S_TARGET(j, l)
        q.w["__read"] = S_TARGET(j, l)
        q.mut += 1
        return [(q, None)]


class WindupBlock(Contract):
    qual = "LRUTrie.windup_lru_for_webentity"

    def apply(self, ex, p, recv, args, kw, ln):
        ok = isinstance(args[0], Ref) and p.obj(args[0]).f.get("__scratch")
        if not ok:
            raise Unsupported("windup of a node that is not the scratch node")
        b = to_z3(p.obj(args[0]).f["block"])
        return [(p, Opt(WEB_NONE(b), WEB(b)))]


def slow_map_store(ex, p, ref, k, v, ln):
    if isinstance(v, Opt):
        v = ex.unwrap(v, p, "webentity stored in the page map", ln)
    kz, vz = to_z3(k), to_z3(v)
    ex.oblige(p, "page-map:block->the-webentity-that-block-resolves-to(never-null)", z3.And(s_resolves(kz), vz == WEB(kz)), ln, "post")
    p.w["__mdom"] = z3.Store(p.w["__mdom"], kz, z3.BoolVal(True))
    p.w["__mval"] = z3.Store(p.w["__mval"], kz, vz)
    p.mut += 1
    return p


def slow_counter_setitem(ex, p, base, idx, v, ln):
    if isinstance(idx, Opt):
        idx = ex.unwrap(idx, p, "target webentity", ln)
    j, l = p.w["__cur_item"], p.w["__cur_link"]
    ex.oblige(p, "edge:from-the-webentity-of-the-page-in-hand", z3.And(IS_PAGE(j), HAS_LINKS(j), s_resolves(ITEM_BLOCK(j)), base.src == WEB(ITEM_BLOCK(j))), ln, "post")
    ex.oblige(p, "edge:to-the-webentity-the-link's-target-resolves-to", to_z3(idx) == WEB(S_TARGET(j, l)), ln, "post")
    ex.oblige(p, "edge:qualifies(target-resolves,auto-links-only-when-asked)", s_counted(j, l), ln, "post")
    p.w["__adds"] = z3.simplify(p.w["__adds"] + 1)
    p.mut += 1
    return p


def slow_map_sound(p):
    b = z3.Int("b")
    return ("page-map-holds-only-(block,webentity-it-resolves-to)-pairs", z3.ForAll([b], z3.Implies(z3.Select(p.w["__mdom"], b), z3.And(s_resolves(b), z3.Select(p.w["__mval"], b) == WEB(b)))))


def slow_items_inv(ex, p):
    return [slow_map_sound(p)]


def slow_walk_inv(ex, p):
    l = _idx(p, -1)
    j = p.w["__cur_item"]
    return [slow_map_sound(p), ("walk-belongs-to-a-resolved-page-with-links", z3.And(j >= 0, IS_PAGE(j), HAS_LINKS(j), s_resolves(ITEM_BLOCK(j)))), ("no-qualifying-link-of-this-page-skipped-or-counted-twice", z3.And(l >= 0, p.w["__adds"] == SNC(j, l)))]


class NetworkSlow(Contract):
    """Traph.get_webentities_links_slow_iter over ANY traversal / link sequences: the
    page map only ever holds (block, webentity that block resolves to); every edge adds
    the weight of one link of the page in hand from the webentity the page's block
    resolves to, to the webentity the target's block resolves to (whether it comes from
    the map or from a fresh windup), only when the target resolves and, unless
    include_auto, differs; none skipped or counted twice.  With `WEBENTITY_OF_BLOCK` =
    NEAR this is the same edge set as the fast variant's."""

    qual = "Traph.get_webentities_links_slow_iter"

    def setups(self, ex):
        p = Path()
        for ax in slow_axioms():
            p.assume(ax)
        mk_world(p)
        p.w["__read"] = z3.IntVal(-1)
        trie = p.new_obj("LRUTrie", {})
        ls = p.new_obj("LinkStore", {})
        t = p.new_obj("Traph", {"lru_trie": trie, "link_store": ls})
        yield p, t, [], {"out": OUT, "include_auto": INCLUDE_AUTO}, "any"

    def on_yield(self, ex, p, v, ln, tag):
        if isinstance(v, Ref) and p.obj(v).f.get("done") is True:
            p.w["__final"] = p.obj(v).f.get("result")
        return [(p, "normal", None)]

    def check(self, ex, p0, res, tag):
        for p1, kind, val in res:
            if kind == "raise":
                ex.oblige(p1, "raises-nothing(%s)" % val[0], False, val[1])
                continue
            ex.oblige(p1, "finishes-with-the-graph", z3.BoolVal(isinstance(p1.w["__final"], Ref) and p1.w["__final"] == p1.env.get("graph")), None)


def install_slow(lib):
    lib.methods[("defaultdict", "__getitem__")] = graph_getitem
    lib.methods[("CounterHandle", "__getitem__")] = counter_getitem
    lib.methods[("CounterHandle", "__setitem__")] = slow_counter_setitem
    lib.map_store = slow_map_store
    lib.methods[("dict", "get")] = map_get
    key = "Traph.get_webentities_links_slow_iter::for#%d"
    lib.loop_spec(key % 0, LoopSpec(slow_items_inv, havoc=havoc2, world=("__mdom", "__mval", "__adds", "__read")))
    lib.loop_spec(key % 1, LoopSpec(slow_walk_inv, havoc=havoc2, world=("__mdom", "__mval", "__adds", "__read")))
    accs = [_acc("is_page", IS_PAGE), _acc("has_links", HAS_LINKS), _acc("links", LINKS_HEAD)]
    return [DfsCallee(), SlowWalk(), Scratch(), ScratchRead(), WindupBlock(), ShouldYield(), NetworkSlow()] + accs
