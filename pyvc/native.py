"""
pyvc.native — replay of a failed obligation on the REAL code.

When the verifier refutes an obligation of one of the functions below, the contract's
postcondition is re-stated here in plain Python and the real function (imported from the
tree under verification) is run natively on a small targeted input space around the
counter-model; the first input whose observed behaviour contradicts the contract is the
replay input of the VIOLATION.  (For the data-structure functions the concrete input
comes from the bounded stand-in instead.)
"""
import itertools
import warnings

warnings.simplefilter("ignore")


def _chunks_spec(n, s, got):
    k = 1 if len(s) <= n else -(-len(s) // n)
    exp = [(i == k - 1, s[n * i : n * i + n]) for i in range(k)]
    return got == exp, exp


def search_detailed_chunks_iter(mod):
    f = mod["traph.helpers"].detailed_chunks_iter
    for n in (1, 2, 3, 74):
        for L in list(range(0, 4 * n + 2)) if n <= 3 else [0, 1, 73, 74, 75, 147, 148, 149, 221, 222, 223]:
            s = bytes(65 + (i % 26) for i in range(L))
            try:
                got = [tuple(x) for x in f(n, s)]
            except Exception as e:
                return {"input": {"chunk_size": n, "string": repr(s)}, "observed": "raised %r" % (e,), "expected": "no exception"}
            ok, exp = _chunks_spec(n, s, got)
            if not ok:
                return {"input": {"chunk_size": n, "string": repr(s)}, "observed": repr(got)[:400], "expected": repr(exp)[:400]}
    return None


def search_https_variation(mod):
    f = mod["traph.helpers"].https_variation
    stems = [b"s:http|", b"s:https|", b"s:ftp|", b"h:com|", b"h:s:http|", b"p:s:https|", b"p:x|"]
    for k in range(0, 4):
        for tup in itertools.product(stems, repeat=k):
            lru = b"".join(tup)
            try:
                got = f(lru)
            except Exception as e:
                return {"input": {"lru": repr(lru)}, "observed": "raised %r" % (e,), "expected": "no exception"}
            if lru.startswith(b"s:http|"):
                exp = b"s:https|" + lru[7:]
            elif lru.startswith(b"s:https|"):
                exp = b"s:http|" + lru[8:]
            else:
                exp = None
            if got != exp:
                return {"input": {"lru": repr(lru)}, "observed": repr(got), "expected": repr(exp)}
    return None


def search_lru_variations(mod):
    f = mod["traph.helpers"].lru_variations
    stems = [b"s:http|", b"s:https|", b"t:80|", b"h:com|", b"h:www|", b"h:a|", b"p:x|", b"p:h:www|"]
    for k in range(0, 5):
        for tup in itertools.product(stems, repeat=k):
            lru = b"".join(tup)
            try:
                got = f(lru)
            except Exception as e:
                return {"input": {"lru": repr(lru)}, "observed": "raised %r" % (e,), "expected": "no exception"}
            if not (isinstance(got, list) and 1 <= len(got) <= 4 and got[0] == lru):
                return {"input": {"lru": repr(lru)}, "observed": repr(got)[:300], "expected": "a list of 1..4 entries starting with the input"}
    return None


def search_base4_append(mod):
    f = mod["traph.helpers"].base4_append
    for p in (0, 1, 5, 63, 64, 10 ** 9):
        for n in (1, 2, 3):
            if f(p, n) != 4 * p + n:
                return {"input": {"p": p, "n": n}, "observed": f(p, n), "expected": 4 * p + n}
    return None


def search_rules_to_apply(mod):
    H = mod["traph.lru_trie.walk_history"].LRUTrieWalkHistory
    lrus = [b"", b"a|", b"a|b|", b"a|b|c|"]
    for lru in lrus:
        cuts = [i + 1 for i in range(len(lru)) if lru[i : i + 1] == b"|"] or [0]
        for k in range(0, 3):
            for pos in itertools.product(cuts + [0], repeat=k):
                h = H(lru)
                for x in pos:
                    h.add_webentity_creation_rule(x)
                try:
                    got = list(h.rules_to_apply())
                except Exception as e:
                    return {"input": {"lru": repr(lru), "positions": list(pos)}, "observed": "raised %r" % (e,), "expected": "no exception"}
                exp = [lru[0:x] for x in reversed(pos)]
                if got != exp:
                    return {"input": {"lru": repr(lru), "positions": list(pos)}, "observed": repr(got), "expected": repr(exp)}
    return None


def search_set_stem(mod):
    N = mod["traph.lru_trie.node"]
    for L in (0, 1, 73, 74, 75, 76, 148, 149, 222, 223):
        s = bytes(65 + (i % 26) for i in range(L))
        n = N.LRUTrieNode(None, stem=s)
        obs = (n.data[0], n.tail, n.has_tail(), n.stem())
        exp = (s[:74], s[74:], L > 74, s)
        if obs != exp:
            return {"input": {"stem_length": L}, "observed": repr(obs)[:300], "expected": repr(exp)[:300]}
    return None


def search_flags(mod):
    N = mod["traph.lru_trie.node"]
    for name, fn, val in (("flag", N.flag, 1), ("unflag", N.unflag, 0)):
        for v in (0, 1, 128, 255, 0b10101010):
            for pos in range(8):
                d = [b"", v]
                fn(d, 1, pos)
                exp = (v | (1 << pos)) if val else (v & ~(1 << pos) & 255)
                if d[1] != exp or N.test(d, 1, pos) != bool(val):
                    return {"input": {"function": name, "flags": v, "pos": pos}, "observed": d[1], "expected": exp}
    return None


def search_lru_iter(mod):
    f = mod["traph.helpers"].lru_iter
    alpha = [b"|", b"a", b"\x00", b"\xff"]
    # every byte value inside a stem, then every short string over a small alphabet
    cases = [b"p:" + bytes([b]) + b"x|q" + bytes([b]) + b"|" for b in range(256) if b != 0x7C]
    cases += [b"".join(tup) for k in range(0, 6) for tup in itertools.product(alpha, repeat=k)]
    for s in cases:
        if True:
            try:
                got = list(f(s))
            except Exception as e:
                return {"input": {"lru": repr(s)}, "observed": "raised %r" % (e,), "expected": "no exception"}
            exp = [x + b"|" for x in s.split(b"|")[:-1]]
            if got != exp:
                return {"input": {"lru": repr(s)}, "observed": repr(got), "expected": repr(exp)}
    return None


def search_lru_dirname(mod):
    f = mod["traph.helpers"].lru_dirname
    stems = [b"a|", b"s:http|", b"\x00|", b"|", b"h:com|"]
    for k in range(0, 5):
        for tup in itertools.product(stems, repeat=k):
            s = b"".join(tup)
            try:
                got = f(s)
            except Exception as e:
                return {"input": {"lru": repr(s)}, "observed": "raised %r" % (e,), "expected": "no exception"}
            pieces = [x + b"|" for x in s.split(b"|")[:-1]]
            exp = b"".join(pieces[:-1])
            if got != exp:
                return {"input": {"lru": repr(s)}, "observed": repr(got), "expected": repr(exp)}
    return None


def search_header_init(mod):
    """LRUTrieHeader(storage) on an existing store leaves block 0 alone and loads it
    (whatever version string it holds); on an empty store it writes a zero header"""
    import importlib
    import struct

    H = importlib.import_module("traph.lru_trie.header")
    M = importlib.import_module("traph.storage.memory").MemoryStorage
    for ver in (b"0.0.0", b"9.9.9-old", None):
        for last in (0, 1, 5, 300, 2 ** 32 - 2):
            st = M(128)
            if ver is not None:
                st.write(struct.pack(H.LRU_TRIE_HEADER_FORMAT, last, ver))
                st.write(struct.pack("75pBI6Q", b"a|", 0, 0, 0, 0, 0, 0, 0, 0))
            before = bytes(st.array)
            try:
                h = H.LRUTrieHeader(st)
            except Exception as e:
                return {"input": {"stored_version": repr(ver), "stored_last_id": last}, "observed": "raised %r" % (e,), "expected": "no exception"}
            after = bytes(st.array)
            if ver is not None:
                if after != before:
                    return {"input": {"stored_version": repr(ver), "stored_last_id": last}, "observed": "block 0 rewritten on open: %r -> %r" % (before[:20], after[:20]), "expected": "store untouched"}
                if h.last_webentity_id() != last:
                    return {"input": {"stored_version": repr(ver), "stored_last_id": last}, "observed": "loaded counter %r" % (h.last_webentity_id(),), "expected": last}
            else:
                if len(after) != 128 or h.last_webentity_id() != 0 or struct.unpack(H.LRU_TRIE_HEADER_FORMAT, after)[0] != 0:
                    return {"input": {"store": "empty"}, "observed": "%d bytes, counter %r" % (len(after), h.last_webentity_id()), "expected": "one zero header block"}
                break
    return None


def search_add_page_ladder(mod):
    """Traph.__add_page against the statement of C06 on a few rule configurations"""
    import re
    import shutil
    import tempfile

    T = mod["traph.traph"].Traph
    rules_sets = [
        {b"s:http|h:com|": b"(s:[a-z]+\\|h:com\\|(h:[^|]+\\|)+)", b"s:http|h:com|h:a|": b"(s:[a-z]+\\|h:com\\|h:a\\|p:[^|]+\\|)"},
        {b"s:http|": b"(s:[a-z]+\\|h:[^|]+\\|)", b"s:http|h:com|h:a|p:x|": b"(s:http\\|h:com\\|h:a\\|p:x\\|)"},
    ]
    pages = [b"s:http|h:com|h:a|", b"s:http|h:com|h:a|p:x|", b"s:http|h:com|h:a|p:x|p:y|", b"s:http|h:com|", b"s:http|h:fr|h:b|p:z|"]
    pre_sets = [[], [b"s:http|h:com|h:a|"], [b"s:http|h:com|h:a|p:x|"], [b"s:http|h:com|"]]
    for rules in rules_sets:
        for pre in pre_sets:
            for default in (b"$^", b"(s:[a-z]+\\|(h:[^|]+\\|)+)"):
                for page in pages:
                    d = tempfile.mkdtemp(prefix="vreplay")
                    try:
                        t = T(folder=d, default_webentity_creation_rule=default, webentity_creation_rules=dict(rules))
                        for x in pre:
                            try:
                                t.create_webentity([x])
                            except Exception:
                                pass
                        # E: longest existing webentity prefix; K: longest proposal of the rules anchored on stem-prefixes
                        node, hist = t.lru_trie.follow_lru(page)
                        stems = list(mod["traph.helpers"].lru_iter(page))
                        prefs = [b"".join(stems[: i + 1]) for i in range(len(stems))]
                        E = b""
                        for pf in prefs:
                            n2 = t.lru_trie.lru_node(pf)
                            if n2 and n2.has_webentity():
                                E = pf
                        K = b""
                        for pf in prefs:
                            if pf in rules:
                                m = re.compile(rules[pf], re.I).search(page)
                                if m and len(m.group()) > len(K):
                                    K = m.group()
                        if not K and not E:
                            m = re.compile(default, re.I).search(page)
                            K = m.group() if m else b""
                        report = t.add_page(page)
                        created = bool(report.created_webentities)
                        exp = len(K) > len(E)
                        t.close()
                        if created != exp:
                            return {"input": {"rules": repr(rules), "existing": repr(pre), "default": repr(default), "page": repr(page)}, "observed": "created=%r" % created, "expected": "created=%r (E=%r, K=%r)" % (exp, E, K)}
                    finally:
                        shutil.rmtree(d, ignore_errors=True)
    return None


SEARCHES = {
    "lru_iter": search_lru_iter,
    "lru_dirname": search_lru_dirname,
    "LRUTrieHeader.__init__": search_header_init,
    "Traph.__add_page": search_add_page_ladder,
    "detailed_chunks_iter": search_detailed_chunks_iter,
    "https_variation": search_https_variation,
    "lru_variations": search_lru_variations,
    "base4_append": search_base4_append,
    "LRUTrieWalkHistory.rules_to_apply": search_rules_to_apply,
    "LRUTrieNode.set_stem": search_set_stem,
}
for _n in ("flag_as_page", "unflag_as_page", "flag_as_crawled", "unflag_as_crawled", "flag_as_webentity_creation_rule", "unflag_as_webentity_creation_rule", "flag_as_having_tail", "flag_can_have_child_webentities"):
    SEARCHES["LRUTrieNode." + _n] = search_flags


def replay(qual, repo):
    """-> None, or {"input", "observed", "expected"} : a concrete input on which the
    real function of `repo` contradicts its contract"""
    fn = SEARCHES.get(qual)
    if fn is None:
        return None
    import importlib
    import sys

    if repo not in sys.path:
        sys.path.insert(0, repo)
    mods = {}
    for m in ("traph.helpers", "traph.lru_trie.node", "traph.lru_trie.walk_history"):
        mods[m] = importlib.import_module(m)
    try:
        mods["traph.traph"] = importlib.import_module("traph.traph")
    except Exception:  # third-party imports of the facade unavailable under this interpreter
        pass
    try:
        return fn(mods)
    except Exception as e:  # the real function crashed outside the searched contract
        return {"input": "search aborted", "observed": "raised %r" % (e,), "expected": "no exception"}
