#!/bin/bash
# runs every seeded change against the check of the property it breaks; prints one line per seed
cd /verif
for d in ${SEEDS:-seeded/S-* seeded/T-* seeded/U-*}; do
  k=$(basename $d); prop=$(python3 -c "import json;print(json.load(open('$d/meta.json'))['breaks_property'])")
  out=$(tools/seedrun.sh $k $prop 2>&1)
  code=$(echo "$out" | head -1 | sed 's/.*exit=//')
  ded=$(grep -c "violation: obligation" /tmp/seedrun_${k}_${prop}.log)
  bnd=$(grep "violation:" /tmp/seedrun_${k}_${prop}.log | grep -vc "obligation")
  echo "$k $prop exit=$code deductive/static=$ded bounded=$bnd"
done
