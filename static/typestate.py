"""
Typestate contracts for cached trie nodes in traph/traph.py (DESIGN 2.4).

A cached LRUTrieNode object is a RAM copy of one block.  Its typestate is
  Fresh  - known to equal the stored block
  Stale  - something may have rewritten the block since it was read
Transfer functions (they are the callee contracts proved by pyvc):
  * results of add_lru / add_page / __add_page / lru_node / follow_lru / node(...) and
    the nodes yielded by the traversals are Fresh;
  * x.refresh() / x.read(..) make x Fresh;
  * x.write() and link_store.add_*links(x, ..) rewrite exactly x's block: x stays Fresh,
    other variables are unaffected (node.write's frame, contracts/node.py);
  * every other call that may reach a trie mutation (static.effects) makes every cached
    node Stale; so does a `yield`, and - in generator requests, where C16 treats every
    loop iteration as a yield point - every loop back-edge;
  * a node loaded from a container is Stale.
Obligations
  TS-W  at x.write() and at add_*links(x, ..): x is Fresh
  TS-S  structural setters (set_left/right/child/parent/set_stem) never appear in
        traph.py
Path-insensitive joins: Fresh only if Fresh on every incoming edge.  All paths, all
inputs; no SMT.
"""
import ast

FRESH_SOURCES = {"add_lru", "add_page", "lru_node", "follow_lru", "node", "root", "_Traph__add_page", "__add_page"}
TRAVERSALS = {"dfs_iter", "webentity_dfs_iter", "webentity_inorder_iter", "dfs_with_webentity_iter", "pages_iter", "webentity_prefix_iter", "nodes_iter", "node_parents_iter", "webentity_page_nodes_iter"}
STRUCTURAL = {"set_left", "set_right", "set_child", "set_parent", "set_stem"}
NODE_SETTERS = {"set_webentity", "unset_webentity", "flag_as_page", "flag_as_crawled", "flag_as_webentity_creation_rule", "unflag_as_webentity_creation_rule", "flag_can_have_child_webentities", "set_outlinks", "set_inlinks", "set_links", "unflag_as_page", "unflag_as_crawled"}
LINK_WRITERS = {"add_outlinks", "add_inlinks", "add_links"}


class TS(object):
    def __init__(self, program, effects):
        self.program = program
        self.writers = set(q.split(".")[-1] for q in effects.writers())
        self.writers |= {"_Traph__add_page"}
        self.map = {}
        self.returns = None
        self.fresh_methods = set()

    def record(self, ident, ok, detail):
        prev = self.map.get(ident)
        if prev is None or (prev["ok"] and not ok):
            self.map[ident] = {"id": ident, "ok": ok, "detail": detail}

    # ------------------------------------------------------------------
    def check_class(self, cname="Traph"):
        cls = self.program.classes[cname][1]
        # summaries: methods of the class that return a Fresh node (so that extracting
        # a helper does not change the verdict); two rounds reach the fixpoint for
        # helpers calling helpers
        self.fresh_methods = set()
        for _ in range(3):
            for f in cls.body:
                if isinstance(f, ast.FunctionDef):
                    self.summarise(cname, f)
        self.map = {}
        for f in cls.body:
            if isinstance(f, ast.FunctionDef):
                self.check_fn(cname, f)
        return [self.map[k] for k in sorted(self.map)]

    def summarise(self, cname, fn):
        self.q = "%s.%s" % (cname, fn.name)
        self.is_gen = any(isinstance(n, ast.Yield) for n in ast.walk(fn))
        self.is_request = False
        if self.is_gen:
            return
        self.returns = []
        st = {}
        self.block(fn.body, st)
        rets = self.returns
        self.returns = None
        if rets and all(r == "F" for r in rets):
            self.fresh_methods.add(fn.name)
            self.fresh_methods.add("_%s%s" % (cname, fn.name) if fn.name.startswith("__") else fn.name)

    def check_fn(self, cname, fn):
        self.q = "%s.%s" % (cname, fn.name)
        self.is_gen = any(isinstance(n, ast.Yield) for n in ast.walk(fn))
        self.is_request = self.is_gen and fn.name.endswith("_iter")
        for n in ast.walk(fn):
            if isinstance(n, ast.Call) and isinstance(n.func, ast.Attribute) and n.func.attr in STRUCTURAL:
                self.record("TS-S(%s:%d %s)" % (self.q, n.lineno, n.func.attr), False, "structural setter used outside lru_trie.py")
        state = {}
        self.block(fn.body, state)

    # state: var -> "F" | "S"     (absent = not a node)
    def join(self, a, b):
        out = {}
        for k in set(a) | set(b):
            if a.get(k) == "F" and b.get(k) == "F":
                out[k] = "F"
            elif k in a or k in b:
                out[k] = "S"
        return out

    def stale_all(self, st):
        for k in st:
            st[k] = "S"

    def block(self, stmts, st):
        for s in stmts:
            self.stmt(s, st)

    def stmt(self, s, st):
        if isinstance(s, ast.Assign):
            self.expr(s.value, st)
            self.assign(s.targets, s.value, st)
        elif isinstance(s, ast.AugAssign):
            self.expr(s.value, st)
        elif isinstance(s, ast.Expr):
            self.expr(s.value, st)
        elif isinstance(s, ast.Return):
            if s.value is not None:
                self.expr(s.value, st)
                if getattr(self, "returns", None) is not None:
                    v = s.value
                    if isinstance(v, ast.Tuple) and v.elts:
                        v = v.elts[0]
                    if isinstance(v, ast.Name) and v.id in st:
                        self.returns.append(st[v.id])
                    else:
                        self.returns.append("?")
        elif isinstance(s, ast.If):
            self.expr(s.test, st)
            a = dict(st)
            b = dict(st)
            self.block(s.body, a)
            self.block(s.orelse, b)
            st.clear()
            st.update(self.join(a, b))
        elif isinstance(s, (ast.For, ast.While)):
            if isinstance(s, ast.For):
                self.expr(s.iter, st)
            entry = dict(st)
            for _ in range(4):  # fixpoint (the lattice has height 2)
                cur = dict(entry)
                if self.is_request:
                    self.stale_all(cur)  # every loop iteration is a yield point (C16)
                if isinstance(s, ast.For):
                    self.bind_loop_target(s, cur)
                else:
                    self.expr(s.test, cur)
                self.block(s.body, cur)
                new_entry = self.join(entry, cur)
                if new_entry == entry:
                    break
                entry = new_entry
            # final pass records the obligations with the stable entry state
            cur = dict(entry)
            if self.is_request:
                self.stale_all(cur)
            if isinstance(s, ast.For):
                self.bind_loop_target(s, cur)
            st.clear()
            st.update(self.join(entry, cur))
        elif isinstance(s, ast.Try):
            self.block(s.body, st)
            for h in s.handlers:
                self.block(h.body, st)
        elif isinstance(s, (ast.Raise, ast.Pass, ast.Break, ast.Continue, ast.Assert, ast.FunctionDef, ast.Import, ast.ImportFrom, ast.Delete, ast.Global)):
            pass
        elif isinstance(s, ast.With):
            self.block(s.body, st)
        else:
            pass

    def bind_loop_target(self, s, st):
        it = s.iter
        fresh = False
        # iterating a container that only ever received Fresh nodes, with no possible
        # rewrite since
        if isinstance(it, ast.Call) and isinstance(it.func, ast.Attribute) and it.func.attr in ("items", "values") and isinstance(it.func.value, ast.Name) and st.get("@" + it.func.value.id) == "F":
            fresh = True
        if isinstance(it, ast.Call) and isinstance(it.func, ast.Attribute) and it.func.attr in TRAVERSALS:
            fresh = True
        if isinstance(it, ast.Name) and it.id == "generator":
            fresh = True
        names = [n.id for n in ast.walk(s.target) if isinstance(n, ast.Name)]
        for nm in names:
            if nm.startswith("node") or nm.endswith("_node") or nm in ("parent",):
                st[nm] = "F" if fresh else "S"

    def assign(self, targets, value, st):
        src = None
        if isinstance(value, ast.Dict) and not value.keys or (isinstance(value, ast.Call) and isinstance(value.func, ast.Name) and value.func.id in ("dict", "defaultdict") and not value.args):
            for t in targets:
                if isinstance(t, ast.Name):
                    st["@" + t.id] = "F"
        for t in targets:
            # container[k] = node
            if isinstance(t, ast.Subscript) and isinstance(t.value, ast.Name) and ("@" + t.value.id) in st:
                stored = [n.id for n in ast.walk(value) if isinstance(n, ast.Name) and n.id in st and not n.id.startswith("@")]
                if any(st[x] != "F" for x in stored):
                    st["@" + t.value.id] = "S"
        if isinstance(value, ast.Call) and isinstance(value.func, ast.Attribute):
            nm = value.func.attr
            if nm in FRESH_SOURCES or nm.endswith("__add_page") or nm in getattr(self, "fresh_methods", ()):
                src = "F"
        for t in targets:
            names = []
            if isinstance(t, ast.Name):
                names = [t.id]
            elif isinstance(t, (ast.Tuple, ast.List)):
                names = [e.id for e in t.elts if isinstance(e, ast.Name)]
            for nm in names:
                is_node_name = nm == "node" or nm.endswith("_node") or nm.startswith("node")
                if src == "F" and is_node_name:
                    st[nm] = "F"
                elif is_node_name:
                    # loaded from a container / copied from elsewhere
                    if isinstance(value, ast.Name) and value.id in st:
                        st[nm] = st[value.id]
                    else:
                        st[nm] = "S"

    def expr(self, e, st):
        """effects of evaluating e, in evaluation order (approximately: inner calls
        first)"""
        for n in self.calls_in_order(e):
            self.call(n, st)
        for n in ast.walk(e):
            if isinstance(n, (ast.Yield, ast.YieldFrom)):
                self.stale_all(st)

    def calls_in_order(self, e):
        out = []

        def rec(n):
            for c in ast.iter_child_nodes(n):
                rec(c)
            if isinstance(n, ast.Call):
                out.append(n)

        rec(e)
        return out

    def call(self, n, st):
        f = n.func
        if not isinstance(f, ast.Attribute):
            return
        nm = f.attr
        recv = f.value.id if isinstance(f.value, ast.Name) else None
        if nm in ("refresh", "read") and recv in st:
            st[recv] = "F"
            return
        if nm == "write" and recv is not None and (recv in st):
            ok = st[recv] == "F"
            self.record("TS-W(%s:%d %s.write())" % (self.q, n.lineno, recv), ok, None if ok else "the cached node may be stale here (no refresh since the last possible rewrite of its block / yield point)")
            return
        if nm in LINK_WRITERS and n.args and isinstance(n.args[0], ast.Name) and n.args[0].id in st:
            x = n.args[0].id
            ok = st[x] == "F"
            self.record("TS-W(%s:%d %s(%s, ...))" % (self.q, n.lineno, nm, x), ok, None if ok else "the cached node may be stale here")
            return
        if nm in NODE_SETTERS:
            return
        if nm == "update" and recv is not None and ("@" + recv) in st:
            stored = [x.id for a in n.args for x in ast.walk(a) if isinstance(x, ast.Name) and x.id in st and not x.id.startswith("@")]
            if any(st[x] != "F" for x in stored):
                st["@" + recv] = "S"
            return
        if nm in self.writers or nm.endswith("__add_page") or nm.endswith("__create_webentity") or nm.endswith("__add_prefixes"):
            self.stale_all(st)
