"""
pyvc.lib — contract registry, loop cutting, builtins and the trusted models of
external dependencies (struct codec A2, file objects / bytearray A5, math A4).
"""
import ast
import struct as _struct

import z3

from .sym import (
    BOOL,
    BV8,
    BYTES,
    INT,
    REAL,
    BoundBuiltin,
    ClassVal,
    DeadPath,
    FCtx,
    Func,
    ModuleVal,
    Ob,
    Obj,
    Opt,
    Path,
    Raw,
    Ref,
    Unsupported,
    bytes_val,
    fresh,
    bcat,
    blen,
    is_z3,
    list_elem,
    to_z3,
    zand,
    znot,
)
from .extract import ModuleFn
from .sym import ABSTRACT_BYTES, _ctr


class GenVal(object):
    """an un-started generator: consumed through its contract's sequence view"""

    def __init__(self, f, args, kw):
        self.f, self.args, self.kw = f, args, kw


class RangeVal(object):
    step = 1

    def __init__(self, lo, hi):
        self.lo, self.hi = lo, hi


class SeqView(object):
    """abstract finite sequence: n elements, elem(i) for 0 <= i < n"""

    def __init__(self, n, elem, facts=None):
        self.n, self.elem, self.facts = n, elem, facts or (lambda i: [])


class LoopSpec(object):
    """sidecar loop contract.
    inv(ex, p)      -> [(name, formula)]
    havoc(ex, p)    -> None : extra havoc (objects, world components, typed locals)
    locals          : names havocked with a fresh value of the same sort (auto-
                      detected scalars are added to it)
    """

    def __init__(self, inv, havoc=None, locals_=(), world=(), prune=None):
        self.inv, self.havoc, self.locals, self.world, self.prune = inv, havoc, tuple(locals_), tuple(world), prune


class Contract(object):
    qual = None

    def apply(self, ex, p, recv, args, kw, ln):
        raise NotImplementedError

    def has_apply(self):
        return type(self).apply is not Contract.apply

    def setups(self, ex):
        raise NotImplementedError

    def check(self, ex, p0, results, tag):
        raise NotImplementedError

    on_yield = None
    seq = None  # generator contracts: seq(ex, p, recv, args, kw, ln) -> (p, SeqView)


def loop_key(fctx, fn_node, st):
    loops = sorted([n for n in ast.walk(fn_node) if isinstance(n, (ast.For, ast.While))], key=lambda n: (n.lineno, n.col_offset))
    kind = "for" if isinstance(st, ast.For) else "while"
    k = [n for n in loops if isinstance(n, type(st))].index(st)
    return "%s::%s#%d" % (fctx.qual, kind, k)


def fresh_like(v, name):
    if isinstance(v, bool):
        return fresh(name, BOOL)
    if isinstance(v, int):
        return fresh(name, INT)
    if isinstance(v, bytes):
        return fresh(name, BYTES)
    if is_z3(v):
        return fresh(name, v.sort())
    if isinstance(v, Opt):
        return Opt(fresh(name + "_none", BOOL), fresh_like(v.val, name))
    if isinstance(v, tuple):
        return tuple(fresh_like(x, "%s_%d" % (name, i)) for i, x in enumerate(v))
    if v is None or isinstance(v, str):
        raise Unsupported("cannot havoc %s: it is %r at loop entry (give a typed havoc in the loop contract)" % (name, v))
    return v  # references keep their identity; object contents are havocked explicitly


class Lib(object):
    def __init__(self, program):
        self.program = program
        self.contracts = {}
        self.loops = {}
        self.methods = {}  # (cls, name) -> handler(ex, p, recv, args, kw, ln) for abstract objects
        self.fn_nodes = {}

    # ------------------------------------------------------------------ registry
    def register(self, c):
        self.contracts[c.qual] = c

    def lookup(self, qual):
        return self.contracts.get(qual)

    def loop_spec(self, key, spec):
        self.loops[key] = spec

    # ------------------------------------------------------------------ loops
    def loop(self, ex, st, p, fctx):
        fn_node = self.program.fns[fctx.qual].node if fctx.qual in self.program.fns else None
        if fn_node is None:
            # nested function: find by walking the parent
            parent = fctx.qual.rsplit(".", 1)[0]
            fn_node = [n for n in ast.walk(self.program.fns[parent].node) if isinstance(n, ast.FunctionDef) and n.name == fctx.qual.rsplit(".", 1)[1]][0]
        key = loop_key(fctx, fn_node, st)
        spec = self.loops.get(key)
        if isinstance(st, ast.For):
            out = []
            for p1, it in ex.ev(st.iter, p, fctx):
                out += self.for_loop(ex, st, p1, fctx, it, key, spec)
            return out
        if spec is None:
            return self.unroll_while(ex, st, p, fctx, key)
        return self.cut(ex, st, p, fctx, key, spec, cond=lambda q: ex.ev_cond(st.test, q, fctx), step=None, bind=None)

    def unroll_while(self, ex, st, p, fctx, key, limit=8):
        """a while loop without invariant: unrolled as long as its condition evaluates
        to a constant (e.g. the one-block header loops)"""
        paths = [(p, "normal", None)]
        results = []
        for _ in range(limit + 1):
            nxt = []
            for p1, kind, val in paths:
                for p2, c in ex.ev_cond(st.test, p1, fctx):
                    if len(p2.pc) != len(p1.pc):
                        raise Unsupported("no invariant for %s (condition is not constant)" % key)
                    if not c:
                        results.append((p2, "normal", None))
                        continue
                    for p3, k3, v3 in ex.block(st.body, p2, fctx):
                        if k3 in ("normal", "continue"):
                            nxt.append((p3, "normal", None))
                        elif k3 == "break":
                            results.append((p3, "normal", None))
                        else:
                            results.append((p3, k3, v3))
            paths = nxt
            if not paths:
                return results
        raise Unsupported("no invariant for %s (more than %d iterations)" % (key, limit))

    def for_loop(self, ex, st, p, fctx, it, key, spec):
        ln = st.lineno
        # concrete iterables: unroll
        items = None
        if isinstance(it, (tuple, bytes, str)):
            items = list(it)
        elif isinstance(it, Ref) and p.obj(it).cls == "list" and "items" in p.obj(it).f:
            items = list(p.obj(it).f["items"])
        elif isinstance(it, RangeVal) and isinstance(it.lo, int) and isinstance(it.hi, int):
            items = list(range(it.lo, it.hi, it.step))
        if items is not None and (spec is None or len(items) <= 1):
            if len(items) > 64:
                raise Unsupported("unrolling %d iterations at %s" % (len(items), key))
            paths = [(p, "normal", None)]
            results = []
            for x in items:
                nxt = []
                for p1, kind, val in paths:
                    if kind != "normal":
                        results.append((p1, kind, val))
                        continue
                    p2 = p1.fork()
                    p2 = ex.assign(st.target, x, p2, fctx, ln)
                    for p3, k3, v3 in ex.block(st.body, p2, fctx):
                        if k3 in ("normal", "continue"):
                            nxt.append((p3, "normal", None))
                        elif k3 == "break":
                            results.append((p3, "normal", None))
                        else:
                            results.append((p3, k3, v3))
                paths = nxt
            return results + paths
        if isinstance(it, GenVal) and (self.lookup(it.f.qual) is None or self.lookup(it.f.qual).seq is None):
            return self.for_over_inlined_generator(ex, st, p, fctx, it)
        if spec is None:
            raise Unsupported("no invariant for %s" % key)
        # symbolic iteration: a hidden index over a sequence view
        if isinstance(it, RangeVal):
            lo, hi = to_z3(it.lo), to_z3(it.hi)
            st_ = it.step
            if st_ == 1:
                view = SeqView(z3.If(hi > lo, hi - lo, 0), lambda i: lo + i)
            else:
                view = SeqView(z3.If(hi > lo, (hi - lo + (st_ - 1)) / st_, 0), lambda i: lo + st_ * i)
        else:
            p, view = self.seq_of(ex, it, p, fctx, ln)
        idx = "__i%d" % st.lineno
        p = p.fork()
        p.env[idx] = 0
        n = view.n

        def cond(q):
            i = to_z3(q.env[idx])
            return ex.branch(q, i < n)

        def bind(q):
            i = to_z3(q.env[idx])
            for f in view.facts(i):
                q.assume(f)
            return ex.assign(st.target, view.elem(i), q, fctx, ln)

        def step(q):
            q.env[idx] = to_z3(q.env[idx]) + 1

        def auto_inv(q):
            i = to_z3(q.env[idx])
            return [("index-range", z3.And(i >= 0, i <= n))]

        return self.cut(ex, st, p, fctx, key, spec, cond, step, bind, extra_locals=(idx,), auto_inv=auto_inv, index_name=idx)

    def for_over_inlined_generator(self, ex, st, p, fctx, gen):
        """`for x in g(...): body` where g has no sequence contract: g's real body is
        executed and the consumer's body runs at every `yield` (the loops of g are cut at
        g's own loop contracts, whose invariants may depend on the consumer: ex.fn).
        `break` / `return` of the consumer leave g as the kinds xbreak / xreturn."""
        f = gen.f
        q = p.fork()
        saved_env = q.env
        try:
            env = ex.bind(f, gen.args, gen.kw, q)
        except Exception as e:
            raise Unsupported("binding generator %s: %s" % (f.qual, e))
        consumer_env = dict(saved_env)

        def on_yield(ex_, q1, v, ln):
            genv = q1.env
            q1.env = dict(q1.w.pop("__consumer_env"))
            q1 = ex_.assign(st.target, v, q1, fctx, ln)
            out = []
            for q2, kind, val in ex_.block(st.body, q1, fctx):
                cenv = q2.env
                q2.w["__consumer_env"] = cenv
                q2.env = genv
                if kind in ("normal", "continue"):
                    out.append((q2, "normal", None))
                elif kind == "break":
                    out.append((q2, "xbreak", None))
                elif kind == "return":
                    out.append((q2, "xreturn", val))
                else:
                    out.append((q2, kind, val))
            return out

        q.w["__consumer_env"] = consumer_env
        q.w["__consumer_assigned"] = sorted(set(n.id for stm in st.body for n in ast.walk(stm) if isinstance(n, ast.Name) and isinstance(n.ctx, ast.Store)) | set(n.id for n in ast.walk(st.target) if isinstance(n, ast.Name)))
        q.env = env
        sub = FCtx(f.qual, f.module, f.cls, on_yield=on_yield)
        ex.inline_depth += 1
        try:
            res = ex.block(f.node.body, q, sub)
        finally:
            ex.inline_depth -= 1
        out = []
        for q2, kind, val in res:
            cenv = q2.w.pop("__consumer_env")
            q2.w.pop("__consumer_assigned", None)
            q2.env = cenv
            if kind in ("normal", "return", "xbreak"):
                out.append((q2, "normal", None))
            elif kind == "xreturn":
                out.append((q2, "return", val))
            else:
                out.append((q2, kind, val))
        return out

    def seq_of(self, ex, it, p, fctx, ln):
        if isinstance(it, Ref):
            o = p.obj(it)
            if o.cls == "list" and "iter_hook" in o.f:
                return o.f["iter_hook"](ex, p, it, ln)
            if o.cls == "list" and "len" in o.f:
                return p, SeqView(o.f["len"], list_elem(o), o.f.get("facts"))
            h = self.methods.get((o.cls, "__iter__"))
            if h:
                return h(ex, p, it, ln)
        if isinstance(it, GenVal):
            c = self.lookup(it.f.qual)
            if c is not None and c.seq is not None:
                ex.stats["contracts_used"].add(it.f.qual)
                return c.seq(ex, p, it.f.recv, it.args, it.kw, ln)
            raise Unsupported("iteration over generator %s without a sequence contract" % it.f.qual)
        if isinstance(it, SeqView):
            return p, it
        h = self.methods.get((type(it).__name__, "__iter__"))
        if h:
            return h(ex, p, it, ln)
        raise Unsupported("iteration over %r line %s" % (it, ln))

    def cut(self, ex, st, p, fctx, key, spec, cond, step, bind, extra_locals=(), auto_inv=None, index_name=None):
        ln = st.lineno

        def invs(q):
            out = list(spec.inv(ex, q))
            if auto_inv:
                out += auto_inv(q)
            return out

        # 1. the invariant holds on entry
        for nm, f in invs(p):
            ex.oblige(p, "%s:entry:%s" % (key, nm), f, ln, "loop")
        # 2. havoc everything the loop may modify
        h = p.fork()
        assigned = set()
        for n in ast.walk(st):
            if isinstance(n, ast.Name) and isinstance(n.ctx, ast.Store):
                assigned.add(n.id)
        names = (set(spec.locals) | assigned | set(extra_locals))
        for nm in sorted(names):
            if nm in h.env:
                if nm in spec.locals or nm in extra_locals or not isinstance(h.env[nm], Ref):
                    try:
                        h.env[nm] = fresh_like(h.env[nm], nm)
                    except Unsupported:
                        if spec.havoc is None:
                            raise
        if "__consumer_env" in h.w:
            # the loop belongs to a generator inlined into a for statement: the
            # consumer's body runs at each yield and may assign its own locals
            cenv = dict(h.w["__consumer_env"])
            for nm in h.w.get("__consumer_assigned", ()):
                if nm in cenv and not isinstance(cenv[nm], Ref):
                    cenv[nm] = fresh_like(cenv[nm], nm)
            h.w["__consumer_env"] = cenv
        for k in spec.world:
            h.w[k] = fresh(k, h.w[k].sort())
        if spec.havoc:
            spec.havoc(ex, h)
        if spec.world and spec.prune:
            spec.prune(h)
        h.mut += 1
        for nm, f in invs(h):
            h.assume(f)
        out = []
        # 3. one arbitrary iteration
        for q, c in cond(h):
            if not c:
                out.append((q, "normal", None))
                continue
            if bind:
                q = bind(q.fork())
            for q1, kind, val in ex.block(st.body, q, fctx):
                if kind in ("normal", "continue"):
                    q1 = q1.fork()
                    if step:
                        step(q1)
                    for nm, f in invs(q1):
                        ex.oblige(q1, "%s:preserved:%s" % (key, nm), f, ln, "loop")
                elif kind == "break":
                    out.append((q1, "normal", None))
                else:
                    out.append((q1, kind, val))
        if getattr(st, "orelse", None):
            raise Unsupported("loop else")
        return out

    # ------------------------------------------------------------------ generators
    def generator_call(self, ex, f, args, kw, p, ln):
        return [(p, GenVal(f, args, kw))]

    def genexp(self, ex, e, p, fctx, as_list=False):
        """(f(x) for x in xs) over a concrete or abstract sequence, single generator,
        no condition: mapped element-wise"""
        if len(e.generators) != 1 or e.generators[0].ifs and not as_list:
            raise Unsupported("generator expression shape")
        g = e.generators[0]
        ((p, it),) = ex.ev(g.iter, p, fctx)
        items = None
        if isinstance(it, Ref) and p.obj(it).cls == "list" and "items" in p.obj(it).f:
            items = p.obj(it).f["items"]
        elif isinstance(it, (tuple,)):
            items = list(it)
        if items is not None:
            vals = []
            for x in items:
                q = p.fork()
                q = ex.assign(g.target, x, q, fctx, e.lineno)
                keep = True
                for cnd in g.ifs:
                    ((q, c),) = ex.ev_cond(cnd, q, fctx)
                    keep = keep and c
                if not keep:
                    continue
                ((q, v),) = ex.ev(e.elt, q, fctx)
                if q.mut != p.mut:
                    raise Unsupported("side effect in comprehension")
                vals.append(v)
            p = p.fork()
            return [(p, p.new_obj("list", {"items": vals}))]
        p, view = self.seq_of(ex, it, p, fctx, e.lineno)
        if g.ifs:
            # [x for x in xs if P(x)] over an abstract sequence: an abstract list of
            # unknown length 0..len(xs) whose elements all satisfy P (order and
            # multiplicity forgotten: sound for exception-freedom and length facts)
            if not (isinstance(e.elt, ast.Name) and isinstance(g.target, ast.Name) and e.elt.id == g.target.id):
                raise Unsupported("filtered comprehension with a non-identity element")
            m = fresh("nfiltered", INT)
            p = p.fork()
            p.assume(z3.And(m >= 0, m <= view.n))
            el = z3.Function("filtered!%d" % id(e), INT, BYTES)

            def facts(i, g=g, el=el):
                q = p.fork()
                q = ex.assign(g.target, el(i), q, fctx, e.lineno)
                out = []
                for cnd in g.ifs:
                    ((q2, v),) = ex.ev(cnd, q, fctx)
                    out.append(to_z3(ex.truth(v, q2)))
                return out

            return [(p, p.new_obj("list", {"len": m, "elem": lambda i, el=el: el(i), "facts": facts}))]

        def elem(i, view=view):
            q = p.fork()
            # an element only exists inside the sequence: its index is in range and the
            # view's own facts about it hold
            iz = to_z3(i)
            q.assume(z3.And(iz >= 0, iz < to_z3(view.n)))
            for f_ in view.facts(i):
                q.assume(f_)
            q = ex.assign(g.target, view.elem(i), q, fctx, e.lineno)
            ((q, v),) = ex.ev(e.elt, q, fctx)
            return v

        p = p.fork()
        return [(p, p.new_obj("list", {"len": view.n, "elem": elem}))]

    # ------------------------------------------------------------------ builtins
    def builtin(self, ex, name, args, kw, p, fctx, ln):
        if name == "len":
            (v,) = args
            return [(p, self.length(ex, v, p, ln))]
        if name == "bool":
            (v,) = args
            return [(p, ex.truth(v, p))]
        if name == "int":
            (v,) = args
            if isinstance(v, bool):
                return [(p, int(v))]
            if isinstance(v, int):
                return [(p, v)]
            if is_z3(v) and v.sort() == INT:
                return [(p, v)]
            if is_z3(v) and v.sort() == REAL:
                # int() truncates toward zero; obligation: non-negative, then floor
                ex.oblige(p, "int-of-nonnegative-real", v >= 0, ln, "safety")
                return [(p, z3.ToInt(v))]
            if is_z3(v) and v.sort() == BOOL:
                return [(p, z3.If(v, 1, 0))]
            from fractions import Fraction

            if isinstance(v, Fraction):
                return [(p, int(v))]
            raise Unsupported("int(%r) line %s" % (v, ln))
        if name == "float":
            (v,) = args
            if isinstance(v, int):
                from fractions import Fraction

                return [(p, Fraction(v))]
            if is_z3(v) and v.sort() == INT:
                return [(p, z3.ToReal(v))]  # A4: exact rational arithmetic
            raise Unsupported("float(%r)" % (v,))
        if name == "range":
            if len(args) == 1:
                return [(p, RangeVal(0, args[0]))]
            if len(args) == 2:
                return [(p, RangeVal(args[0], args[1]))]
            if len(args) == 3 and isinstance(args[2], int) and args[2] > 0:
                r = RangeVal(args[0], args[1])
                r.step = args[2]
                return [(p, r)]
            raise Unsupported("range with a symbolic or non-positive step line %s" % ln)
        if name == "list":
            if not args:
                p = p.fork()
                return [(p, p.new_obj("list", {"items": []}))]
            (v,) = args
            if isinstance(v, tuple):
                p = p.fork()
                return [(p, p.new_obj("list", {"items": list(v)}))]
            if isinstance(v, Ref) and p.obj(v).cls == "list":
                p = p.fork()
                return [(p, p.new_obj("list", dict(p.obj(v).f)))]
            p2, view = self.seq_of(ex, v, p, fctx, ln)
            p2 = p2.fork()
            flds = {"len": view.n, "elem": view.elem, "facts": view.facts}
            if getattr(view, "joinpre", None) is not None:
                flds["joinpre"] = view.joinpre  # joinpre(k) = concatenation of the first k elements
            return [(p2, p2.new_obj("list", flds))]
        if name == "tuple":
            (v,) = args
            return [(p, tuple(ex.iter_concrete(v, p)))]
        if name == "reversed":
            (v,) = args
            if isinstance(v, Ref) and "items" in p.obj(v).f:
                return [(p, tuple(reversed(p.obj(v).f["items"])))]
            if isinstance(v, Ref) and "len" in p.obj(v).f:
                o = p.obj(v)
                n, el = o.f["len"], list_elem(o)
                return [(p, SeqView(n, lambda i, n=n, el=el: el(n - 1 - i)))]
            raise Unsupported("reversed of a symbolic list")
        if name == "bytearray":
            p = p.fork()
            return [(p, p.new_obj("bytearray", {"content": bytes_val(b"")}))]
        if name == "isinstance":
            v, t = args
            if isinstance(t, ClassVal) and t.name == "bytes":
                if isinstance(v, bytes) or (is_z3(v) and v.sort() == BYTES):
                    return [(p, True)]
                if isinstance(v, str):
                    return [(p, False)]
            if isinstance(t, ClassVal) and t.name == "dict":
                if isinstance(v, Ref) and p.obj(v).cls in ("dict", "record"):
                    return [(p, True)]
            raise Unsupported("isinstance(%r, %r)" % (v, t))
        if name in ("set", "dict"):
            p = p.fork()
            return [(p, self.new_map(ex, p, name))]
        raise Unsupported("builtin %s line %s" % (name, ln))

    def length(self, ex, v, p, ln):
        if isinstance(v, Opt):
            v = ex.unwrap(v, p, "len()", ln)
        if isinstance(v, (bytes, str, tuple)):
            return len(v)
        if is_z3(v) and v.sort() == BYTES:
            return blen(v)
        if isinstance(v, Ref):
            o = p.obj(v)
            if o.cls == "list":
                return ex.list_len(o)
            if o.cls == "bytearray":
                return z3.Length(o.f["content"])
            if o.cls in ("set", "dict", "Counter"):
                return o.f["n"]
            if o.cls == "bag":
                return o.f["n"]
            h = self.methods.get((o.cls, "__len__"))
            if h:
                ((p2, r),) = h(ex, p, v, [], {}, ln)
                return r
            fn = self.program.find_method(o.cls, "__len__")
            if fn is not None:
                res = ex.call_func(Func(fn.qual, fn.node, fn.module, cls=fn.cls, recv=v), [], {}, p, ln)
                if len(res) == 1 and res[0][0].mut == p.mut:
                    return res[0][1]
                raise Unsupported("__len__ with side effects")
        raise Unsupported("len(%r) line %s" % (v, ln))

    # ------------------------------------------------------------------ maps / sets / counters (integer keys)
    def new_map(self, ex, p, kind):
        dom = z3.K(INT, z3.BoolVal(False))
        val = z3.K(INT, z3.IntVal(0))
        return p.new_obj(kind, {"dom": dom, "val": val, "n": z3.IntVal(0)})

    def _key(self, k):
        if isinstance(k, Opt):
            raise Unsupported("optional key")
        return to_z3(k)

    def map_store(self, ex, p, ref, k, v, ln):
        o = p.obj(ref)
        if isinstance(k, Opt) or k is None:
            k = ex.unwrap(k, p, "map key", ln)
        kz = self._key(k)
        if kz.sort() != INT:
            raise Unsupported("map key sort")
        was = z3.Select(o.f["dom"], kz)
        o.f["n"] = z3.simplify(o.f["n"] + z3.If(was, 0, 1))
        o.f["dom"] = z3.Store(o.f["dom"], kz, z3.BoolVal(True))
        o.f["val"] = z3.Store(o.f["val"], kz, to_z3(v))
        p.mut += 1
        return p

    def map_load(self, ex, p, ref, k, ln):
        o = p.obj(ref)
        if isinstance(k, Opt) or k is None:
            k = ex.unwrap(k, p, "map key", ln)
        kz = self._key(k)
        if o.cls == "Counter":
            # Counter[k] is 0 for a missing key (and does not insert it)
            return z3.If(z3.Select(o.f["dom"], kz), z3.Select(o.f["val"], kz), 0)
        ex.oblige(p, "key-present", z3.Select(o.f["dom"], kz), ln, "safety")
        return z3.Select(o.f["val"], kz)

    def map_contains(self, ex, p, ref, k, ln):
        o = p.obj(ref)
        return z3.Select(o.f["dom"], self._key(k))

    def obj_binop(self, ex, p, op, l, r, ln):
        raise Unsupported("operator on objects line %s" % ln)

    # ------------------------------------------------------------------ methods of abstract / builtin objects
    def method(self, ex, recv, cls, name, args, kw, p, fctx, ln):
        h = self.methods.get((cls, name))
        if h:
            return h(ex, p, recv, args, kw, ln)
        o = p.obj(recv)
        if cls == "list":
            if name == "append":
                p = p.fork()
                o = p.obj(recv)
                if "items" in o.f:
                    o.f["items"].append(args[0])
                else:
                    h2 = o.f.get("on_append")
                    if "arr" in o.f:
                        n0 = o.f["len"]
                        o.f["arr"] = z3.Store(o.f["arr"], n0, to_z3(args[0]))
                        o.f["len"] = n0 + 1
                    elif h2 is None:
                        n0 = o.f["len"]
                        old = o.f["elem"]
                        v0 = args[0]
                        o.f["elem"] = lambda i, old=old, n0=n0, v0=v0: z3.If(i == n0, to_z3(v0), to_z3(old(i)))
                        o.f["len"] = n0 + 1
                    else:
                        h2(ex, p, o, args[0])
                p.mut += 1
                return [(p, None)]
            if name == "pop" and "items" in o.f:
                p = p.fork()
                o = p.obj(recv)
                if not o.f["items"]:
                    ex.oblige(p, "pop-from-nonempty", False, ln, "safety")
                    raise DeadPath()
                idx = args[0] if args else -1
                v = o.f["items"].pop(idx)
                p.mut += 1
                return [(p, v)]
            if name == "pop" and "len" in o.f:
                p = p.fork()
                o = p.obj(recv)
                n0 = o.f["len"]
                ex.oblige(p, "pop-from-nonempty", n0 >= 1, ln, "safety")
                if args and args[0] != -1:
                    raise Unsupported("pop at a position of an abstract list")
                v = list_elem(o)(n0 - 1)
                o.f["len"] = n0 - 1
                p.mut += 1
                return [(p, v)]
            if name == "reverse" and "items" in o.f:
                p = p.fork()
                p.obj(recv).f["items"].reverse()
                p.mut += 1
                return [(p, None)]
        if cls == "bag":
            # a work-list abstracted by the property every entry satisfies
            if name == "append":
                p = p.fork()
                o = p.obj(recv)
                for nm, f in o.f["phi"](ex, p, args[0]):
                    ex.oblige(p, "worklist-entry:" + nm, f, ln, "loop")
                o.f["n"] = o.f["n"] + 1
                p.mut += 1
                return [(p, None)]
            if name == "pop":
                p = p.fork()
                o = p.obj(recv)
                ex.oblige(p, "pop-from-nonempty", o.f["n"] >= 1, ln, "safety")
                e = o.f["mk"]()
                for nm, f in o.f["phi"](ex, p, e):
                    p.assume(f)
                o.f["n"] = o.f["n"] - 1
                p.mut += 1
                return [(p, e)]
        if cls == "bytearray":
            if name == "extend":
                p = p.fork()
                o = p.obj(recv)
                o.f["content"] = z3.Concat(o.f["content"], ex.bytes_of(args[0], p))
                p.mut += 1
                return [(p, None)]
        if cls == "file":
            return self.file_method(ex, recv, name, args, kw, p, ln)
        if cls in ("set",):
            if name == "add":
                p = p.fork()
                return [(self.map_store(ex, p, recv, args[0], 1, ln), None)]
        if cls == "dict" and name == "update" and len(args) == 1 and isinstance(args[0], Ref) and p.obj(args[0]).cls == "dict":
            # d.update(e), both maps over integer keys: union of the domains, e wins
            p = p.fork()
            o, e = p.obj(recv), p.obj(args[0])
            k = z3.Int("k!upd")
            empty = z3.is_const_array(o.f["dom"]) and z3.is_false(o.f["dom"].arg(0))
            if empty:
                o.f["dom"], o.f["val"], o.f["n"] = e.f["dom"], e.f["val"], e.f["n"]
            else:
                n = fresh("n_updated", INT)
                p.assume(z3.And(n >= o.f["n"], n >= e.f["n"], n <= o.f["n"] + e.f["n"]))
                d0, v0 = o.f["dom"], o.f["val"]
                o.f["dom"] = z3.Lambda([k], z3.Or(z3.Select(d0, k), z3.Select(e.f["dom"], k)))
                o.f["val"] = z3.Lambda([k], z3.If(z3.Select(e.f["dom"], k), z3.Select(e.f["val"], k), z3.Select(v0, k)))
                o.f["n"] = n
            p.mut += 1
            return [(p, None)]
        if cls in ("dict", "Counter"):
            if name == "get":
                kz = self._key(args[0])
                o = p.obj(recv)
                present = z3.Select(o.f["dom"], kz)
                return [(p, Opt(z3.Not(present), z3.Select(o.f["val"], kz)))]
        if cls == "record" and name == "items":
            return [(p, tuple(p.obj(recv).f["items"].items()))]
        raise Unsupported("method %s.%s line %s" % (cls, name, ln))

    def file_method(self, ex, recv, name, args, kw, p, ln):
        """sequential file model (assumption A5)"""
        p = p.fork()
        o = p.obj(recv)
        c, pos = o.f["content"], o.f["pos"]
        n = z3.Length(c)
        p.mut += 1
        if name == "seek":
            off = to_z3(ex.unwrap(args[0], p, "seek offset", ln))
            wh = args[1] if len(args) > 1 else 0
            if wh == 0:
                ex.oblige(p, "seek-nonnegative", off >= 0, ln, "safety")
                o.f["pos"] = off
            elif wh == 2:
                o.f["pos"] = n + off
            else:
                raise Unsupported("seek whence")
            return [(p, o.f["pos"])]
        if name == "tell":
            return [(p, pos)]
        if name == "read":
            k = to_z3(args[0])
            start = z3.If(pos > n, n, pos)
            avail = n - start
            m = z3.If(k < avail, k, avail)
            data = z3.Extract(c, start, m)
            o.f["pos"] = pos + m
            return [(p, data)]
        if name == "write":
            data = ex.bytes_of(args[0], p)
            ex.oblige(p, "write-within-or-at-end", pos <= n, ln, "safety")  # no sparse hole
            m = z3.Length(data)
            rest_start = z3.If(pos + m > n, n, pos + m)
            o.f["content"] = z3.Concat(z3.Extract(c, 0, pos), data, z3.Extract(c, rest_start, n - rest_start))
            o.f["pos"] = pos + m
            return [(p, m)]
        raise Unsupported("file.%s" % name)

    def value_method(self, ex, recv, name, args, kw, p, fctx, ln):
        if isinstance(recv, bytes) and name == "join":
            (v,) = args
            if isinstance(v, Ref):
                o = p.obj(v)
                if "items" in o.f:
                    acc = bytes_val(b"")
                    items = [to_z3(x) for x in o.f["items"]]
                    if recv == b"":
                        return [(p, bcat(*items) if items else acc)]
                if "join" in o.f and recv == b"":
                    return [(p, o.f["join"])]
                if "joinpre" in o.f and recv == b"":
                    return [(p, o.f["joinpre"](o.f["len"]))]
                if "len" in o.f:
                    return [(p, fresh("joined", BYTES))]  # abstract: contents forgotten
            raise Unsupported("join line %s" % ln)
        isb = isinstance(recv, bytes) or (is_z3(recv) and recv.sort() == BYTES)
        if isb and name == "split" and len(args) == 1:
            # trusted model (A5): a non-empty list of byte strings (contents abstract)
            n = fresh("nsplit", INT)
            p = p.fork()
            p.assume(n >= 1)
            el = z3.Function("split!%d" % next(_ctr), INT, BYTES)
            return [(p, p.new_obj("list", {"len": n, "elem": lambda i, el=el: el(i)}))]
        if isb and name == "replace":
            if len(args) == 3 and args[2] == 1 and not ABSTRACT_BYTES:
                return [(p, z3.Replace(to_z3(recv), to_z3(args[0]), to_z3(args[1])))]
            return [(p, fresh("replaced", BYTES))]
        if isinstance(recv, bytes) and name == "join" and isinstance(args[0], Ref) and "len" in p.obj(args[0]).f and "join" not in p.obj(args[0]).f:
            return [(p, fresh("joined", BYTES))]
        if (isinstance(recv, bytes) or (is_z3(recv) and recv.sort() == BYTES)) and name == "startswith":
            return [(p, z3.PrefixOf(to_z3(args[0]), to_z3(recv)))]
        if isinstance(recv, str) and name == "encode":
            return [(p, recv.encode(*args))]
        if isinstance(recv, dict) and name == "items":
            return [(p, tuple(recv.items()))]
        raise Unsupported("method %s of %r line %s" % (name, type(recv).__name__, ln))

    def module_call(self, ex, mod, name, args, kw, p, fctx, ln):
        if mod == "struct":
            if name == "calcsize":
                return [(p, _struct.calcsize(args[0]))]
            if name == "pack":
                fmt = args[0]
                return [(p, self.pack(ex, p, fmt, args[1:], ln))]
            if name == "unpack":
                fmt, raw = args
                raw = ex.unwrap(raw, p, "struct.unpack argument", ln)
                if not isinstance(raw, Raw):
                    raise Unsupported("struct.unpack of a non-block value")
                if raw.fmt != fmt:
                    ex.oblige(p, "unpack-format-matches", False, ln, "safety")
                    raise DeadPath()
                return [(p, tuple(raw.fields))]
        if mod == "math" and name == "ceil":
            (v,) = args
            from fractions import Fraction
            import math

            if isinstance(v, (int, Fraction)):
                return [(p, math.ceil(v))]
            if is_z3(v) and v.sort() == REAL:
                return [(p, -z3.ToInt(-v))]
            if is_z3(v) and v.sort() == INT:
                return [(p, v)]
        raise Unsupported("call %s.%s line %s" % (mod, name, ln))

    FORMATS = {
        "75pBI6Q": [("p", 74), ("B", 8), ("I", 32)] + [("Q", 64)] * 6,
        "QQ": [("Q", 64), ("Q", 64)],
        "I12p112x": [("I", 32), ("p", 11)],
        "12p4x": [("p", 11)],
    }

    def pack(self, ex, p, fmt, fields, ln):
        """struct codec (assumption A2): pack is injective on in-range field tuples and
        unpack is its inverse; out-of-range fields are *obligations* here (a pascal
        string longer than its slot would be silently truncated)"""
        spec = self.FORMATS.get(fmt)
        if spec is None:
            raise Unsupported("struct format %r" % fmt)
        if len(fields) != len(spec):
            ex.oblige(p, "pack-arity", False, ln, "safety")
            raise DeadPath()
        out = []
        for (k, w), v in zip(spec, fields):
            v = ex.unwrap(v, p, "struct.pack field", ln) if (isinstance(v, Opt) or v is None) else v
            if k == "p":
                vz = to_z3(v)
                if vz.sort() != BYTES:
                    ex.oblige(p, "pack-field-type", False, ln, "safety")
                    raise DeadPath()
                ex.oblige(p, "pack-pascal-string-fits(%d)" % w, blen(vz) <= w, ln, "safety")
                out.append(vz)
            else:
                vz = to_z3(v)
                if z3.is_bv_sort(vz.sort()):
                    if vz.sort().size() > w:
                        raise Unsupported("bitvector wider than field")
                    out.append(vz)
                else:
                    if vz.sort() == BOOL:
                        vz = z3.If(vz, 1, 0)
                    ex.oblige(p, "pack-integer-in-range(%s)" % k, z3.And(vz >= 0, vz < 2 ** w), ln, "safety")
                    out.append(vz)
        return Raw(fmt, out)
