"""
pyvc.extract — mechanical extraction of the functions under contract from /repo's
current working tree (re-done on every run).

What the extraction drops (assumption A8, identical on every run): docstrings, type
annotations, `__repr__` methods (never called by verified code), `warnings.warn(...)`
statements (no store effect).  Nothing else: the executor walks the unmodified AST of
each function body.
"""
import ast
import hashlib
import importlib
import os
import sys

from .sym import Func, ClassVal, ModuleVal

MODULES = [
    "traph.helpers",
    "traph.storage.file",
    "traph.storage.memory",
    "traph.storage.memmap",
    "traph.lru_trie.header",
    "traph.lru_trie.node",
    "traph.lru_trie.walk_history",
    "traph.lru_trie.lru_trie",
    "traph.link_store.header",
    "traph.link_store.node",
    "traph.link_store.link_store",
    "traph.traph_iterator_state",
    "traph.traph_write_report",
    "traph.traph",
]


class FnInfo(object):
    def __init__(self, qual, node, module, cls, src):
        self.qual, self.node, self.module, self.cls, self.src = qual, node, module, cls, src
        self.hash = hashlib.sha256(ast.dump(node, include_attributes=False).encode()).hexdigest()[:16]


class Program(object):
    def __init__(self, repo):
        self.repo = os.path.abspath(repo)
        if self.repo not in sys.path:
            sys.path.insert(0, self.repo)
        self.trees = {}
        self.mods = {}
        self.fns = {}  # qualname -> FnInfo    (Class.method or function)
        self.classes = {}  # class name -> (module, ClassDef)
        self.sources = {}
        for m in MODULES:
            path = os.path.join(self.repo, *m.split(".")) + ".py"
            src = open(path).read()
            self.sources[m] = src
            tree = ast.parse(src)
            self.trees[m] = tree
            for n in tree.body:
                if isinstance(n, ast.FunctionDef):
                    self.fns[n.name] = FnInfo(n.name, n, m, None, src)
                    self.fns[m + "." + n.name] = self.fns[n.name]
                elif isinstance(n, ast.ClassDef):
                    self.classes[n.name] = (m, n)
                    for f in n.body:
                        if isinstance(f, ast.FunctionDef):
                            q = "%s.%s" % (n.name, f.name)
                            self.fns[q] = FnInfo(q, f, m, n.name, src)

    def module(self, name):
        if name not in self.mods:
            # the real module, imported from the tree under verification: only its
            # module-level constants are read from it
            for k in [k for k in sys.modules if k == "traph" or k.startswith("traph.")]:
                f = getattr(sys.modules[k], "__file__", "") or ""
                if not os.path.abspath(f).startswith(self.repo):
                    del sys.modules[k]
            self.mods[name] = importlib.import_module(name)
        return self.mods[name]

    def find_method(self, cls, name):
        # private names arrive mangled (_Class__x); the definition is spelled __x
        raw = name
        pref = "_%s__" % cls
        if name.startswith(pref):
            raw = "__" + name[len(pref) :]
        return self.fns.get("%s.%s" % (cls, raw))

    def fn(self, qual):
        return self.fns[qual]

    def global_value(self, module, name):
        """value of a module-level name as the executor sees it"""
        if module in self.trees:
            mod = self.module(module)
        else:
            try:
                mod = importlib.import_module(module)
            except Exception:
                return NotImplemented
        if not hasattr(mod, name):
            return NotImplemented
        v = getattr(mod, name)
        if isinstance(v, (int, bool, bytes, str, float, type(None))):
            return v
        if isinstance(v, (tuple,)) and all(isinstance(x, (int, bytes, str)) for x in v):
            return v
        if isinstance(v, dict) and all(isinstance(k, (int, str, bytes)) and isinstance(x, (int, str, bytes)) for k, x in v.items()):
            return dict(v)
        if isinstance(v, type(os)):
            return ModuleVal(v.__name__)
        if isinstance(v, type):
            if v.__name__ in self.classes:
                return ClassVal(v.__name__, v.__name__)
            return ClassVal(v.__name__, v.__module__ + "." + v.__name__)
        if callable(v):
            q = getattr(v, "__name__", None)
            m = getattr(v, "__module__", None)
            if m in self.trees and (m + "." + q) in self.fns:
                fi = self.fns[m + "." + q]
                return Func(fi.qual, fi.node, fi.module)
            return ModuleFn(m, q)
        return NotImplemented


class ModuleFn(object):
    """a function of an external module bound to a global name (e.g. `from x import y`)"""

    def __init__(self, module, name):
        self.module, self.name = module, name
