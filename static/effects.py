"""
Effect (frame) contracts checked over a conservative, name-based call graph of the
package (DESIGN 2.4): a call `obj.m(...)` may reach every method named m defined in the
package, `f(...)` every function named f.  All paths, all inputs, no SMT needed: each
check below is an obligation with a name; a failing one names the offending chain.

  FR-RO(m)     read-only request m reaches no primitive mutation               (C14)
  FR-SHAPE     every storage.read/write/... call is accepted by the signature of
               every storage back-end                                           (C15)
  FR-STATE     instance attributes assigned outside constructors are the known,
               file-backed or per-request ones                                  (C11)
  FR-ID        only the id generator advances the persistent id counter, and it
               writes the header before returning                               (C12)
"""
import ast

# calls that mutate a store or a file, by attribute name
PRIMITIVE_WRITES = {"write", "extend", "truncate", "writelines"}
# Traph requests that are *meant* to write
WRITERS = {
    "__init__",
    "add_page",
    "add_pages",
    "add_links",
    "index_batch_crawl",
    "index_batch_crawl_iter",
    "add_webentity_creation_rule",
    "add_webentity_creation_rule_iter",
    "remove_webentity_creation_rule",
    "create_webentity",
    "delete_webentity",
    "add_prefix_to_webentity",
    "remove_prefix_from_webentity",
    "move_prefix_to_webentity",
    "move_prefix_to_webentity_from_webentity",
    "clear",
    "close",
}
ALLOWED_STATE = {
    "Traph": {"lru_trie_file", "link_store_file", "lru_trie", "link_store", "default_webentity_creation_rule", "webentity_creation_rules"},
    "MemoryStorage": {"array"},
    "FileStorage": set(),
    "MemMapStorage": set(),
    "LRUTrie": set(),
    "LinkStore": set(),
    "LRUTrieHeader": {"data"},
    "LinkStoreHeader": {"data"},
}
STORAGE_BACKENDS = {"read": ("FileStorage", "MemoryStorage", "MemMapStorage"), "write": ("FileStorage", "MemoryStorage"), "count_blocks": ("FileStorage", "MemoryStorage"), "__len__": ("FileStorage", "MemoryStorage")}


def _calls(fn):
    out = []
    for n in ast.walk(fn):
        if isinstance(n, ast.Call):
            if isinstance(n.func, ast.Attribute):
                out.append((n.func.attr, n))
            elif isinstance(n.func, ast.Name):
                out.append((n.func.id, n))
    return out


# receiver-name typing used to narrow the name-based call graph (an unknown receiver
# still reaches every method of that name)
RECV_TYPES = {
    "history": {"LRUTrieWalkHistory"},
    "state": {"TraphIteratorState"},
    "report": {"TraphWriteReport"},
    "header": {"LRUTrieHeader", "LinkStoreHeader"},
    "lru_trie": {"LRUTrie"},
    "link_store": {"LinkStore"},
    "store": {"LinkStore"},
    "storage": {"FileStorage", "MemoryStorage", "MemMapStorage"},
    "lru_trie_storage": {"FileStorage", "MemoryStorage"},
    "links_store_storage": {"FileStorage", "MemoryStorage"},
}


def _recv_classes(call, cls):
    f = call.func
    if not isinstance(f, ast.Attribute):
        return None
    r = f.value
    if isinstance(r, ast.Name):
        if r.id == "self":
            return {cls} if cls else None
        return RECV_TYPES.get(r.id)
    if isinstance(r, ast.Attribute):
        return RECV_TYPES.get(r.attr)
    return None


class Effects(object):
    def __init__(self, program):
        self.program = program
        self.fns = {q: fi for q, fi in program.fns.items() if "." not in q or q.split(".")[0] in program.classes}
        # name -> quals
        self.by_name = {}
        for q, fi in self.fns.items():
            if q.startswith("traph."):
                continue
            nm = q.split(".")[-1]
            self.by_name.setdefault(nm, set()).add(q)
        # classes instantiated by name
        self.direct = {}
        self.edges = {}
        for q, fi in self.fns.items():
            if q.startswith("traph."):
                continue
            d = set()
            e = set()
            for nm, call in _calls(fi.node):
                raw = nm
                if nm.startswith("__") and not nm.endswith("__") and fi.cls:
                    pass
                if nm in PRIMITIVE_WRITES:
                    d.add((nm, call.lineno))
                if nm in self.by_name:
                    cands = self.by_name[nm]
                    rc = _recv_classes(call, fi.cls)
                    if rc:
                        narrowed = set(c for c in cands if c.split(".")[0] in rc)
                        # private methods are spelled __x at the call site as well
                        if narrowed or all("." in c for c in cands):
                            cands = narrowed
                    e |= cands
                if nm in program.classes:
                    init = "%s.__init__" % nm
                    if init in self.fns:
                        e.add(init)
            # slice / item assignment into self.<attr> of a storage class = mutation
            if fi.cls in ("MemoryStorage", "FileStorage"):
                for n in ast.walk(fi.node):
                    if isinstance(n, (ast.Assign, ast.AugAssign)):
                        tgts = n.targets if isinstance(n, ast.Assign) else [n.target]
                        for t in tgts:
                            if isinstance(t, ast.Subscript) and isinstance(t.value, ast.Attribute) and isinstance(t.value.value, ast.Name) and t.value.value.id == "self":
                                d.add(("slice-assign:" + t.value.attr, n.lineno))
                            if isinstance(t, ast.Attribute) and isinstance(t.value, ast.Name) and t.value.id == "self" and fi.node.name != "__init__":
                                d.add(("assign:" + t.attr, n.lineno))
            self.direct[q] = d
            self.edges[q] = e

    def reach_write(self, q, seen=None, chain=()):
        """-> None, or a chain of quals ending in a primitive write"""
        if seen is None:
            seen = set()
        if q in seen:
            return None
        seen.add(q)
        if self.direct.get(q):
            nm, ln = sorted(self.direct[q])[0]
            return chain + (q, "%s@%d" % (nm, ln))
        for c in sorted(self.edges.get(q, ())):
            r = self.reach_write(c, seen, chain + (q,))
            if r:
                return r
        return None

    def writers(self):
        """every function of the package that may reach a mutation"""
        return set(q for q in self.edges if self.reach_write(q))

    # ------------------------------------------------------------------ obligations
    def fr_ro(self):
        obs = []
        cls = self.program.classes["Traph"][1]
        for f in cls.body:
            if not isinstance(f, ast.FunctionDef):
                continue
            if f.name in WRITERS or f.name.startswith("_"):
                continue
            q = "Traph." + f.name
            chain = self.reach_write(q)
            obs.append({"id": "FR-RO(%s)" % q, "ok": chain is None, "detail": None if chain is None else " -> ".join(chain)})
        # the trie / link store read methods they rely on
        for q in ("LRUTrie.lru_node", "LRUTrie.follow_lru", "LRUTrie.windup_lru", "LRUTrie.windup_lru_for_webentity", "LRUTrie.nodes_iter", "LRUTrie.node_parents_iter", "LRUTrie.dfs_iter", "LRUTrie.webentity_dfs_iter", "LRUTrie.webentity_inorder_iter", "LRUTrie.dfs_with_webentity_iter", "LRUTrie.pages_iter", "LRUTrie.webentity_prefix_iter", "LRUTrie.count_pages", "LRUTrie.count_crawled_pages", "LRUTrie.metrics", "LRUTrie.bst_metrics", "LinkStore.link_nodes_iter", "LinkStore.weighted_link_nodes_iter", "LinkStore.deduped_link_nodes_iter", "LinkStore.count_links", "LinkStore.metrics", "LinkStore.nodes_iter", "LRUTrieNode.read", "LRUTrieNode.refresh", "LinkStoreNode.read", "FileStorage.read", "MemoryStorage.read", "MemMapStorage.read", "FileStorage.__len__", "MemoryStorage.__len__"):
            if q not in self.fns:
                obs.append({"id": "FR-RO(%s)" % q, "ok": False, "detail": "function no longer exists"})
                continue
            chain = self.reach_write(q)
            obs.append({"id": "FR-RO(%s)" % q, "ok": chain is None, "detail": None if chain is None else " -> ".join(chain)})
        return obs

    def fr_shape(self):
        obs = []
        sigs = {}
        for meth, classes in STORAGE_BACKENDS.items():
            for c in classes:
                fi = self.fns.get("%s.%s" % (c, meth))
                sigs[(c, meth)] = fi
        for q, fi in sorted(self.fns.items()):
            if q.startswith("traph.") or fi.cls in ("FileStorage", "MemoryStorage", "MemMapStorage"):
                continue
            for n in ast.walk(fi.node):
                if not (isinstance(n, ast.Call) and isinstance(n.func, ast.Attribute)):
                    continue
                recv = n.func.value
                is_storage = (isinstance(recv, ast.Attribute) and recv.attr in ("storage", "lru_trie_storage", "links_store_storage")) or (isinstance(recv, ast.Name) and recv.id == "storage")
                if not is_storage:
                    continue
                meth = n.func.attr
                ident = "FR-SHAPE(%s:%d storage.%s/%d)" % (q, n.lineno, meth, len(n.args))
                if meth not in STORAGE_BACKENDS:
                    ok = meth in ("map", "clear", "check_for_corruption")
                    obs.append({"id": ident, "ok": ok, "detail": None if ok else "method not part of the storage interface"})
                    continue
                bad = []
                for c in STORAGE_BACKENDS[meth]:
                    if meth == "read" and c == "MemMapStorage" and fi.cls not in ("LRUTrieNode", "LinkStoreNode"):
                        continue
                    sfi = sigs.get((c, meth))
                    if sfi is None:
                        bad.append("%s.%s missing" % (c, meth))
                        continue
                    a = sfi.node.args
                    params = [x.arg for x in a.args][1:]
                    nreq = len(params) - len(a.defaults)
                    npos = len(n.args)
                    kws = [k.arg for k in n.keywords]
                    given = set(params[:npos]) | set(kws)
                    if npos > len(params) or any(k not in params for k in kws) or any(p not in given for p in params[:nreq]):
                        bad.append("%s.%s%s" % (c, meth, tuple(params)))
                obs.append({"id": ident, "ok": not bad, "detail": None if not bad else "call shape not accepted by " + ", ".join(bad)})
        return obs

    def fr_state(self):
        obs = []
        for cname, allowed in ALLOWED_STATE.items():
            if cname not in self.program.classes:
                obs.append({"id": "FR-STATE(%s)" % cname, "ok": False, "detail": "class missing"})
                continue
            cls = self.program.classes[cname][1]
            extra = []
            for f in cls.body:
                if not isinstance(f, ast.FunctionDef) or f.name == "__init__":
                    continue
                for n in ast.walk(f):
                    tgts = []
                    if isinstance(n, ast.Assign):
                        tgts = n.targets
                    elif isinstance(n, (ast.AugAssign, ast.AnnAssign)):
                        tgts = [n.target]
                    for t in tgts:
                        base = t
                        while isinstance(base, ast.Subscript):
                            base = base.value
                        if isinstance(base, ast.Attribute) and isinstance(base.value, ast.Name) and base.value.id == "self":
                            if base.attr not in allowed and not (cname in ("LRUTrieHeader", "LinkStoreHeader") and base.attr == "data"):
                                extra.append("%s.%s:%d self.%s" % (cname, f.name, n.lineno, base.attr))
            # no node object (a cursor into a store) is kept in an instance attribute:
            # every walk owns the node it advances (C16: iterator requests are
            # advanced in turns and must not share a cursor)
            for f in cls.body:
                if not isinstance(f, ast.FunctionDef):
                    continue
                for n in ast.walk(f):
                    if isinstance(n, ast.Assign) and isinstance(n.value, ast.Call):
                        fn_ = n.value.func
                        callee = fn_.id if isinstance(fn_, ast.Name) else (fn_.attr if isinstance(fn_, ast.Attribute) else "")
                        if callee in ("LinkStoreNode", "LRUTrieNode", "node", "root"):
                            for t in n.targets:
                                if isinstance(t, ast.Attribute) and isinstance(t.value, ast.Name) and t.value.id == "self":
                                    extra.append("%s.%s:%d self.%s holds a node object shared by every walk" % (cname, f.name, n.lineno, t.attr))
            obs.append({"id": "FR-STATE(%s)" % cname, "ok": not extra, "detail": None if not extra else "RAM state outside the files: " + "; ".join(extra)})
        return obs

    def fr_id(self):
        obs = []
        bumpers = []
        for q, fi in sorted(self.fns.items()):
            if q.startswith("traph.") or fi.cls in ("LRUTrieHeader",):
                continue
            for nm, call in _calls(fi.node):
                if nm in ("increment_last_webentity_id", "increment_last_webentity_id_by", "set_last_webentity_id"):
                    bumpers.append(q)
        ok = sorted(set(bumpers)) == ["Traph.__generated_web_entity_id"]
        obs.append({"id": "FR-ID(only-the-generator-advances-the-counter)", "ok": ok, "detail": None if ok else "advanced by: %s" % sorted(set(bumpers))})
        fi = self.fns.get("Traph.__generated_web_entity_id")
        seq = []
        if fi is not None:
            for st in fi.node.body:
                for nm, call in _calls(st):
                    seq.append(nm)
        good = "increment_last_webentity_id" in seq and "write" in seq and seq.index("increment_last_webentity_id") < seq.index("write") and isinstance(fi.node.body[-1], ast.Return)
        obs.append({"id": "FR-ID(generator:increment-then-write-header-then-return)", "ok": bool(good), "detail": None if good else "call sequence %s" % seq})
        # __add_prefixes calls the generator exactly once, outside any loop
        fi = self.fns.get("Traph.__add_prefixes")
        n_calls = 0
        in_loop = False
        if fi is not None:
            for n in ast.walk(fi.node):
                if isinstance(n, (ast.For, ast.While)):
                    for m in ast.walk(n):
                        if isinstance(m, ast.Call) and isinstance(m.func, ast.Attribute) and m.func.attr.endswith("generated_web_entity_id"):
                            in_loop = True
                if isinstance(n, ast.Call) and isinstance(n.func, ast.Attribute) and n.func.attr.endswith("generated_web_entity_id"):
                    n_calls += 1
        ok = n_calls == 1 and not in_loop
        obs.append({"id": "FR-ID(one-id-per-creation-request)", "ok": ok, "detail": None if ok else "calls=%d in_loop=%s" % (n_calls, in_loop)})
        return obs
