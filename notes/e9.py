import sys, tempfile, shutil, warnings, random, os, itertools, traceback
sys.path.insert(0,'/tmp/x')
from e3 import *
def run(seed):
    r=random.Random(seed); alpha=(b"a",b"b",b"c",b"d",b"ab")
    d=tempfile.mkdtemp(); t=Traph(folder=d, default_webentity_creation_rule=NOMATCH, webentity_creation_rules={})
    try:
        ps=sorted(set(rand_lru(r,(1,2),alpha) for _ in range(r.randint(1,3))))
        t.create_webentity(ps)
        if r.random()<.5:
            try: t.create_webentity([rand_lru(r,(2,3),alpha)])
            except TraphException: pass
        for _ in range(r.randint(3,15)): t.add_page(rand_lru(r,(1,4),alpha),crawled=r.random()<.5)
        co=r.random()<.3
        def realm():
            return [x['lru'] for x in (t.get_webentity_crawled_pages(1,ps) if co else t.get_webentity_pages(1,ps))]
        before=set(realm()); tok=None; acc=[]; k=r.randint(1,3); inserted=set()
        while True:
            res=t.paginate_webentity_pages(1,ps,page_count=k,pagination_token=tok,crawled_only=co)
            acc+=[x['lru'] for x in res['pages']]
            if res['done']: break
            assert len(res['pages'])==k
            tok=res['token']
            for _ in range(r.randint(0,2)):
                l=rand_lru(r,(1,4),alpha); inserted.add(l); t.add_page(l,crawled=r.random()<.5)
        assert len(acc)==len(set(acc)),('dup',acc)
        after=set(realm())
        assert before<=set(acc),('skipped',before-set(acc))
        assert set(acc)<=after,('ghost',set(acc)-after)
        # order
        exp=[]
        for i,p in enumerate(ps):
            exp.append(sorted(l for l in acc if l.startswith(p) and t.retrieve_prefix(l)==p))
        assert acc==sum(exp,[]),('order',acc,exp)
        # clear
        t.clear(); assert t.count_pages()==0 and list(t.pages_iter())==[] and t.count_links()==0
        assert t.create_webentity([b"a|"]).created_webentities=={1:[b"a|"]}
    except Exception as e:
        print('SEED',seed,'FAIL',type(e).__name__,str(e)[:500]); traceback.print_exc(limit=-3); return False
    finally:
        t.close(); shutil.rmtree(d)
    return True
bad=0
for s in range(int(sys.argv[1]),int(sys.argv[2])):
    if not run(s): bad+=1
    if bad>=3: break
print('done',bad)
