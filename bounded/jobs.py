"""
Bounded stand-in jobs.  A job is a JSON-serialisable spec; `run_job(spec)` executes it
against the real code and returns a JSON-serialisable result:
  {"evals": n, "sig": str, "nontrivial": bool, "fail": None | {...}, "known": [...]}
A failing job's spec is, by itself, the replay input.
"""
import ast
import hashlib
import itertools
import json
import os
import random
import shutil
import sys
import tempfile
import traceback
import types

from . import common
from .common import (
    NOMATCH,
    RX,
    Failure,
    expect,
    enc,
    dec,
    open_traph,
    snap,
    rand_lru,
    rand_web_lru,
    stems_of,
    prefixes_of,
    SHORT,
    LONG,
)
from . import hist as H
from . import oracles as O


def _impl_frame(tb):
    """does the traceback end inside the repository's code?"""
    frames = traceback.extract_tb(tb)
    return bool(frames) and os.path.abspath(frames[-1].filename).startswith(os.path.abspath(common.REPO))


JOB_BUDGET_S = 600  # a single job normally takes well under ten seconds


class _OutOfTime(BaseException):
    pass


def _alarm(signum, frame):
    raise _OutOfTime()


def run_job(spec):
    import signal

    kind = spec["kind"]
    res = {"evals": 0, "sig": hashlib.sha1(json.dumps(spec, sort_keys=True).encode()).hexdigest()[:16], "nontrivial": False, "fail": None, "known": [], "sample": None}
    old_handler = None
    try:
        old_handler = signal.signal(signal.SIGALRM, _alarm)
        signal.alarm(JOB_BUDGET_S)
    except Exception:
        old_handler = None
    try:
        JOBS[kind](spec, res)
    except _OutOfTime:
        res["fail"] = {"what": "%s: a request (or the walk of its answer) did not finish within %d s: non-termination" % (spec["prop"], JOB_BUDGET_S), "detail": None, "step": res.get("step"), "op": res.get("op")}
    except Failure as f:
        res["fail"] = {"what": f.what, "detail": f.detail, "step": res.get("step"), "op": res.get("op")}
    except AssertionError:
        raise
    except Exception as e:
        et, ev, tb = sys.exc_info()
        if _impl_frame(tb):
            res["fail"] = {
                "what": "%s: request failed with %s: %s" % (spec["prop"], type(e).__name__, str(e)[:300]),
                "detail": traceback.format_exc(limit=-6),
                "step": res.get("step"),
                "op": res.get("op"),
            }
        else:
            raise
    finally:
        try:
            signal.alarm(0)
            if old_handler is not None:
                signal.signal(signal.SIGALRM, old_handler)
        except Exception:
            pass
    res["known"] = sorted(set(map(tuple, res["known"])))
    return res


# --------------------------------------------------------------------------- history jobs
def _alpha(spec):
    a = spec.get("alpha", "short")
    return {"short": SHORT, "long": LONG, "tiny": (b"a", b"b"), "sameblock": (b"S" * 80 + b"c", b"S" * 80 + b"f", b"S" * 80 + b"m", b"S" * 74 + b"z", b"S" * 74, b"a"), "abc": (b"a", b"b", b"c"), "abcd": (b"a", b"b", b"c", b"d", b"ab")}[a]


def job_hist(spec, res):
    prop = spec["prop"]
    seed = spec["seed"]
    if "ops" in spec:
        ops = dec(spec["ops"])
    else:
        ops = H.gen_history(seed, spec.get("nops", 20), spec.get("alpha", "short"), spec.get("mode", "plain"), spec.get("kinds"), spec.get("reopen", False), spec.get("clear", False))
    cfg = {"backend": spec.get("backend", "file")}
    if spec.get("mode") == "rules":
        r0 = random.Random(seed * 7 + 1)
        cfg["default"] = RX[r0.choice(["domain", "subdomain", "path1"])]
        rules = {}
        for _ in range(r0.randint(0, 2)):
            a = rand_web_lru(r0)
            a = b"".join(stems_of(a)[: r0.randint(2, 4)])
            rules[a] = RX[r0.choice(["path1", "path2", "subdomain", "domain", "lowerpath1"])]
        cfg["rules"] = rules
    run = H.Run(cfg)
    known = set()
    executed = []
    try:
        for i, op0 in enumerate(ops):
            op = H.resolve_op(op0, run.m)
            if op is None:
                continue
            res["step"] = i
            res["op"] = enc(op)
            ctx = {"r": random.Random(seed * 1000 + i), "alpha": _alpha(spec), "known": known}
            pre = STEP_PRE.get(prop)
            st = pre(run, op, ctx) if pre else None
            run.apply(op)
            executed.append(op)
            for f in O.ORACLES.get(prop, []):
                for t in run.ts:
                    f(t, run.m, ctx)
                    res["evals"] += 1
            post = STEP_POST.get(prop)
            if post:
                post(run, op, ctx, st)
                res["evals"] += 1
        res["nontrivial"] = len(executed) > 0
        res["sample"] = enc(executed[:6])
        res["sig"] = hashlib.sha1(json.dumps(enc(executed), sort_keys=True).encode()).hexdigest()[:16]
    finally:
        res["known"] = list(known)
        run.close()


# ---- per-property step hooks --------------------------------------------------
def _c06_pre(run, op, ctx):
    if op[0] != "page":
        return None
    l = op[1]
    m = run.m
    E, K, create = m.decide(l)
    expot = create if create else (E if E else False)
    for t in run.ts:
        before = snap(t)
        pot = t.get_potential_prefix(l)
        expect(pot == expot or (not pot and not expot), "C06: potential prefix differs from max(E,K)", {"lru": repr(l), "got": repr(pot), "exp": repr(expot)})
        expect(snap(t) == before, "C06: asking for the potential prefix changed the index", repr(l))
    return (E, K, create)


def _c06_post(run, op, ctx, st):
    if op[0] != "page" or st is None:
        O.C04(run.t, run.m, ctx)
        return
    E, K, create = st
    l = op[1]
    tgt = create or E
    for t in run.ts:
        if tgt:
            # the page resolves to the webentity owning max(E,K); the defining prefix
            # may be a longer scheme/www variation owned by the same webentity
            expect(t.retrieve_webentity(l) == run.m.pref[tgt], "C06: page does not resolve to the webentity of max(E,K)", {"lru": repr(l), "got": t.retrieve_webentity(l), "exp": run.m.pref[tgt], "prefix": repr(tgt)})
            expect(run.m.pref.get(t.retrieve_prefix(l)) == run.m.pref[tgt] and len(t.retrieve_prefix(l)) >= len(tgt), "C06: defining prefix of the page", repr(l))
    O.C04(run.t, run.m, ctx)


def _op_lrus(op):
    k = op[0]
    if k == "page":
        return [op[1]]
    if k == "pages":
        return list(op[1])
    if k == "links":
        return [x for pr in op[1] for x in pr]
    if k == "batch":
        return [s for s, ts in op[1]] + [x for s, ts in op[1] for x in ts]
    if k in ("create",):
        return list(op[1])
    if k in ("addp", "rmp", "move"):
        return [op[1]]
    return []


def _c04_pre(run, op, ctx):
    """resolve the LRUs the request is about BEFORE it runs (and keep the answers out
    of the way): resolution afterwards must reflect the request's net effect"""
    TE = O._TE()
    qs = _op_lrus(op)[:4]
    for t in run.ts:
        for q in qs:
            try:
                t.retrieve_webentity(q)
            except TE:
                pass
    return qs


def _c04_post(run, op, ctx, qs):
    TE = O._TE()
    m = run.m
    for t in run.ts:
        for q in reversed(qs or []):
            e = m.resolve(q)
            try:
                w = t.retrieve_webentity(q)
                p = t.retrieve_prefix(q)
                expect(e is not None and (p, w) == e, "C04: resolution after the request is not the longest attached stem-prefix", [repr(q), repr(e), repr(p), w])
            except TE:
                expect(e is None, "C04: resolution failed although a stem-prefix carries a webentity", [repr(q), repr(e)])


def _c11_pre(run, op, ctx):
    if op[0] == "reopen" and run.dir:
        return {"obs": O.observe(run.t, run.m), "snap": snap(run.t)}
    return None


def _c11_post(run, op, ctx, st):
    t = run.t
    a, b = snap(t)
    expect(len(a) % 128 == 0 and len(b) % 16 == 0, "C11: files are not whole numbers of blocks", [len(a), len(b)])
    if op[0] == "reopen" and st is not None:
        expect(snap(t) == st["snap"], "C11: reopening changed the files", None)
        obs = O.observe(t, run.m)
        expect(obs == st["obs"], "C11: an answer differs after close/reopen", {k: [repr(obs[k])[:300], repr(st["obs"][k])[:300]] for k in obs if obs[k] != st["obs"][k]})
    if op[0] == "clear":
        fresh = open_traph(None, run.default, run.rules)
        try:
            for t_ in run.ts:
                expect(snap(t_) == snap(fresh), "C11: a cleared index differs from a fresh one", None)
                expect(O.observe(t_, run.m) == O.observe(fresh, run.m), "C11: a cleared index answers differently from a fresh one", None)
        finally:
            fresh.close()
    if len(run.ts) == 2:
        # the never-closed memory twin evolves identically
        expect(snap(run.ts[0]) == snap(run.ts[1]), "C11: reopened index diverges from a never-closed one", res_diff(run))
    # model-based answers still right
    O.C01(t, run.m, ctx)
    O.C04(t, run.m, ctx)
    O.C03(t, run.m, ctx)


def res_diff(run):
    a = snap(run.ts[0])
    b = snap(run.ts[1])
    return {"trie_len": [len(a[0]), len(b[0])], "links_len": [len(a[1]), len(b[1])]}


def _c12_post(run, op, ctx, st):
    t = run.t
    hid = t.lru_trie.header.last_webentity_id()
    expect(hid == (max(run.issued) if run.issued else 0), "C12: persisted counter differs from the last issued id", [hid, run.issued[-3:]])
    O.C04(t, run.m, ctx)


def _c15_post(run, op, ctx, st):
    expect(len(run.ts) == 2, "harness: C15 needs the twin back-end")
    f, mem = run.ts
    sf, sm = snap(f), snap(mem)
    expect(sf == sm, "C15: store contents differ between file and memory", res_diff(run))
    of, om = O.observe(f, run.m), O.observe(mem, run.m)
    expect(of == om, "C15: answers differ between file and memory", {k: [repr(of[k])[:300], repr(om[k])[:300]] for k in of if of[k] != om[k]})
    # memory-mapped reader returns the same blocks
    for storage, raw, bs in ((f.lru_trie_storage, sf[0], 128), (f.links_store_storage, sf[1], 16)):
        storage.file.flush()
        mp = storage.map()
        try:
            for blk in range(0, len(raw), bs):
                got_ = mp.read(blk)
                expect(got_ is not None and bytes(got_) == raw[blk : blk + bs], "C15: memory-mapped reader returns a different block (or none)", {"block": blk, "got": None if got_ is None else "other bytes"})
            expect(mp.read(len(raw)) is None, "C15: memory-mapped reader past the end", len(raw))
        finally:
            mp.release()
    O.C01(mem, run.m, ctx)
    O.C02(mem, run.m, ctx)
    O.C03(mem, run.m, ctx)


STEP_PRE = {"C04": _c04_pre, "C06": _c06_pre, "C11": _c11_pre}
STEP_POST = {"C04": _c04_post, "C06": _c06_post, "C11": _c11_post, "C12": _c12_post, "C15": _c15_post}


# --------------------------------------------------------------------------- exhaustive small scope
def exhaustive_histories(n_ops, universe):
    """all sequences of n_ops operations from a small op universe"""
    return itertools.product(universe, repeat=n_ops)


def small_universe(prop):
    a, b, ab, aa, ba = b"a|", b"b|", b"a|b|", b"a|a|", b"b|a|"
    pages = [["page", a, False], ["page", ab, True], ["page", ba, False], ["page", aa, False]]
    links = [["links", [[ab, ba]]], ["links", [[ab, ab], [ab, ba], [ab, ba]]], ["batch", [[a, [ab, a]], [ba, []]]]]
    we = [["create", [a]], ["create", [ab, b]], ["@del", a, 0, 0], ["@move", a, 0, 1], ["@rmp", a, 1, 1], ["@addp", ba, 1, 0]]
    if prop in ("C03",):
        return pages[:2] + links
    if prop in ("C01", "C02", "C19"):
        return pages + links[:2] + we[:2]
    return pages[:3] + links[:2] + we


def job_exh(spec, res):
    prop = spec["prop"]
    uni = small_universe(prop)
    idx = spec["indices"]
    sub = dict(spec)
    sub["kind"] = "hist"
    sub["ops"] = enc([uni[i] for i in idx])
    job_hist(sub, res)


# --------------------------------------------------------------------------- C09: insertions between calls
def job_paginate_insert(spec, res):
    seed = spec["seed"]
    r = random.Random(seed)
    alpha = (b"a", b"b", b"c", b"d", b"ab")
    d = tempfile.mkdtemp(prefix="vb_")
    t = open_traph(d)
    TE = O._TE()
    try:
        ps = sorted(set(rand_lru(r, (1, 2), alpha) for _ in range(r.randint(1, 3))))
        r.shuffle(ps)
        t.create_webentity(ps)
        if r.random() < 0.5:
            try:
                t.create_webentity([rand_lru(r, (2, 3), alpha)])
            except TE:
                pass
        for _ in range(r.randint(3, 15)):
            t.add_page(rand_lru(r, (1, 4), alpha), crawled=r.random() < 0.5)
        co = r.random() < 0.3

        def realm():
            return [x["lru"] for x in (t.get_webentity_crawled_pages(1, ps) if co else t.get_webentity_pages(1, ps))]

        before = set(realm())
        tok = None
        acc = []
        k = r.randint(1, 3)
        log = []
        calls = 0
        while True:
            out = t.paginate_webentity_pages(1, ps, page_count=k, pagination_token=tok, crawled_only=co)
            res["evals"] += 1
            calls += 1
            expect(calls < 150, "C09: pagination under insertions does not terminate (150 calls)", {"prefixes": repr(ps), "k": k, "token": tok})
            acc += [x["lru"] for x in out["pages"]]
            if out["done"]:
                break
            expect(len(out["pages"]) == k, "C09: a non-final answer does not hold the requested count", repr(out))
            tok = out["token"]
            for _ in range(r.randint(0, 2)):
                l = rand_lru(r, (1, 4), alpha)
                log.append(l)
                t.add_page(l, crawled=r.random() < 0.5)
        detail = {"prefixes": repr(ps), "k": k, "crawled_only": co, "inserted": repr(log), "answers": repr(acc)}
        expect(len(acc) == len(set(acc)), "C09: a page is repeated across answers after insertions", detail)
        after = set(realm())
        expect(before <= set(acc), "C09: a page present throughout was skipped", dict(detail, skipped=repr(before - set(acc))))
        expect(set(acc) <= after, "C09: an answer holds a page that is not in the webentity", detail)
        exp = []
        for p in ps:
            exp.append(sorted(l for l in acc if t.retrieve_prefix(l) == p))
        expect(acc == sum(exp, []), "C09: answers are not prefix by prefix in ascending LRU order", detail)
        res["nontrivial"] = len(acc) > 0
        res["sample"] = detail
    finally:
        t.close()
        shutil.rmtree(d, ignore_errors=True)


# --------------------------------------------------------------------------- C16: interleavings
def _yielding_traph_class():
    """A copy of class Traph in which every loop iteration of every *_iter generator
    request is a yield point (AST rewrite done here; /repo is not touched).  The
    rewritten module body is the real source of traph/traph.py."""
    import traph.traph as TM

    src = open(TM.__file__).read()
    tree = ast.parse(src)

    class Rw(ast.NodeTransformer):
        def __init__(self):
            self.in_gen = False

        def visit_FunctionDef(self, node):
            is_req = node.name.endswith("_iter") and any(isinstance(n, ast.Name) and n.id == "TraphIteratorState" for n in ast.walk(node))
            if not is_req:
                return node
            for sub in ast.walk(node):
                if isinstance(sub, (ast.For, ast.While)):
                    last = sub.body[-1]
                    if not (isinstance(last, ast.Expr) and isinstance(last.value, ast.Yield)):
                        y = ast.parse("yield state").body[0]
                        # a `continue` would skip it: insert at the start of the body too
                        sub.body.append(y)
                        sub.body.insert(0, ast.parse("yield state").body[0])
            return node

    tree = Rw().visit(tree)
    ast.fix_missing_locations(tree)
    mod = types.ModuleType("traph.traph_yielding")
    mod.__package__ = "traph"
    mod.__file__ = TM.__file__
    exec(compile(tree, TM.__file__, "exec"), mod.__dict__)
    return mod.Traph


def _final(t):
    from collections import Counter

    pages = sorted((l, n.is_crawled()) for n, l in t.pages_iter())
    out = Counter()
    inn = Counter()
    for l, _ in pages:
        for a, b, w in t.get_page_links(l, include_inbound=False):
            out[(a, b)] += w
        for a, b, w in t.get_page_links(l, include_outbound=False, include_internal=False):
            inn[(a, b)] += w
    return pages, out, inn


def job_interleave(spec, res):
    from collections import Counter
    import traph.traph_iterator_state as tis

    seed = spec["seed"]
    r = random.Random(seed)
    alpha = (b"a", b"b", b"c")
    if seed % 3 == 2:
        # long stems that agree on their first block: the order of insertion (hence the
        # schedule) decides the shape of the sibling trees
        alpha = (b"S" * 80 + b"c", b"S" * 80 + b"f", b"S" * 80 + b"m", b"a", b"b")
    YT = _yielding_traph_class()
    orig_sy = tis.TraphIteratorState.should_yield
    tis.TraphIteratorState.should_yield = lambda self, f=1000: True
    try:
        batches = []
        for _ in range(r.randint(2, 3) if spec.get("three") else 2):
            b = {}
            for _ in range(r.randint(1, 2)):
                b[rand_lru(r, (1, 3), alpha)] = [rand_lru(r, (1, 3), alpha) for _ in range(r.randint(0, 3))]
            batches.append(b)
        kw = dict(default_webentity_creation_rule=NOMATCH, webentity_creation_rules={})
        # sequential reference
        t = YT(folder=None, **kw)
        t.create_webentity([b"a|"])
        t.create_webentity([b"b|"])
        for b in batches:
            t.index_batch_crawl(b)
        ref = _final(t)
        t.close()
        selfl = Counter({k: v for k, v in ref[1].items() if k[0] == k[1]})
        nsched = spec.get("schedules", 20)
        for sch in range(nsched):
            t = YT(folder=None, **kw)
            t.create_webentity([b"a|"])
            t.create_webentity([b"b|"])
            gens = [("batch", t.index_batch_crawl_iter(b, 1)) for b in batches]
            queries = []
            if r.random() < 0.6:
                gens.append(("net", t.get_webentities_links_iter(include_auto=True)))
            if r.random() < 0.4:
                gens.append(("rule", t.add_webentity_creation_rule_iter(b"a|", b"a\\|b\\|")))
            if r.random() < 0.6:
                gens.append(("pages", t.get_webentity_pages_iter(1, [b"a|"])))
            if r.random() < 0.3:
                gens.append(("children", t.get_webentity_child_webentities_iter(1, [b"a|"])))
            if r.random() < 0.3:
                gens.append(("pagelinks", t.get_webentity_pagelinks_iter(1, [b"a|"], include_outbound=True, include_inbound=True)))
            live = list(range(len(gens)))
            order = []
            track = {}  # g -> [always, ever] while the query runs
            ever_res, ever_links = {}, {}  # page -> webentities it ever resolved to; (s, t) -> max weight
            results = {}
            while live:
                g = r.choice(live)
                order.append(g)
                nm = gens[g][0]
                if g not in track and nm in ("net", "pages"):
                    s0 = _qstate(t, nm)
                    track[g] = [s0, s0]
                res["op"] = {"schedule": order[-40:], "batches": enc(batches), "request": nm}
                try:
                    st = next(gens[g][1])
                    if st.done:
                        results[g] = st.result
                except StopIteration:
                    live.remove(g)
                # every state a running query could have observed
                if any(gens[g2][0] == "net" and g2 not in results or g2 == g for g2 in track):
                    _note_links(t, ever_res, ever_links)
                for g2, tr in track.items():
                    if g2 in results and g2 != g:
                        continue
                    nm2 = gens[g2][0]
                    cur = _qstate(t, nm2)
                    if nm2 == "pages":
                        tr[0] = tr[0] & cur
                        tr[1] = tr[1] | cur
                    else:
                        tr[0] = {k: min(v, cur.get(k, 0)) for k, v in tr[0].items()}
                        tr[1] = {k: max(tr[1].get(k, 0), cur.get(k, 0)) for k in set(tr[1]) | set(cur)}
            res["evals"] += 1
            got = _final(t)
            det = {"batches": enc(batches), "schedule": order, "requests": [g[0] for g in gens]}
            expect(got[0] == ref[0], "C16: final pages depend on the schedule", dict(det, got=repr(got[0]), exp=repr(ref[0])))
            expect(got[1] == ref[1], "C16: final link multigraph depends on the schedule", dict(det, got=repr(dict(got[1])), exp=repr(dict(ref[1]))))
            expect(got[2] + selfl == got[1], "C16: inbound/outbound symmetry broken", det)
            for g, val in results.items():
                nm = gens[g][0]
                if nm == "pages":
                    always, ever = track[g]
                    lr = set(x["lru"] for x in val)
                    expect(len(lr) == len(val), "C16: query answer holds a page twice", det)
                    expect(always <= lr, "C16: query answer misses a page that qualified throughout", dict(det, missing=repr(always - lr)))
                    expect(lr <= ever, "C16: query answer holds a page that never qualified", dict(det, extra=repr(lr - ever)))
                if nm == "net":
                    always, ever = track[g]
                    for a, d in val.items():
                        for b_, c in d.items():
                            if b_ in ("pages_crawled", "pages_uncrawled"):
                                continue
                            # an edge must have existed at some moment; its weight cannot exceed
                            # the page links whose ends resolved to (a, b_) at SOME moment each
                            # (the builder resolves pages and walks links at different moments:
                            # a rule installed in between moves pages to a new webentity)
                            expect(ever.get((a, b_), 0) > 0 or _bound(ever_res, ever_links, a, b_) > 0, "C16: network holds an edge that qualified at no moment", dict(det, edge=[a, b_, c]))
                            expect(c <= max(ever.get((a, b_), 0), _bound(ever_res, ever_links, a, b_)), "C16: network weight exceeds the page links that could ever contribute to it", dict(det, edge=[a, b_, c], bound=_bound(ever_res, ever_links, a, b_)))
                    for (a, b_), c in always.items():
                        expect(val.get(a, {}).get(b_, 0) >= c, "C16: network misses links that qualified throughout", dict(det, edge=[a, b_, c]))
            # read-only requests advanced in turns on the final index (no writer
            # running): each answer must be the one the same request gives when run alone
            if sch % 3 == 0:
                def ro(tt):
                    return [
                        ("outlinks(1)", tt.get_webentity_outlinks_iter(1, [b"a|"])),
                        ("inlinks(2)", tt.get_webentity_inlinks_iter(2, [b"b|"])),
                        ("outlinks(2)", tt.get_webentity_outlinks_iter(2, [b"b|"])),
                        ("inlinks(1)", tt.get_webentity_inlinks_iter(1, [b"a|"])),
                        ("pagelinks(1)", tt.get_webentity_pagelinks_iter(1, [b"a|"], include_outbound=True, include_inbound=True)),
                        ("net", tt.get_webentities_links_iter(include_auto=True)),
                        ("net-slow", tt.get_webentities_links_slow_iter(include_auto=True)),
                        ("pages(1)", tt.get_webentity_pages_iter(1, [b"a|"])),
                        ("most-linked(2)", tt.get_webentity_most_linked_pages_iter(2, [b"b|"], pages_count=3)),
                    ]

                def norm(v):
                    return repr(sorted(v, key=repr)) if isinstance(v, (list, set)) else repr(v)

                alone = {}
                for nm, g in ro(t):
                    st = None
                    for st in g:
                        pass
                    alone[nm] = norm(st.result)
                gs = ro(t)
                r.shuffle(gs)
                gs = gs[: r.randint(2, 5)]
                liveq = list(range(len(gs)))
                answers = {}
                order2 = []
                while liveq:
                    g = r.choice(liveq)
                    order2.append(gs[g][0])
                    res["op"] = {"read-only schedule": order2[-60:], "batches": enc(batches)}
                    try:
                        st = next(gs[g][1])
                        if st.done:
                            answers[gs[g][0]] = norm(st.result)
                    except StopIteration:
                        liveq.remove(g)
                for nm, a in answers.items():
                    expect(a == alone[nm], "C16: a read-only request advanced in turns with other read-only requests answers differently than alone", dict(det, request=nm, schedule=order2[:200], got=a[:300], alone=alone[nm][:300]))
                res["evals"] += 1
            t.close()
        res["nontrivial"] = True
        res["sample"] = {"batches": enc(batches), "schedules": nsched}
    finally:
        tis.TraphIteratorState.should_yield = orig_sy


def _note_links(t, ever_res, ever_links):
    # (the yielding Traph class lives in a rewritten copy of the module: its
    # TraphException is another class object, hence the test by name)
    for n_, l in t.pages_iter():
        try:
            w = t.retrieve_webentity(l)
        except Exception as e:
            if type(e).__name__ != "TraphException":
                raise
            w = None
        if w is not None:
            ever_res.setdefault(l, set()).add(w)
    for l in list(ever_res):
        try:
            for a_, b_, wt in t.get_page_links(l, include_inbound=False):
                ever_links[(a_, b_)] = max(ever_links.get((a_, b_), 0), wt)
        except Exception as e:
            if type(e).__name__ != "TraphException":
                raise


def _bound(ever_res, ever_links, a, b):
    return sum(wt for (s_, t_), wt in ever_links.items() if a in ever_res.get(s_, ()) and b in ever_res.get(t_, ()))


def _qstate(t, nm):
    if nm == "pages":
        return set(x["lru"] for x in t.get_webentity_pages(1, [b"a|"]))
    g = t.get_webentities_links(include_auto=True)
    out = {}
    for a, d in g.items():
        for b, c in d.items():
            if b not in ("pages_crawled", "pages_uncrawled"):
                out[(a, b)] = c
    return out


# --------------------------------------------------------------------------- C18: torn write logs
def job_torn(spec, res):
    from traph.storage.file import FileStorage

    seed = spec["seed"]
    r = random.Random(seed)
    alpha = (b"a", b"b", b"c", b"N" * 75, b"Q" * 150)
    LOG = []
    orig = FileStorage.write

    def w(self, data, block=None):
        b = orig(self, data, block)
        LOG.append((os.path.basename(self.file.name), b, bytes(data)))
        return b

    FileStorage.write = w
    TE = O._TE()
    import builtins
    import traph.traph as TT

    def logged_open(path, mode="r", *a, **k):
        # a truncating open (index creation, clear()) is a write event of its own
        if "w" in mode and os.path.basename(str(path)) in ("lru_trie.dat", "link_store.dat"):
            LOG.append((os.path.basename(str(path)), "TRUNC", b""))
        return builtins.open(path, mode, *a, **k)

    with_clear = seed % 4 == 1
    fp_all, fl_all = set(), set()
    try:
        TT.open = logged_open
        d = tempfile.mkdtemp(prefix="vb_")
        kw = dict(default=RX["domain"] if spec.get("rules") else NOMATCH)
        t = open_traph(d, **kw)
        hist = []
        for i in range(spec.get("nops", 4)):
            fp_all |= set(l for n, l in t.pages_iter())
            fl_all |= set(t.links_iter())
            op = r.choice(["page", "links", "batch", "create", "pages"])
            if seed % 4 == 2 and i < 3:
                op = "links"  # (A,B), then (A,C), then (A,C) again: see below
            if with_clear:
                nops_ = spec.get("nops", 4)
                if i == 0:
                    op = "links"  # something for the clear request to wipe
                elif i == max(1, nops_ - 2):
                    op = "clear"
            if op == "clear":
                x = ["clear"]
                t.clear(default_webentity_creation_rule=kw["default"], webentity_creation_rules={})
                hist.append(x)
                continue
            if op == "page":
                x = ["page", rand_lru(r, (1, 3), alpha), r.random() < 0.5]
                t.add_page(x[1], crawled=x[2])
            elif op == "pages":
                x = ["pages", [rand_lru(r, (1, 3), alpha) for _ in range(2)]]
                t.add_pages(x[1])
            elif op == "links":
                x = ["links", [[rand_lru(r, (1, 3), alpha), rand_lru(r, (1, 3), alpha)] for _ in range(r.randint(1, 3))]]
                earlier = [pr for h_ in hist if h_[0] == "links" for pr in h_[1]]
                if seed % 4 == 2 and i < 3:
                    if i == 0:
                        x[1] = x[1][:1]
                    elif i == 1:
                        x[1] = [[hist[0][1][0][0], rand_lru(r, (1, 2), alpha) + b"z|"]]
                    else:
                        x[1] = [list(hist[1][1][0])]
                elif earlier and r.random() < 0.6:
                    # a link submitted again in a later request, and a fresh link from the same source
                    e_ = r.choice(earlier)
                    x[1] = [[e_[0], rand_lru(r, (1, 2), alpha)], list(e_)] if r.random() < 0.5 else [list(e_)]
                t.add_links([tuple(p) for p in x[1]])
            elif op == "batch":
                x = ["batch", [[rand_lru(r, (1, 3), alpha), [rand_lru(r, (1, 3), alpha) for _ in range(r.randint(0, 3))]]]]
                t.index_batch_crawl({x[1][0][0]: x[1][0][1]})
            else:
                x = ["create", [rand_lru(r, (1, 2), alpha)]]
                try:
                    t.create_webentity(x[1])
                except TE:
                    pass
            hist.append(x)
        # what the completed requests reported at any request boundary (with a clear()
        # in the history the reference is the union over the boundaries)
        fp = set(l for n, l in t.pages_iter())
        fl = set(t.links_iter())
        if with_clear:
            fp, fl = fp | fp_all, fl | fl_all
        t.close()
        shutil.rmtree(d, ignore_errors=True)
    finally:
        FileStorage.write = orig
        try:
            del TT.open
        except Exception:
            pass
    log = LOG[:]
    res["sample"] = {"history": enc(hist), "writes": len(log)}
    sizes = {"lru_trie.dat": 128, "link_store.dat": 16}
    cuts = [(k, None) for k in range(len(log) + 1)]
    # byte-granular cuts of appends: the k-th write lands only partially
    for k in range(len(log)):
        f, b, data = log[k]
        if b == "TRUNC":
            continue
        last_trunc = max([i_ for i_ in range(k) if log[i_][0] == f and log[i_][1] == "TRUNC"] + [-1])
        prior = sum(1 for (f2, b2, _) in log[last_trunc + 1 : k] if f2 == f and b2 >= b)
        if prior == 0:  # an append (no earlier write at or after this offset)
            for nb in sorted(set([1, len(data) // 2, len(data) - 1])):
                cuts.append((k, nb))
    for k, nb in cuts:
        d = tempfile.mkdtemp(prefix="vb_")
        files = {"lru_trie.dat": bytearray(), "link_store.dat": bytearray()}
        for f, b, data in log[:k]:
            if b == "TRUNC":
                files[f] = bytearray()
                continue
            a = files[f]
            a[b : b + len(data)] = data
        partial = False
        if nb is not None:
            f, b, data = log[k]
            files[f][b : b + nb] = data[:nb]
            partial = True
        for f, a in files.items():
            with open(os.path.join(d, f), "wb") as fh:
                fh.write(a)
        res["step"] = k
        res["op"] = {"cut_after_write": k, "partial_bytes": nb, "of": len(log), "history": enc(hist)}
        res["evals"] += 1
        t = None
        try:
            try:
                t = open_traph(d, **kw)
            except TE:
                continue  # refused with the library's own error
            expect(not partial, "C18: a store holding a partial block was not refused", res["op"])
            p = set(l for n, l in t.pages_iter())
            expect(p <= fp, "C18: a torn history reports a page the completed history does not", repr(p - fp))
            ls = set(t.links_iter())
            expect(ls <= fl, "C18: a torn history reports a link the completed history does not", repr(ls - fl))
            ls2 = set(t.links_iter(out=False))
            expect(set((b_, a_) for a_, b_ in ls2) <= fl, "C18: a torn history reports an inbound link the completed history does not", repr(ls2))
            for l in p:
                for a_, b_, w_ in t.get_page_links(l):
                    expect((a_, b_) in fl, "C18: page links of a torn history", repr((a_, b_)))
            t.get_webentities_links()
            t.get_webentities_links(out=False)
            t.get_webentities_links_slow()
            t.count_pages()
            t.count_crawled_pages()
            t.count_links()
            list(t.webentity_prefix_iter())
            for n_, l in list(t.webentity_prefix_iter()):
                w_ = n_.webentity()
                t.get_webentity_pages(w_, [l])
                t.get_webentity_pagelinks(w_, [l], include_inbound=True, include_outbound=True)
                t.paginate_webentity_pages(w_, [l], page_count=1)
                t.get_webentity_child_webentities(w_, [l])
                t.get_webentity_most_linked_pages(w_, [l])
            for l in list(fp)[:4]:
                try:
                    t.retrieve_webentity(l)
                except TE:
                    pass
        finally:
            if t is not None:
                t.close()
            shutil.rmtree(d, ignore_errors=True)
    res["nontrivial"] = len(log) > 2


# --------------------------------------------------------------------------- C17: variations grammar
def variations_cases(tokens_hosts, max_hosts, paths, max_path):
    schemes = [b"s:http|", b"s:https|", b"s:ftp|"]
    ports = [b"", b"t:80|"]
    for s in schemes:
        for p in ports:
            for nh in range(0, max_hosts + 1):
                for hs in itertools.product(tokens_hosts, repeat=nh):
                    if nh >= 2 and hs[-1] == b"h:www|" and hs[-2] == b"h:www|":
                        continue
                    for np_ in range(0, max_path + 1):
                        for pp in itertools.product(paths, repeat=np_):
                            # C17 quantifies over LRUs whose host stems are contiguous: a
                            # stem typed `h:` (or `s:` / `t:`) after a path stem is outside
                            # (directly after the hosts an `h:` stem is just one more host)
                            seen_path = False
                            ok = True
                            for st_ in pp:
                                typed = st_[:2] in (b"h:", b"s:", b"t:")
                                if typed and (seen_path or st_[:2] != b"h:"):
                                    ok = False
                                    break
                                if not typed:
                                    seen_path = True
                            if not ok:
                                continue
                            hosts_all = list(hs) + [x for x in pp if x[:2] == b"h:"]
                            if len(hosts_all) >= 2 and hosts_all[-1] == b"h:www|" and hosts_all[-2] == b"h:www|":
                                continue
                            yield s + p + b"".join(hs) + b"".join(pp)


def check_variations(lru):
    from traph.helpers import lru_variations

    vs = lru_variations(lru)
    expect(isinstance(vs, list) and len(vs) >= 1 and vs[0] == lru, "C17: the prefix itself is not listed first", [repr(lru), repr(vs)])
    expect(len(vs) == len(set(vs)), "C17: an entry is listed twice", [repr(lru), repr(vs)])
    st = stems_of(lru)
    # split: scheme, optional port, contiguous hosts, rest
    i = 1
    if len(st) > i and st[i].startswith(b"t:"):
        i += 1
    j = i
    while j < len(st) and st[j].startswith(b"h:"):
        j += 1
    head, hosts, rest = st[:i], st[i:j], st[j:]
    for v in vs:
        sv = stems_of(v)
        expect(b"".join(sv) == v, "C17: a variation is not a well-formed LRU", repr(v))
        # nothing but the scheme stem and a trailing www host stem changes
        vh = sv[: len(sv) - len(rest)] if rest else sv
        expect(sv[len(sv) - len(rest) :] == rest if rest else True, "C17: a variation changes path/query/fragment stems", [repr(lru), repr(v)])
        expect(len(vh) >= len(head) and vh[1 : len(head)] == head[1:], "C17: a variation changes the port", [repr(lru), repr(v)])
        expect(
            vh[0] == head[0] or {vh[0], head[0]} == {b"s:http|", b"s:https|"},
            "C17: scheme changed to something else than http<->https",
            [repr(lru), repr(v)],
        )
        hv = vh[len(head) :]
        ok = hv == hosts or hv == hosts + [b"h:www|"] or (hosts and hosts[-1] == b"h:www|" and hv == hosts[:-1])
        expect(ok, "C17: host stems changed otherwise than by a trailing www", [repr(lru), repr(v)])
    for v in vs:
        expect(set(lru_variations(v)) == set(vs), "C17: variation class is not closed", {"lru": repr(lru), "member": repr(v), "class": repr(vs), "member_class": repr(lru_variations(v))})
    return len(vs)


def job_variations(spec, res):
    part, parts = spec["part"], spec["parts"]
    hosts = [b"h:com|", b"h:www|", b"h:s:http|", b"h:a|"]
    paths = [b"p:x|", b"p:s:http|", b"p:h:www|", b"h:late|", b"p:h:com|h:a|".replace(b"|", b"") + b"|", b"s:https|"]
    sizes = Counter_()
    n = 0
    for idx, lru in enumerate(variations_cases(hosts, spec.get("max_hosts", 3), paths, spec.get("max_path", 2))):
        if idx % parts != part:
            continue
        res["op"] = {"lru": enc(lru)}
        k = check_variations(lru)
        sizes[k] += 1
        n += 1
    res["evals"] = n
    res["nontrivial"] = n > 0
    res["distinct"] = n
    res["sample"] = {"last": enc(lru), "class_sizes": dict(sizes)}


def Counter_():
    from collections import Counter

    return Counter()


def job_variations_creation(spec, res):
    """consequence for automatic creation: the webentity is the same whichever
    variation of the site is seen first"""
    seed = spec["seed"]
    r = random.Random(seed)
    from traph.helpers import lru_variations

    base = rand_web_lru(r)
    while b"h:www|h:www|" in base:  # outside C17's quantifier
        base = rand_web_lru(r)
    name = r.choice(["domain", "subdomain", "path1"])
    t0 = open_traph(None, RX[name])
    rep = t0.add_page(base)
    t0.close()
    if not rep.created_webentities:
        return
    ((w, ps),) = rep.created_webentities.items()
    ref = set(ps)
    K = sorted(ps, key=len)[0]
    how = ["add_page", "add_pages(crawled)", "add_pages", "index_batch_crawl", "add_links"][seed % 5]
    for v in lru_variations(base):
        t = open_traph(None, RX[name])
        res["op"] = {"base": enc(base), "variation": enc(v), "rule": name, "submitted-through": how}
        if how == "add_page":
            rep2 = t.add_page(v)
        elif how == "add_pages(crawled)":
            rep2 = t.add_pages([v], crawled=True)
        elif how == "add_pages":
            rep2 = t.add_pages([v])
        elif how == "index_batch_crawl":
            rep2 = t.index_batch_crawl({v: []})
        else:
            rep2 = t.add_links([(v, v)])
        res["evals"] += 1
        got = set(sum(rep2.created_webentities.values(), []))
        expect(got == ref, "C17: the created webentity depends on which variation was seen first", {"base": repr(base), "variation": repr(v), "got": repr(sorted(got)), "exp": repr(sorted(ref))})
        # ... and the class is attached as a whole: every member resolves to the one id
        ids = set(rep2.created_webentities)
        attached = set(l for n_, l in t.lru_trie.webentity_prefix_iter() if n_.webentity() in ids)
        expect(attached == ref, "C17: the reported class is not the class attached in the index", {"base": repr(base), "variation": repr(v), "through": how, "attached": repr(sorted(attached)), "reported": repr(sorted(ref))})
        for m_ in sorted(ref):
            expect(t.retrieve_webentity(m_) in ids, "C17: a member of the created class does not resolve to the created webentity", {"member": repr(m_), "through": how})
        t.close()
    res["nontrivial"] = True
    res["sample"] = {"base": enc(base), "rule": name, "class": enc(sorted(ref))}


# --------------------------------------------------------------------------- C19 sweep of stem lengths
def job_lengths(spec, res):
    lo, hi = spec["lo"], spec["hi"]
    from traph.helpers import detailed_chunks_iter, chunks_iter

    for n in range(lo, hi):
        t = open_traph(None)
        stem = bytes([65 + (i % 26) for i in range(n - 1)]) + b"|" if n >= 1 else b"|"
        res["op"] = {"stem_length": len(stem)}
        t.add_page(stem)
        a, b = snap(t)
        exp = 1 + max(1, -(-len(stem) // 74))
        expect(len(a) // 128 == exp, "C19: blocks for a stem of this length", {"len": len(stem), "blocks": len(a) // 128, "expected": exp})
        t.add_page(stem)
        t.add_page(stem + b"x|")
        a2, _ = snap(t)
        expect(len(a2) // 128 == exp + 1, "C19: re-adding grew the store / child allocation", {"len": len(stem)})
        n_ = t.lru_trie.lru_node(stem)
        expect(n_ is not None and n_.stem() == stem and t.lru_trie.windup_lru(n_.block) == stem, "C02: read back of a long stem", len(stem))
        expect([l for _, l in t.pages_iter()] == [stem, stem + b"x|"], "C01: pages with a long stem", len(stem))
        for cs in (1, 2, 74):
            ch = list(detailed_chunks_iter(cs, stem))
            expect(b"".join(c for _, c in ch) == stem and len(ch) == -(-len(stem) // cs) and [l for l, _ in ch] == [False] * (len(ch) - 1) + [True], "C19: chunking", {"len": len(stem), "chunk": cs, "got": repr(ch)[:200]})
        t.close()
        res["evals"] += 1
    res["nontrivial"] = True
    res["distinct"] = hi - lo
    res["sample"] = {"lengths": [lo, hi]}


def job_bytevalues(spec, res):
    """C01/C02 over every non-separator byte value inside a stem (first, middle, last
    position of the stem; as first stem and as a later one)"""
    for b in range(spec["lo"], spec["hi"]):
        if b == 0x7C:
            continue
        c = bytes([b])
        lrus = [b"p:a" + c + b"z|", c + b"|q:" + c + b"|", b"h:x|" + c + c + b"|" + b"y" + c + b"|"]
        t = open_traph(None)
        res["op"] = {"byte": b}
        for l in lrus:
            t.add_page(l)
        for l in lrus:
            n_ = t.lru_trie.lru_node(l)
            expect(n_ is not None, "C02: a stored LRU is not found by the top-down lookup", {"byte": b, "lru": repr(l)})
            expect(t.lru_trie.windup_lru(n_.block) == l, "C02: bottom-up reconstruction differs from the submitted LRU", {"byte": b, "lru": repr(l), "got": repr(t.lru_trie.windup_lru(n_.block))})
        got = sorted(l for _, l in t.pages_iter())
        expect(got == sorted(lrus), "C01/C02: page enumeration differs from the submitted LRUs", {"byte": b, "got": repr(got)[:300], "expected": repr(sorted(lrus))[:300]})
        expect(t.count_pages() == len(lrus), "C01: page count", {"byte": b, "count": t.count_pages()})
        t.close()
        res["evals"] += 1
    res["nontrivial"] = True
    res["distinct"] = spec["hi"] - spec["lo"]
    res["sample"] = {"bytes": [spec["lo"], spec["hi"]]}


def job_empty_metrics(spec, res):
    """C19 on the empty history"""
    for backend in ("memory", "file"):
        d = tempfile.mkdtemp(prefix="vb_") if backend == "file" else None
        t = open_traph(d)
        try:
            res["op"] = {"request": "metrics() on a fresh index", "backend": backend}
            mt = t.metrics()
            expect(mt["lru_trie"]["nb_pages"] == 0 and mt["lru_trie"]["nb_tail_nodes"] == 0 and mt["link_store"]["nb_links"] == 0, "C19: metrics of an empty index", repr(mt))
            res["evals"] += 1
        finally:
            t.close()
            if d:
                shutil.rmtree(d, ignore_errors=True)
    res["nontrivial"] = True
    res["sample"] = "fresh index"


# --------------------------------------------------------------------------- token codec (C09)
def job_tokens(spec, res):
    from traph.helpers import build_pagination_token, parse_pagination_token, int_to_base4, base4_append, base4_int

    r = random.Random(spec["seed"])
    n = 0
    vals = list(range(0, 300)) + [r.getrandbits(r.randint(1, 200)) for _ in range(300)] + [64 ** k + d for k in range(1, 20) for d in (-1, 0, 1)]
    for path in vals:
        for i in (0, 1, 7, 123456):
            tok = build_pagination_token(i, path)
            res["op"] = {"i": i, "path": str(path)}
            expect(parse_pagination_token(tok) == (i, path), "%s: token does not round-trip" % spec["prop"], [i, str(path), tok])
            n += 1
    for _ in range(300):
        digs = [r.choice([1, 2, 3]) for _ in range(r.randint(0, 60))]
        p = 0
        for d in digs:
            p = base4_append(p, d)
        if digs:
            expect(int_to_base4(p) == "".join(map(str, digs)), "C09: path numeral", digs)
        n += 1
    res["evals"] = n
    res["distinct"] = n
    res["nontrivial"] = True
    res["sample"] = {"tokens": [build_pagination_token(1, 27), build_pagination_token(0, 0)]}


JOBS = {
    "hist": job_hist,
    "exh": job_exh,
    "paginate_insert": job_paginate_insert,
    "interleave": job_interleave,
    "torn": job_torn,
    "variations": job_variations,
    "variations_creation": job_variations_creation,
    "lengths": job_lengths,
    "bytevalues": job_bytevalues,
    "empty_metrics": job_empty_metrics,
    "tokens": job_tokens,
}
