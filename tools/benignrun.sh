#!/bin/bash
# applies a benign refactoring patch to /repo, runs every quick check, undoes it: every check must exit 0
d=/verif/seeded/$1
export VERIF_EVIDENCE_DIR=/tmp/verif_scratch_evidence; mkdir -p $VERIF_EVIDENCE_DIR
cd /repo && git apply $d/patch.diff || { echo "APPLY FAILED"; exit 9; }
cd /verif
for p in C01 C02 C03 C04 C05 C06 C07 C08 C09 C10 C11 C12 C13 C14 C15 C16 C17 C18 C19 C20; do python3-vt vcheck.py $p > /tmp/benign_$p.log 2>&1; echo "$p exit=$? $(grep -c '^VIOLATION' /tmp/benign_$p.log) $(tail -1 /tmp/benign_$p.log | cut -c1-140)"; done
git -C /repo checkout -- .
