"""developer tool: run one function's verification over n shards in parallel"""
import sys, os, json, subprocess, time
from concurrent.futures import ThreadPoolExecutor
groups, qual = sys.argv[1], sys.argv[2]
n = int(sys.argv[3]) if len(sys.argv) > 3 else 16
timeout = int(sys.argv[4]) if len(sys.argv) > 4 else 10000
env = dict(os.environ); env['PYTHONPATH'] = '/verif:' + env.get('VERIF_REPO', '/repo')
def run(k):
    out = subprocess.run(['python3-vt', '-m', 'pyvc.worker', groups, qual, str(k), str(n), str(timeout), os.environ.get('MAXFAIL','0')], capture_output=True, text=True, env=env, cwd='/verif')
    try: return json.loads(out.stdout)
    except Exception: return {'error': 'no json: ' + out.stderr[-2000:], 'obligations': []}
t0 = time.time()
with ThreadPoolExecutor(n) as ex: rs = list(ex.map(run, range(n)))
obs = [o for r in rs for o in r['obligations']]
errs = [r['error'] for r in rs if r.get('error')]
print(qual, 'generated', rs[0].get('generated'), 'checked', len(obs), 'proved', sum(o['status'] == 'proved' for o in obs), 'wall %.1fs' % (time.time() - t0), 'errors', len(errs))
for e in errs[:2]: print(e[-1500:])
from collections import Counter
bad = [o for o in obs if o['status'] != 'proved']
c = Counter((o['status'], o.get('stage1'), o['id'].split('::', 1)[1].split('@')[0]) for o in bad)
for k, v in sorted(c.items(), key=lambda x: -x[1])[:int(os.environ.get('TOP', '60'))]: print('  ', v, k)
