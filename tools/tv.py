import sys, time, json, os
sys.path.insert(0,'/verif')
from pyvc.extract import Program
from pyvc.lib import Lib
from pyvc.verify import verify_function
import importlib
grps=sys.argv[1].split(','); only=sys.argv[2] if len(sys.argv)>2 and sys.argv[2]!='-' else None
prog=Program(os.environ.get('VERIF_REPO','/repo')); lib=Lib(prog)
allcs=[]
for g in grps:
    mod=importlib.import_module('contracts.'+g)
    cs=mod.install(lib) if hasattr(mod,'install') else mod.contracts()
    for c in cs: lib.register(c)
    allcs.append((g,cs))
tot=ok=0
target=grps[-1]
for g,cs in allcs:
  if g!=target: continue
  for c in cs:
    if only and only not in c.qual: continue
    r=verify_function(prog,lib,c.qual, timeout_ms=int(sys.argv[3]) if len(sys.argv)>3 else 10000, only=sys.argv[4] if len(sys.argv)>4 else None)
    n=len(r['obligations']); pr=sum(1 for o in r['obligations'] if o['status']=='proved')
    tot+=n; ok+=pr
    if n!=pr or r['error'] or os.environ.get('V'): print('%-45s paths=%d obligations=%d proved=%d %s %.2fs'%(c.qual,r['paths'],n,pr,r['error'] or '',r.get('wall_s',0)))
    for o in r['obligations']:
        if o['status']!='proved': print('    ',o['status'],o['id'],o.get('stage'),o['time_s'],(o.get('detail') or ''), (o.get('model') or o.get('stage1_model') or '')[:int(os.environ.get('ML','500'))].replace('\n','; '))
print('TOTAL',ok,'/',tot)
