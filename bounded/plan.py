"""
Which bounded jobs stand in for which property, per tier; and the pool runner.
"""
import itertools
import json
import multiprocessing as mp
import os
import time

from . import jobs as J


def _hist(prop, seeds, **kw):
    return [dict(kind="hist", prop=prop, seed=s, **kw) for s in seeds]


def _exh(prop, n_ops, **kw):
    uni = J.small_universe(prop)
    return [dict(kind="exh", prop=prop, seed=1000 + i, indices=list(idx), **kw) for i, idx in enumerate(itertools.product(range(len(uni)), repeat=n_ops))]


def plan(prop, tier, seed):
    q = tier == "quick"
    base = seed * 100000
    S = lambda n, off=0: range(base + off, base + off + n)
    n_short, n_long, nops = (240, 120, 20) if q else (2400, 1200, 35)
    jobs = []
    if prop in ("C01", "C02", "C03", "C04", "C05", "C07", "C08", "C10", "C13", "C20", "C19"):
        jobs += _hist(prop, S(n_short), nops=nops, alpha="short")
        jobs += _hist(prop, S(n_long, 5000), nops=nops, alpha="long")
        jobs += _hist(prop, S(n_long // 2, 7000), nops=nops, alpha="sameblock")
        jobs += _hist(prop, S(n_short // 3, 9000), nops=nops, alpha="tiny")
        jobs += _exh(prop, 2 if q else 3)
    RULES_KINDS = ["page", "page", "links", "batch", "pages", "pages", "create", "@addp", "@rmp", "@move", "@del", "rule"]
    if prop == "C04":
        jobs += _hist(prop, S(n_short, 12000), nops=22, mode="rules", kinds=RULES_KINDS)
    elif prop in ("C01", "C02", "C03", "C05", "C07", "C08", "C10", "C13", "C20", "C19"):
        # web-shaped LRUs under creation rules (automatic creations, pages submitted
        # through add_pages with and without the crawled mark)
        jobs += _hist(prop, S(n_short // 2, 12000), nops=22, mode="rules", kinds=RULES_KINDS)
    if prop in ("C01", "C02", "C19"):
        step = 12 if q else 4
        jobs += [dict(kind="lengths", prop=prop, seed=0, lo=a, hi=min(a + step, 232)) for a in range(1, 232, step)][:: (3 if q else 1)]
        if q:
            jobs += [dict(kind="lengths", prop=prop, seed=0, lo=a, hi=a + 3) for a in (73, 147, 221)]
    if prop in ("C01", "C02", "C19", "C12", "C04"):
        # the in-memory back end on its own (header rewrites, appends, lengths)
        jobs += _hist(prop, S(n_short // 3, 15000), nops=nops, alpha="short", backend="memory")
    if prop in ("C01", "C02"):
        jobs += [dict(kind="bytevalues", prop=prop, seed=0, lo=a, hi=a + 32) for a in range(0, 256, 32)]
    if prop == "C19":
        jobs += [dict(kind="empty_metrics", prop=prop, seed=0)]
    if prop == "C09":
        jobs += _hist(prop, S(n_short // 2), nops=nops, alpha="short")
        jobs += _hist(prop, S(n_short // 2, 9000), nops=nops, alpha="tiny")
        jobs += _hist(prop, S(n_long // 4, 5000), nops=nops, alpha="long")
        jobs += [dict(kind="paginate_insert", prop=prop, seed=s) for s in S(150 if q else 3000, 20000)]
        jobs += [dict(kind="tokens", prop=prop, seed=s) for s in S(1 if q else 8, 30000)]
        jobs += _exh(prop, 2 if q else 3)
    if prop == "C10":
        # every token the paginators can issue must be read back as issued
        jobs += [dict(kind="tokens", prop=prop, seed=s) for s in S(1 if q else 8, 30000)]
    if prop == "C06":
        kinds = ["page", "page", "page", "page", "rule", "links", "pages", "batch"]
        jobs += _hist(prop, S(400 if q else 5000), nops=25, mode="rules", kinds=kinds, reopen=True)
    if prop == "C11":
        jobs += _hist(prop, S(n_short), nops=nops, alpha="short", backend="twin", reopen=True, clear=True)
        jobs += _hist(prop, S(n_long // 2, 5000), nops=nops, alpha="long", backend="twin", reopen=True, clear=True)
        jobs += _hist(prop, S(n_short, 9000), nops=20, mode="rules", kinds=["page", "page", "page", "links", "rule", "reopen", "reopen", "clear"], backend="twin")
    if prop == "C12":
        kinds = ["create", "create", "@del", "@addp", "@move", "page", "reopen", "reopen", "clear"]
        jobs += _hist(prop, S(n_short), nops=nops, alpha="tiny", kinds=kinds)
        jobs += _hist(prop, S(n_short, 9000), nops=25, mode="rules", kinds=["page", "page", "rule", "create", "@del", "reopen", "links", "clear"])
    if prop == "C14":
        jobs += _hist(prop, S(n_short // 2), nops=nops, alpha="short")
        jobs += _hist(prop, S(n_long // 3, 5000), nops=nops, alpha="long", backend="memory")
        jobs += _hist(prop, S(n_short // 3, 9000), nops=20, mode="rules", kinds=["page", "page", "links", "rule", "batch"])
    if prop == "C15":
        jobs += _hist(prop, S(n_short), nops=nops, alpha="short", backend="twin")
        jobs += _hist(prop, S(n_short // 2, 3000), nops=nops, alpha="short", backend="twin", clear=True)
        jobs += _hist(prop, S(n_long, 5000), nops=nops, alpha="long", backend="twin")
        jobs += _hist(prop, S(n_short // 3, 9000), nops=20, mode="rules", kinds=["page", "page", "links", "rule", "batch"], backend="twin")
    if prop == "C16":
        jobs += [dict(kind="interleave", prop=prop, seed=s, schedules=12 if q else 40, three=(s % 2 == 0)) for s in S(60 if q else 800)]
    if prop == "C17":
        parts = 16
        jobs += [dict(kind="variations", prop=prop, seed=0, part=p, parts=parts, max_hosts=3 if q else 4, max_path=1 if q else 2) for p in range(parts)]
        jobs += [dict(kind="variations_creation", prop=prop, seed=s) for s in S(60 if q else 600)]
    if prop == "C18":
        jobs += [dict(kind="torn", prop=prop, seed=s, nops=4 if q else 6, rules=(s % 3 == 0)) for s in S(48 if q else 600)]
    return jobs


def run_bounded(prop, tier, seed, procs=None, budget_s=None):
    """returns dict(summary) ; never raises for oracle failures"""
    jobs = plan(prop, tier, seed)
    t0 = time.time()
    procs = procs or min(16, os.cpu_count() or 4)
    results = []
    crashes = []
    if jobs:
        ctx = mp.get_context("fork")
        with ctx.Pool(procs) as pool:
            it = pool.imap_unordered(_safe, jobs, chunksize=1)
            for r in it:
                if "crash" in r:
                    crashes.append(r)
                else:
                    results.append(r)
    fails = [r for r in results if r["fail"]]
    sigs = set(r["sig"] for r in results if r["nontrivial"])
    distinct = sum(r.get("distinct", 0) for r in results if r.get("distinct")) or 0
    distinct += len(set(r["sig"] for r in results if r["nontrivial"] and not r.get("distinct")))
    kinds = sorted(set(j["kind"] for j in jobs))
    exhaustive_part = [j for j in jobs if j["kind"] in ("exh", "variations", "lengths", "bytevalues")]
    return {
        "jobs": len(jobs),
        "kinds": kinds,
        "evaluations": sum(r["evals"] for r in results),
        "distinct_nontrivial": distinct,
        "fails": fails,
        "crashes": crashes,
        "known": sorted(set(tuple(k) for r in results for k in r["known"])),
        "samples": [r["sample"] for r in results if r.get("sample")][:3],
        "exhaustive_jobs": len(exhaustive_part),
        "wall_s": round(time.time() - t0, 2),
    }


def _safe(spec):
    import traceback

    try:
        r = J.run_job(spec)
        r["spec"] = spec
        return r
    except BaseException as e:
        return {"crash": traceback.format_exc(), "spec": spec}
