"""
Which machinery decides which property (DESIGN section 5).

DEDUCTIVE[prop] = list of (group chain, function, bytes mode, shards, tier)
   tier "quick": run by both tiers; "thorough": only by the thorough tier.
STATIC[prop]    = list of effect / typestate obligation families.
The bounded stand-in plan is in bounded/plan.py.
"""

ST = ("storage", "seq")
HE = ("helpers", "seq")
NO = ("helpers,node", "seq")
TR = ("helpers,node,trie", "abstract")
LK = ("helpers,node,link", "seq")
FA = ("helpers,node,trie,facade", "abstract")
LA = ("helpers,ladder", "abstract")
LB = ("helpers,prefixes", "abstract")
LP = ("helpers,pagination", "abstract")
LC = ("helpers,batch", "abstract")

STORAGE_FNS = [
    "MemoryStorage.__len__",
    "MemoryStorage.count_blocks",
    "MemoryStorage.read",
    "MemoryStorage.write",
    "FileStorage.__len__",
    "FileStorage.count_blocks",
    "FileStorage.read",
    "FileStorage.write",
    "MemMapStorage.read",
    "FileStorage.check_for_corruption",
]
NODE_ACCESSORS = [
    "has_left", "left", "has_right", "right", "has_child", "child", "has_parent", "parent", "has_outlinks", "outlinks", "has_inlinks", "inlinks",
    "has_webentity", "webentity", "is_page", "is_crawled", "has_webentity_creation_rule", "has_tail", "is_tail", "can_have_child_webentities", "stem",
]
NODE_FLAG_SETTERS = ["flag_as_page", "unflag_as_page", "flag_as_crawled", "unflag_as_crawled", "flag_as_webentity_creation_rule", "unflag_as_webentity_creation_rule", "flag_as_having_tail", "flag_can_have_child_webentities"]
NODE_FIELD_SETTERS = ["set_left", "set_right", "set_child", "set_parent", "set_outlinks", "set_inlinks", "set_webentity", "unset_webentity"]


def T(chain, fn, shards=1, tier="quick", only=""):
    return (chain[0], fn, chain[1], shards, tier, only)


def node(names):
    return [T(NO, "LRUTrieNode." + n) for n in names]


NODE_RW = [T(NO, "LRUTrieNode.read", 2), T(NO, "LRUTrieNode.write", 8), T(NO, "LRUTrieNode.set_stem")]
CHUNKS = [T(HE, "detailed_chunks_iter", 4), T(HE, "chunks_iter")]
LRU_ITER = [T(HE, "lru_iter", 4)]
LRU_DIRNAME = [T(HE, "lru_dirname")]
ENSURE = [T(TR, "LRUTrie.__ensure_stem_from_siblings", 8)]
# add_lru: the whole function in the thorough tier (7 min); in the quick tier the
# obligations of its descending loop (entry and preservation of every invariant clause
# across __ensure_stem_from_siblings, the flag write and read_child)
ADD_LRU = [T(TR, "LRUTrie.add_lru", 16, "thorough"), T(TR, "LRUTrie.add_lru", 16, "quick-only", only="while#0:")]
# C13 also needs the hand-over to the child-creation loop (where the last existing
# ancestor must already be unmarked)
ADD_LRU_C13 = [T(TR, "LRUTrie.add_lru", 16, "thorough"), T(TR, "LRUTrie.add_lru", 16, "quick-only", only="while#0:|while#1:entry:flagging")]
STORAGE = [T(ST, f, 2 if f.endswith(".write") else 1) for f in STORAGE_FNS]
LINK_NODE = [T(LK, "LinkStoreNode." + n) for n in ("has_previous", "previous", "has_target", "target", "set_previous", "set_target", "read")]
ADD_LINKS = [T(LK, "LinkStore.add_links", 8)]
WALKS = [T(LK, "LinkStore.weighted_link_nodes_iter", 2), T(LK, "LinkStore.deduped_link_nodes_iter", 2)]
COUNT_LINKS = [T(LK, "LinkStore.count_links")]
ADD_PAGE = [T(FA, "LRUTrie.add_page", 4)]
EDITS = [T(FA, "Traph.add_prefix_to_webentity", 4), T(FA, "Traph.remove_prefix_from_webentity", 6), T(FA, "Traph.move_prefix_to_webentity", 6)]
IDS = [T(FA, "Traph.__generated_web_entity_id"), T(FA, "LRUTrieHeader.__init__")]
RESOLVE = [T(FA, "Traph.retrieve_webentity"), T(FA, "Traph.retrieve_prefix")]
READERS = [T(TR, "LRUTrie.lru_node", 16), T(TR, "LRUTrie.follow_lru", 16)]
WINDUP = [T(TR, "LRUTrie.windup_lru", 2)]
COUNTS = [T(TR, "LRUTrie.count_pages"), T(TR, "LRUTrie.count_crawled_pages")]
DFS = [T(TR, "LRUTrie.dfs_iter", 2), T(TR, "LRUTrie.pages_iter", 2)] + LRU_DIRNAME
REALM = [T(TR, "LRUTrie.webentity_dfs_iter", 4)] + LRU_DIRNAME
# the automatic-creation ladder, verified against the contracts of what it calls
LADDER = [T(LA, "Traph.__add_page"), T(LA, "Traph.__create_webentity")]
ADD_PAGES = [T(LA, "Traph.add_page"), T(LA, "Traph.add_pages")]
# explicit creation: the scan / attach loops of __add_prefixes against the contracts of add_lru, the node protocol and the id generator
PREFIXES = [T(LB, "Traph.__add_prefixes"), T(LB, "Traph.create_webentity"), T(LB, "Traph.delete_webentity"), T(LB, "Traph.get_webentity_by_prefix")]
LD = ("helpers,batchlinks", "abstract")
LN = ("helpers,network", "abstract")
LS_ = ("helpers,networkslow", "abstract")
LH = ("helpers,hierarchy", "abstract")
LR = ("helpers,rules", "abstract")
LW = ("helpers,wepages", "abstract")
LQ = ("helpers,pagelinks1", "abstract")
LL = ("helpers,linksiter", "abstract")
WEPAGES = [T(LW, "Traph.get_webentity_pages_iter"), T(LW, "Traph.get_webentity_crawled_pages_iter")]
RULES = [T(LR, "Traph.add_webentity_creation_rule_iter"), T(LR, "Traph.remove_webentity_creation_rule")]
LI = ("helpers,cited", "abstract")
CITED = [T(LI, "Traph.get_webentity_outlinks_iter", 2), T(LI, "Traph.get_webentity_inlinks_iter", 2)]
HIER = [T(LH, "Traph.get_webentity_parent_webentities"), T(LH, "Traph.get_webentity_child_webentities_iter")]
BATCH = [T(LC, "Traph.index_batch_crawl_iter"), T(LD, "Traph.add_links")]
LINK_WRAPPERS = [T(LA, "LinkStore.add_outlinks"), T(LA, "LinkStore.add_inlinks")]

DEDUCTIVE = {
    "C01": node(["is_page", "is_crawled", "flag_as_page", "flag_as_crawled", "unflag_as_page", "unflag_as_crawled"]) + CHUNKS + NODE_RW + ENSURE + ADD_PAGE + COUNTS + DFS + LADDER[:1] + ADD_PAGES + BATCH + ADD_LRU,
    "C02": STORAGE[2:4] + STORAGE[6:9] + CHUNKS + NODE_RW + node(["stem", "left", "right", "child", "has_left", "has_right", "has_child", "set_left", "set_right", "set_child", "set_parent"]) + ENSURE + LRU_ITER + READERS + WINDUP + DFS + ADD_LRU,
    "C03": node(["has_outlinks", "outlinks", "has_inlinks", "inlinks", "set_outlinks", "set_inlinks"]) + NODE_RW[:2] + LINK_NODE + ADD_LINKS + LINK_WRAPPERS + BATCH + [T(LL, "Traph.links_iter"), T(LQ, "Traph.get_page_links", 2), T(LA, "Traph.get_page_indegree"), T(LA, "Traph.get_page_outdegree"), T(LA, "Traph.get_page_degree")] + WALKS + COUNT_LINKS,
    "C04": node(["has_webentity", "webentity", "set_webentity", "unset_webentity"]) + NODE_RW[:2] + EDITS + LRU_ITER + READERS[1:] + RESOLVE + LADDER[:1] + PREFIXES,
    "C05": node(["has_webentity", "is_page", "is_crawled", "has_child", "child", "has_left", "has_right"]) + READERS + RESOLVE[:1] + REALM + LADDER[:1] + WEPAGES,
    "C06": node(["has_webentity_creation_rule", "flag_as_webentity_creation_rule", "unflag_as_webentity_creation_rule"]) + READERS[1:] + [T(HE, "LRUTrieWalkHistory.rules_to_apply")] + LADDER + [T(LA, "Traph.get_potential_prefix")] + RULES,
    "C07": node(["has_webentity", "webentity", "has_parent", "parent"]) + LINK_NODE + WALKS + [T(TR, "LRUTrie.dfs_with_webentity_iter", 2), T(TR, "LRUTrie.windup_lru_for_webentity", 2), T(LN, "Traph.get_webentities_links_iter"), T(LS_, "Traph.get_webentities_links_slow_iter")],
    "C08": node(["has_outlinks", "has_inlinks", "outlinks", "inlinks"]) + LINK_NODE + WALKS + [T(TR, "LRUTrie.windup_lru_for_webentity", 2)] + WINDUP + [T(LP, "Traph.get_webentity_pagelinks_iter", 2)] + CITED,
    "C09": [T(HE, "base4_append")] + LRU_DIRNAME + [T(LP, "Traph.paginate_webentity_pages", 2)],
    "C10": node(["has_outlinks", "outlinks", "is_page"]) + [T(LP, "Traph.paginate_webentity_pagelinks", 4)],
    "C11": STORAGE + IDS[1:] + RULES[:1],
    "C12": IDS + PREFIXES[:2] + [T(ST, "FileStorage.write", 2), T(ST, "MemoryStorage.write", 2)],
    "C13": node(["can_have_child_webentities", "flag_can_have_child_webentities", "has_parent", "parent"]) + ENSURE + EDITS + DFS[:1] + LADDER[:1] + PREFIXES[:1] + HIER + ADD_LRU_C13,
    "C14": [T(ST, f) for f in ("MemoryStorage.read", "FileStorage.read", "MemMapStorage.read", "MemoryStorage.__len__", "FileStorage.__len__", "FileStorage.check_for_corruption")] + [T(NO, "LRUTrieNode.read", 2)] + node(NODE_ACCESSORS) + READERS,
    "C15": STORAGE + [T(NO, "LRUTrieNode.read", 2)],
    "C16": NODE_RW[:2] + ADD_LINKS + BATCH + ENSURE,
    "C17": [T(HE, "https_variation"), T(HE, "lru_variations")] + LADDER + PREFIXES[:1],
    "C18": [T(NO, "LRUTrieNode.read", 2), T(NO, "LRUTrieNode.write", 8), T(LK, "LinkStoreNode.read")] + ADD_LINKS + WALKS + COUNTS + [T(ST, "FileStorage.check_for_corruption"), T(ST, "FileStorage.read"), T(ST, "FileStorage.write", 2)],
    "C19": CHUNKS + [T(NO, "LRUTrieNode.set_stem"), T(NO, "LRUTrieNode.write", 8), T(ST, "MemoryStorage.count_blocks"), T(ST, "FileStorage.count_blocks"), T(ST, "MemoryStorage.write", 2), T(ST, "FileStorage.write", 2)] + ENSURE + LADDER[:1] + ADD_LRU + ADD_LINKS + COUNT_LINKS,
    "C20": node(["has_inlinks", "inlinks", "is_page"]) + LINK_NODE + WALKS + REALM,
}

# FR-STATE is a premise of every property that relates answers to the history of
# requests: answers are functions of the two stores (no other mutable RAM state)
STATIC = {
    "C01": ["TS", "FR-STATE"],
    "C02": ["FR-STATE"],
    "C03": ["TS", "FR-STATE", "PRE-STUB:get_page_links,links_iter,links_metrics", "LK-PAIR"],
    "C04": ["TS", "FR-STATE"],
    "C05": ["FR-STATE"],
    "C06": ["FR-RO:get_potential_prefix", "FR-STATE"],
    "C09": ["FR-STATE", "SK-PAIR"],
    "C10": ["FR-STATE", "PRE-STUB:paginate_webentity_pagelinks", "SK-PAIR"],
    "C20": ["FR-STATE", "PRE-STUB:most_linked"],
    "C07": ["FR-STATE", "PRE-STUB:get_webentities_links"],
    "C08": ["FR-STATE", "PRE-STUB:get_webentity_pagelinks_iter,get_webentity_outlinks_iter,get_webentity_inlinks_iter"],
    "C11": ["FR-STATE"],
    "C12": ["FR-ID", "FR-STATE"],
    "C13": ["TS", "FR-STATE"],
    "C14": ["FR-RO"],
    "C15": ["FR-SHAPE", "FR-STATE"],
    "C16": ["TS", "FR-STATE"],
}

ALL = ["C%02d" % i for i in range(1, 21)]
