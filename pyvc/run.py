"""
pyvc.run — fan verification tasks out to worker processes and gather the results.

A task is (groups, qualname, bytes_mode, shards).  Each (task, shard) is one worker
process (`python -m pyvc.worker ...`) so that every run re-reads /repo's current source
and the byte-string mode is fixed per process.
"""
import json
import os
import subprocess
import sys
import time
from concurrent.futures import ThreadPoolExecutor

HERE = os.path.dirname(os.path.dirname(os.path.abspath(__file__)))
PY = sys.executable


def _one(job):
    groups, qual, mode, k, n, timeout, max_fail, repo = job[:8]
    only = job[8] if len(job) > 8 else ""
    env = dict(os.environ)
    env["PYTHONPATH"] = HERE + os.pathsep + repo
    env["VERIF_REPO"] = repo
    if mode == "abstract":
        env["PYVC_BYTES"] = "abstract"
    else:
        env.pop("PYVC_BYTES", None)
    t0 = time.time()
    try:
        out = subprocess.run([PY, "-m", "pyvc.worker", groups, qual, str(k), str(n), str(timeout), str(max_fail), only], capture_output=True, text=True, env=env, cwd=HERE, timeout=3600)
        r = json.loads(out.stdout)
    except Exception as e:
        err = ""
        try:
            err = out.stderr[-1500:]
        except Exception:
            pass
        r = {"function": qual, "error": "engine: worker failed: %r %s" % (e, err), "crash": True, "obligations": []}
    r["mode"] = mode
    r["groups"] = groups
    r["worker_wall_s"] = round(time.time() - t0, 2)
    return r


def run_tasks(tasks, repo, timeout_ms=10000, procs=16, max_fail=6):
    """tasks: [(groups, qual, mode, shards)] -> {qual: merged result}"""
    jobs = []
    for task in tasks:
        groups, qual, mode, shards = task[:4]
        only = task[4] if len(task) > 4 else ""
        for k in range(shards):
            jobs.append((groups, qual, mode, k, shards, timeout_ms, max_fail, repo, only))
    # heavy first
    jobs.sort(key=lambda j: -j[4])
    with ThreadPoolExecutor(procs) as ex:
        rs = list(ex.map(_one, jobs))
    merged = {}
    retry = []
    for r in rs:
        for o in r.get("obligations", []):
            if o["status"] == "unknown" and o.get("stage1") != "sat":
                retry.append((r["groups"], r["function"], r["mode"], 0, 1, timeout_ms * 4, 0, repo, o["id"].split("::", 1)[1]))
    # solver timeouts are retried once, alone and with four times the budget (the
    # sequence solvers are sensitive to load); a candidate counter-model is not retried
    retried = {}
    if retry and len(retry) <= 12:
        with ThreadPoolExecutor(4) as ex:
            for job, rr in zip(retry, ex.map(_one, retry)):
                for o in rr.get("obligations", []):
                    retried[o["id"]] = o
    for r in rs:
        if retried:
            r["obligations"] = [retried.get(o["id"], o) if o["status"] == "unknown" else o for o in r.get("obligations", [])]
        q = r["function"]
        m = merged.get(q)
        if m is None:
            m = merged[q] = {"function": q, "hash": r.get("hash"), "obligations": [], "errors": [], "undecided": False, "crash": False, "generated": r.get("generated"), "contracts_used": r.get("contracts_used", []), "inlined": r.get("inlined", []), "mode": r.get("mode"), "groups": r.get("groups"), "wall_s": 0.0, "paths": r.get("paths")}
        m["obligations"] += r.get("obligations", [])
        if r.get("error"):
            if r["error"] not in m["errors"]:
                m["errors"].append(r["error"])
            if r.get("undecided"):
                m["undecided"] = True
            if r.get("crash"):
                m["crash"] = True
        m["wall_s"] = max(m["wall_s"], r.get("worker_wall_s", 0))
        for k in ("contracts_used", "inlined"):
            if r.get(k) and not m.get(k):
                m[k] = r[k]
    return merged
