#!/bin/bash
# usage: tools/seedrun.sh <seed dir name> <prop> [tier]   -- applies the seeded change to /repo, runs the check, undoes it
set -u
d=/verif/seeded/$1; prop=$2; tier=${3:-quick}
export VERIF_EVIDENCE_DIR=/tmp/verif_scratch_evidence; mkdir -p $VERIF_EVIDENCE_DIR
cd /repo && git apply $d/patch.diff || { echo "APPLY FAILED"; exit 9; }
cd /verif && python3-vt vcheck.py $prop --tier $tier > /tmp/seedrun_$1_$prop.log 2>&1; code=$?
git -C /repo checkout -- . 
echo "$1 on $prop: exit=$code"; grep -c "^VIOLATION" /tmp/seedrun_$1_$prop.log; grep "violation:" /tmp/seedrun_$1_$prop.log | cut -c1-200 | sort | uniq -c | sort -rn | head -6; tail -2 /tmp/seedrun_$1_$prop.log | cut -c1-250
