"""
Contracts for the hierarchy queries of traph/traph.py (C13), verified against the
contracts of what they call; the trie is abstract:

    Traph.get_webentity_parent_webentities(weid, prefixes)
    Traph.get_webentity_child_webentities_iter(weid, prefixes)

For prefix i the walk (node_parents_iter from the prefix's node, resp.
dfs_iter(node, prefix, skip_childless_paths=True)) is ANY finite sequence of nodes; node
(i, a) carries webentity WE_AT(i, a) (0 / None when none).  That these walks visit
exactly the proper stem-prefixes, resp. every descendant that may carry a webentity (the
pruning shortcut: invariant I9), is the subject of contracts/trie.py and of the bounded
stand-in.

Proved: the answer is EXACTLY the set of webentities met on the walks of ALL the given
prefixes that are non-null and differ from weid - nothing else (each member has a
witness node), nothing missing (every qualifying node's webentity is a member), every
prefix walked; the library's error iff a prefix is not stored.
"""
import z3

from pyvc.lib import Contract, LoopSpec, SeqView
from pyvc.sym import BOOL, BYTES, INT, Opt, Path, Ref, Unsupported, fresh, to_z3

NPFX = z3.Int("n_prefixes")
PFX = z3.Function("PREFIX", INT, BYTES)
STORED = z3.Function("PREFIX_STORED", INT, BOOL)
N_NODES = z3.Function("N_WALKED", INT, INT)
WE_NONE = z3.Function("NODE_HAS_NO_WEBENTITY", INT, INT, BOOL)
WE_AT = z3.Function("WEBENTITY_AT", INT, INT, INT)
WEID = z3.Int("weid")

IB = z3.ArraySort(INT, BOOL)
II = z3.ArraySort(INT, INT)


def qualifies(i, a):
    return z3.And(z3.Not(WE_NONE(i, a)), WE_AT(i, a) > 0, WE_AT(i, a) != WEID)


def axioms():
    i = z3.Int("i")
    return [NPFX >= 0, z3.ForAll([i], N_NODES(i) >= 0)]


def mk_world(p):
    p.w["__dom"] = z3.K(INT, z3.BoolVal(False))  # the answer set
    p.w["__wit_i"] = fresh("wit_i", II)  # witness node of each member
    p.w["__wit_a"] = fresh("wit_a", II)
    p.w["__outer"] = z3.IntVal(0)
    p.w["__cur_i"] = z3.IntVal(-1)
    p.w["__cur_a"] = z3.IntVal(-1)
    p.w["__lookups"] = z3.IntVal(0)
    p.w["__final"] = None
    p.w["__kind"] = None


class LruNodeCallee(Contract):
    qual = "LRUTrie.lru_node"

    def apply(self, ex, p, recv, args, kw, ln):
        q = p.fork()
        i = q.w["__outer"]
        ex.oblige(q, "looks-up-the-prefix-of-the-current-index", to_z3(args[0]) == PFX(i), ln, "post")
        node = q.new_obj("LRUTrieNode", {"__abstract": True, "__start_of": i})
        q.w["__lookups"] = z3.simplify(q.w["__lookups"] + 1)
        q.mut += 1
        return [(q, Opt(z3.Not(STORED(i)), node))]


def _walk(self, ex, p, recv, args, kw, ln, tuples):
    q = p.fork()
    i = q.w["__outer"]
    start = args[0]
    if isinstance(start, Opt) or start is None:
        start = ex.unwrap(start, q, "starting node of the walk", ln)
    ok = isinstance(start, Ref) and q.obj(start).f.get("__start_of") is not None
    ex.oblige(q, "walk-starts-at-the-node-of-the-current-prefix", z3.BoolVal(False) if not ok else q.obj(start).f["__start_of"] == i, ln, "post")
    if tuples:
        ex.oblige(q, "walk-is-given-the-current-prefix-and-uses-the-pruning-shortcut", z3.And(to_z3(args[1]) == PFX(i), to_z3(ex.truth(kw.get("skip_childless_paths", args[2] if len(args) > 2 else False), q))), ln, "post")
    q.w["__cur_i"] = i
    av = fresh("node_index", INT)
    q.w["__cur_a"] = av
    node = q.new_obj("LRUTrieNode", {"__abstract": True, "__walked": True})
    q.mut += 1
    if tuples:
        return q, SeqView(N_NODES(i), lambda a: (node, fresh("lru", BYTES)), facts=lambda a: [av == a])
    return q, SeqView(N_NODES(i), lambda a: node, facts=lambda a: [av == a])


class ParentsCallee(Contract):
    qual = "LRUTrie.node_parents_iter"

    def seq(self, ex, p, recv, args, kw, ln):
        return _walk(self, ex, p, recv, args, kw, ln, False)


class DfsCallee(Contract):
    qual = "LRUTrie.dfs_iter"

    def seq(self, ex, p, recv, args, kw, ln):
        return _walk(self, ex, p, recv, args, kw, ln, True)


class Webentity(Contract):
    qual = "LRUTrieNode.webentity"

    def apply(self, ex, p, recv, args, kw, ln):
        if not p.obj(recv).f.get("__walked"):
            raise Unsupported("node that is not a walked node")
        i, a = p.w["__cur_i"], p.w["__cur_a"]
        return [(p, Opt(WE_NONE(i, a), WE_AT(i, a)))]


CAN = z3.Function("START_NODE_MAY_HAVE_CHILD_WEBENTITIES", INT, BOOL)


class CanHaveChildren(Contract):
    """the pruning mark of a prefix's own node; when it says "no child webentity" the walk
    below holds no webentity (invariant I9 of contracts/trie.py)"""

    qual = "LRUTrieNode.can_have_child_webentities"

    def apply(self, ex, p, recv, args, kw, ln):
        i = p.obj(recv).f.get("__start_of")
        if i is None:
            raise Unsupported("pruning mark of a node that is not a prefix's node")
        q = p.fork()
        a = z3.Int("a")
        q.assume(z3.Implies(z3.Not(CAN(i)), z3.ForAll([a], z3.Implies(z3.And(a >= 0, a < N_NODES(i)), z3.Not(qualifies(i, a))))))
        return [(q, CAN(i))]


class ShouldYield(Contract):
    qual = "TraphIteratorState.should_yield"

    def apply(self, ex, p, recv, args, kw, ln):
        return [(p, fresh("suspend_here", BOOL))]


def set_add(ex, p, ref, k, v, ln):
    """weids.add(x): x must be the webentity of the node in hand, which qualifies"""
    i, a = p.w["__cur_i"], p.w["__cur_a"]
    if isinstance(k, Opt):
        k = ex.unwrap(k, p, "member of the answer", ln)
    kz = to_z3(k)
    ex.oblige(p, "member:is-the-webentity-of-the-node-in-hand,non-null-and-other-than-weid", z3.And(qualifies(i, a), kz == WE_AT(i, a)), ln, "post")
    p.w["__dom"] = z3.Store(p.w["__dom"], kz, z3.BoolVal(True))
    p.w["__wit_i"] = z3.Store(p.w["__wit_i"], kz, i)
    p.w["__wit_a"] = z3.Store(p.w["__wit_a"], kz, a)
    p.mut += 1
    return p


def _idx(p, which):
    ks = sorted([k for k in p.env if k.startswith("__i")], key=lambda k: int(k[3:]))
    return to_z3(p.env[ks[which]])


def sound(p):
    x = z3.Int("x")
    wi, wa = z3.Select(p.w["__wit_i"], x), z3.Select(p.w["__wit_a"], x)
    return ("every-member-has-a-witness-node", z3.ForAll([x], z3.Implies(z3.Select(p.w["__dom"], x), z3.And(wi >= 0, wi < NPFX, wa >= 0, wa < N_NODES(wi), qualifies(wi, wa), WE_AT(wi, wa) == x))))


def complete(p, i, a=None):
    """every qualifying node of the prefixes before i (and of the first a nodes of prefix
    i) has its webentity in the answer"""
    i2, a2 = z3.Ints("i2 a2")
    rng = z3.And(i2 >= 0, i2 < i)
    if a is not None:
        rng = z3.Or(rng, z3.And(i2 == i, a2 < a))
    return ("every-qualifying-node-walked-so-far-is-represented", z3.ForAll([i2, a2], z3.Implies(z3.And(rng, a2 >= 0, a2 < N_NODES(i2), qualifies(i2, a2)), z3.Select(p.w["__dom"], WE_AT(i2, a2)))))


def outer_inv(ex, p):
    i = _idx(p, 0)
    p.w["__outer"] = i
    return [sound(p), complete(p, i), ("one-lookup-per-prefix-handled", z3.And(i >= 0, p.w["__lookups"] == i))]


def inner_inv(ex, p):
    a = _idx(p, 1)
    i = p.w["__cur_i"]
    return [sound(p), complete(p, i, a), ("walk-is-the-current-prefix's", z3.And(i == p.w["__outer"], i >= 0, i < NPFX, a >= 0))]


def havoc(ex, p):
    st = p.env.get("state")
    if isinstance(st, Ref):
        p.obj(st).f["n_iterations"] = fresh("n_iterations", INT)


WORLD = ("__dom", "__wit_i", "__wit_a", "__lookups")


class Hierarchy(Contract):
    def __init__(self, name, gen):
        self.qual = "Traph." + name
        self.gen = gen
        if gen:
            self.on_yield = self._on_yield

    def _on_yield(self, ex, p, v, ln, tag):
        if isinstance(v, Ref) and p.obj(v).f.get("done") is True:
            p.w["__final"] = p.obj(v).f.get("result")
        return [(p, "normal", None)]

    def setups(self, ex):
        p = Path()
        for ax in axioms():
            p.assume(ax)
        mk_world(p)
        prefixes = p.new_obj("list", {"len": NPFX, "elem": lambda i: PFX(i)})
        trie = p.new_obj("LRUTrie", {})
        t = p.new_obj("Traph", {"lru_trie": trie, "encoding": "utf-8"})
        yield p, t, [WEID, prefixes], {}, "any"

    def check(self, ex, p0, res, tag):
        for p1, kind, val in res:
            if kind == "raise":
                if val[0] != "TraphException":
                    ex.oblige(p1, "raises-only-the-library's-error(%s)" % val[0], False, val[1])
                    continue
                ex.oblige(p1, "fails=>the-prefix-just-looked-up-is-not-stored", z3.Not(STORED(p1.w["__outer"])), val[1])
                continue
            out = p1.w["__final"] if self.gen else val
            ok = isinstance(out, Ref) and p1.obj(out).f.get("__from_set") is True
            ex.oblige(p1, "answers-with-the-list-of-the-set-gathered", z3.BoolVal(bool(ok)), None)
            nm, f = sound(p1)
            ex.oblige(p1, "answer:" + nm, f, None)
            nm, f = complete(p1, NPFX)
            ex.oblige(p1, "answer:every-qualifying-node-of-every-prefix-is-represented", f, None)


def set_contains(ex, p, ref, k, ln):
    if isinstance(k, Opt):
        k = ex.unwrap(k, p, "member looked up in the answer", ln)
    return z3.Select(p.w["__dom"], to_z3(k))


def install(lib):
    lib.map_store = set_add
    lib.map_contains = set_contains
    _builtin = lib.builtin

    def builtin(ex, name, args, kw, p, fctx, ln):
        if name == "list" and len(args) == 1 and isinstance(args[0], Ref) and p.obj(args[0]).cls == "set":
            q = p.fork()
            return [(q, q.new_obj("list", {"len": p.obj(args[0]).f["n"], "elem": lambda i: fresh("member", INT), "__from_set": True}))]
        return _builtin(ex, name, args, kw, p, fctx, ln)

    lib.builtin = builtin
    for fn in ("get_webentity_parent_webentities", "get_webentity_child_webentities_iter"):
        lib.loop_spec("Traph.%s::for#0" % fn, LoopSpec(outer_inv, havoc=havoc, world=WORLD))
        lib.loop_spec("Traph.%s::for#1" % fn, LoopSpec(inner_inv, havoc=havoc, world=("__dom", "__wit_i", "__wit_a")))
    return [LruNodeCallee(), ParentsCallee(), DfsCallee(), Webentity(), CanHaveChildren(), ShouldYield(), Hierarchy("get_webentity_parent_webentities", False), Hierarchy("get_webentity_child_webentities_iter", True)]


GROUP = "hierarchy"


# ============================================================================ cited / citing webentities (C08)
N_ITEMS = z3.Function("N_REALM_ITEMS", INT, INT)
IS_PAGE = z3.Function("IS_PAGE", INT, INT, BOOL)
HAS_L = z3.Function("HAS_LINKS", INT, INT, BOOL)
HEAD_L = z3.Function("LINKS_HEAD", INT, INT, INT)
N_L = z3.Function("N_DISTINCT_LINKED_BLOCKS", INT, INT, INT)
LINKED = z3.Function("LINKED_BLOCK", INT, INT, INT, INT)
B_NONE = z3.Function("BLOCK_RESOLVES_TO_NO_WEBENTITY", INT, BOOL)
B_WE = z3.Function("WEBENTITY_OF_BLOCK", INT, INT)


def resolves(b):
    return z3.And(z3.Not(B_NONE(b)), B_WE(b) != 0)


def cc_world(p):
    p.w["__done"] = z3.K(INT, z3.BoolVal(False))
    p.w["__ans"] = z3.K(INT, z3.BoolVal(False))
    p.w["__wit"] = fresh("witness_block", II)
    p.w["__outer"] = z3.IntVal(0)
    p.w["__cur_i"] = z3.IntVal(-1)
    p.w["__cur_j"] = z3.IntVal(-1)
    p.w["__cur_l"] = z3.IntVal(-1)
    p.w["__lookups"] = z3.IntVal(0)
    p.w["__final"] = None
    p.w["__read"] = z3.IntVal(-1)


class RealmCallee(Contract):
    qual = "LRUTrie.webentity_dfs_iter"

    def seq(self, ex, p, recv, args, kw, ln):
        q = p.fork()
        i = q.w["__outer"]
        start = args[0]
        if isinstance(start, Opt) or start is None:
            start = ex.unwrap(start, q, "starting node of the traversal", ln)
        ok = isinstance(start, Ref) and q.obj(start).f.get("__start_of") is not None
        ex.oblige(q, "traversal-starts-at-the-node-of-the-current-prefix", z3.BoolVal(False) if not ok else q.obj(start).f["__start_of"] == i, ln, "post")
        ex.oblige(q, "traversal-is-given-the-current-prefix", to_z3(args[1]) == PFX(i), ln, "post")
        q.w["__cur_i"] = i
        jv = fresh("item_index", INT)
        q.w["__cur_j"] = jv
        node = q.new_obj("LRUTrieNode", {"__abstract": True, "__item": True})
        q.mut += 1
        return q, SeqView(N_ITEMS(i), lambda j: (node, fresh("lru", BYTES)), facts=lambda j: [jv == j])


def _ij(p, recv):
    if not p.obj(recv).f.get("__item"):
        raise Unsupported("node that is not a traversal item")
    return p.w["__cur_i"], p.w["__cur_j"]


def _item_acc(name, fn):
    class A(Contract):
        qual = "LRUTrieNode." + name

        def apply(self, ex, p, recv, args, kw, ln):
            i, j = _ij(p, recv)
            return [(p, fn(i, j))]

    return A()


class DedupedCallee(Contract):
    """LinkStore.deduped_link_nodes_iter(head): the distinct blocks linked from the list
    (contract in contracts/link.py)"""

    qual = "LinkStore.deduped_link_nodes_iter"

    def seq(self, ex, p, recv, args, kw, ln):
        q = p.fork()
        i, j = q.w["__cur_i"], q.w["__cur_j"]
        ex.oblige(q, "walks-the-links-of-the-page-in-hand(in-the-queried-direction)", z3.And(HAS_L(i, j), to_z3(args[0]) == HEAD_L(i, j)), ln, "post")
        lv = fresh("link_index", INT)
        q.w["__cur_l"] = lv
        q.mut += 1
        return q, SeqView(N_L(i, j), lambda l: LINKED(i, j, l), facts=lambda l: [lv == l])


class ScratchNode(Contract):
    qual = "LRUTrie.node"

    def apply(self, ex, p, recv, args, kw, ln):
        q = p.fork()
        return [(q, q.new_obj("LRUTrieNode", {"__abstract": True, "__scratch": True, "block": None}))]


class ScratchRead(Contract):
    qual = "LRUTrieNode.read"

    def apply(self, ex, p, recv, args, kw, ln):
        q = p.fork()
        o = q.obj(recv)
        if not o.f.get("__scratch"):
            raise Unsupported("read of a node that is not the scratch node")
        i, j, l = q.w["__cur_i"], q.w["__cur_j"], q.w["__cur_l"]
        ex.oblige(q, "reads-the-linked-block-in-hand", to_z3(args[0]) == LINKED(i, j, l), ln, "post")
        o.f["block"] = LINKED(i, j, l)
        q.w["__read"] = LINKED(i, j, l)
        q.mut += 1
        return [(q, None)]


class WindupByBlock(Contract):
    qual = "LRUTrie.windup_lru_for_webentity"

    def apply(self, ex, p, recv, args, kw, ln):
        ok = isinstance(args[0], Ref) and p.obj(args[0]).f.get("__scratch")
        if not ok:
            raise Unsupported("windup of a node that is not the scratch node")
        b = p.obj(args[0]).f["block"]
        return [(p, Opt(B_NONE(to_z3(b)), B_WE(to_z3(b))))]


def cc_set_add(ex, p, ref, k, v, ln):
    if p.env.get("done_blocks") == ref:
        kz = to_z3(k)
        ex.oblige(p, "done-block:is-the-linked-block-in-hand", kz == p.w["__read"], ln, "post")
        p.w["__done"] = z3.Store(p.w["__done"], kz, z3.BoolVal(True))
        p.w["__pending"] = kz  # its webentity, if any, is due in the answer
        p.mut += 1
        return p
    if p.env.get("weids") != ref:
        raise Unsupported("a set that is neither done_blocks nor weids")
    if isinstance(k, Opt):
        k = ex.unwrap(k, p, "member of the answer", ln)
    kz = to_z3(k)
    b = p.w["__read"]
    ex.oblige(p, "member:is-the-webentity-the-linked-block-in-hand-resolves-to", z3.And(resolves(b), kz == B_WE(b)), ln, "post")
    p.w["__ans"] = z3.Store(p.w["__ans"], kz, z3.BoolVal(True))
    p.w["__wit"] = z3.Store(p.w["__wit"], kz, b)
    p.mut += 1
    return p


def cc_contains(ex, p, ref, k, ln):
    if p.env.get("done_blocks") == ref:
        return z3.Select(p.w["__done"], to_z3(k))
    raise Unsupported("membership test on a set other than done_blocks")


def cc_sound(p):
    x = z3.Int("x")
    b = z3.Select(p.w["__wit"], x)
    return ("every-member-is-the-webentity-of-a-handled-linked-block", z3.ForAll([x], z3.Implies(z3.Select(p.w["__ans"], x), z3.And(z3.Select(p.w["__done"], b), resolves(b), B_WE(b) == x))))


def cc_done(p):
    b = z3.Int("b")
    return ("every-handled-block-that-resolves-is-represented", z3.ForAll([b], z3.Implies(z3.And(z3.Select(p.w["__done"], b), resolves(b)), z3.Select(p.w["__ans"], B_WE(b)))))


def cc_complete(p, i, j=None, l=None):
    i2, j2, l2 = z3.Ints("i2 j2 l2")
    rng = z3.And(i2 >= 0, i2 < i)
    if j is not None:
        rng = z3.Or(rng, z3.And(i2 == i, j2 < j))
        if l is not None:
            rng = z3.Or(rng, z3.And(i2 == i, j2 == j, l2 < l))
    return ("every-linked-block-of-every-page-walked-so-far-is-handled", z3.ForAll([i2, j2, l2], z3.Implies(z3.And(rng, j2 >= 0, j2 < N_ITEMS(i2), IS_PAGE(i2, j2), HAS_L(i2, j2), l2 >= 0, l2 < N_L(i2, j2)), z3.Select(p.w["__done"], LINKED(i2, j2, l2)))))


def cc_outer(ex, p):
    i = _idx(p, 0)
    p.w["__outer"] = i
    return [cc_sound(p), cc_done(p), cc_complete(p, i), ("one-lookup-per-prefix-handled", z3.And(i >= 0, p.w["__lookups"] == i))]


def cc_items(ex, p):
    j = _idx(p, 1)
    i = p.w["__cur_i"]
    return [cc_sound(p), cc_done(p), cc_complete(p, i, j), ("traversal-is-the-current-prefix's", z3.And(i == p.w["__outer"], i >= 0, j >= 0))]


def cc_links(ex, p):
    l = _idx(p, -1)
    i, j = p.w["__cur_i"], p.w["__cur_j"]
    return [cc_sound(p), cc_done(p), cc_complete(p, i, j, l), ("walk-belongs-to-the-page-in-hand", z3.And(i == p.w["__outer"], i >= 0, j >= 0, j < N_ITEMS(i), IS_PAGE(i, j), HAS_L(i, j), l >= 0))]


CC_WORLD = ("__done", "__ans", "__wit", "__lookups", "__read")


class CitedCiting(Contract):
    """get_webentity_outlinks_iter / get_webentity_inlinks_iter over ANY realm / link
    sequences: the answer is exactly the set of webentities the linked blocks of the
    webentity's pages resolve to (blocks that resolve to none contribute nothing: D9);
    every linked block of every page of every prefix is handled (once: done_blocks)."""

    def __init__(self, name):
        self.qual = "Traph." + name

    def setups(self, ex):
        p = Path()
        i, j = z3.Ints("i j")
        for ax in axioms() + [z3.ForAll([i], N_ITEMS(i) >= 0), z3.ForAll([i, j], N_L(i, j) >= 0)]:
            p.assume(ax)
        cc_world(p)
        prefixes = p.new_obj("list", {"len": NPFX, "elem": lambda i: PFX(i)})
        trie = p.new_obj("LRUTrie", {})
        ls = p.new_obj("LinkStore", {})
        t = p.new_obj("Traph", {"lru_trie": trie, "link_store": ls, "encoding": "utf-8"})
        yield p, t, [WEID, prefixes], {}, "any"

    def on_yield(self, ex, p, v, ln, tag):
        if isinstance(v, Ref) and p.obj(v).f.get("done") is True:
            p.w["__final"] = p.obj(v).f.get("result")
        return [(p, "normal", None)]

    def check(self, ex, p0, res, tag):
        for p1, kind, val in res:
            if kind == "raise":
                if val[0] != "TraphException":
                    ex.oblige(p1, "raises-only-the-library's-error(%s)" % val[0], False, val[1])
                    continue
                ex.oblige(p1, "fails=>the-prefix-just-looked-up-is-not-stored", z3.Not(STORED(p1.w["__outer"])), val[1])
                continue
            ex.oblige(p1, "answers-with-the-set-gathered", z3.BoolVal(isinstance(p1.w["__final"], Ref) and p1.w["__final"] == p1.env.get("weids")), None)
            for nm, f in (cc_sound(p1), cc_done(p1), cc_complete(p1, NPFX)):
                ex.oblige(p1, "answer:" + nm, f, None)


def install_cited(lib):
    """the cited / citing variant of the group"""
    lib.map_store = cc_set_add
    lib.map_contains = cc_contains
    for fn in ("get_webentity_outlinks_iter", "get_webentity_inlinks_iter"):
        lib.loop_spec("Traph.%s::for#0" % fn, LoopSpec(cc_outer, havoc=havoc, world=CC_WORLD))
        lib.loop_spec("Traph.%s::for#1" % fn, LoopSpec(cc_items, havoc=havoc, world=("__done", "__ans", "__wit", "__read")))
        lib.loop_spec("Traph.%s::for#2" % fn, LoopSpec(cc_links, havoc=havoc, world=("__done", "__ans", "__wit", "__read")))
    accs = [_item_acc("is_page", IS_PAGE), _item_acc("has_outlinks", HAS_L), _item_acc("outlinks", HEAD_L), _item_acc("has_inlinks", HAS_L), _item_acc("inlinks", HEAD_L)]
    return [LruNodeCallee(), RealmCallee(), DedupedCallee(), ScratchNode(), ScratchRead(), WindupByBlock(), ShouldYield(), CitedCiting("get_webentity_outlinks_iter"), CitedCiting("get_webentity_inlinks_iter")] + accs


# ============================================================================ get_webentity_pages_iter / crawled variant (C05)
ITEM_LRU = z3.Function("ITEM_LRU", INT, INT, BYTES)
IS_CRAWLED = z3.Function("IS_CRAWLED", INT, INT, BOOL)
NPG = z3.Function("N_LISTED_AMONG_FIRST_ITEMS", INT, INT, INT)
CRAWLED_ONLY = z3.Bool("crawled_only_variant")


def listed(i, j):
    return z3.And(IS_PAGE(i, j), z3.Or(z3.Not(CRAWLED_ONLY), IS_CRAWLED(i, j)))


def pages_axioms():
    i, j = z3.Ints("i j")
    return [z3.ForAll([i], N_ITEMS(i) >= 0), z3.ForAll([i], NPG(i, 0) == 0), z3.ForAll([i, j], z3.Implies(j >= 0, z3.And(NPG(i, j + 1) == NPG(i, j) + z3.If(listed(i, j), 1, 0), NPG(i, j) >= 0)))]


class RealmCalleeLru(RealmCallee):
    """the same traversal stub, yielding the item's LRU"""

    def seq(self, ex, p, recv, args, kw, ln):
        q, view = RealmCallee.seq(self, ex, p, recv, args, kw, ln)
        i = q.w["__cur_i"]
        node = view.elem(0)[0]
        q.w["__n0"] = q.w["__listed"]
        return q, SeqView(view.n, lambda j: (node, ITEM_LRU(i, j)), facts=view.facts)


def pg_append(ex, p, o, v):
    i, j = p.w["__cur_i"], p.w["__cur_j"]
    rec = p.obj(v).f["items"] if isinstance(v, Ref) and p.obj(v).cls == "record" else None
    ok = rec is not None and set(rec) == {"lru", "crawled"}
    ex.oblige(p, "listed-page:is-a-record-of-lru-and-crawled", z3.BoolVal(bool(ok)), None, "post")
    if ok:
        ex.oblige(p, "listed-page:carries-the-lru-and-the-crawled-mark-of-the-item-in-hand", z3.And(to_z3(rec["lru"]) == ITEM_LRU(i, j), to_z3(ex.truth(rec["crawled"], p)) == IS_CRAWLED(i, j)), None, "post")
    ex.oblige(p, "listed-page:is-a-page(crawled,in-the-crawled-variant)", listed(i, j), None, "post")
    p.w["__listed"] = z3.simplify(p.w["__listed"] + 1)
    o.f["len"] = o.f["len"] + 1


def _cenv(p):
    return p.w.get("__consumer_env", p.env)


def pg_common(p):
    ce = _cenv(p)
    o = p.obj(ce["pages"])
    n = z3.IntVal(len(o.f["items"])) if "items" in o.f else o.f["len"]
    return [("answer-holds-the-pages-listed", n == p.w["__listed"])]


def pg_outer(ex, p):
    i = _idx(p, 0)
    p.w["__outer"] = i
    return pg_common(p) + [("one-lookup-per-prefix-handled", z3.And(i >= 0, p.w["__lookups"] == i))]


def pg_inner(ex, p):
    j = _idx(p, -1)
    i = p.w["__cur_i"]
    return pg_common(p) + [("traversal-is-the-current-prefix's", z3.And(i == p.w["__outer"], i >= 0, j >= 0)), ("no-page-of-this-prefix-skipped-or-repeated", p.w["__listed"] - p.w["__n0"] == NPG(i, j))]


def pg_havoc(ex, p):
    ce = dict(_cenv(p))
    ce["pages"] = p.new_obj("list", {"len": fresh("n_pages", INT), "elem": lambda i: fresh("page", INT), "on_append": pg_append})
    st = ce.get("state")
    if isinstance(st, Ref):
        p.obj(st).f["n_iterations"] = fresh("n_iterations", INT)
    if "__consumer_env" in p.w:
        p.w["__consumer_env"] = ce
    else:
        p.env.update(ce)


class PagesOfWebentity(Contract):
    """get_webentity_pages_iter / get_webentity_crawled_pages_iter over ANY realm
    sequences: the answer lists exactly the page items (the crawled ones in the crawled
    variant) of every prefix, in traversal order, each once, with its LRU and crawled
    mark; the library's error iff a prefix is not stored."""

    def __init__(self, name, crawled_only):
        self.qual = "Traph." + name
        self.co = crawled_only

    def setups(self, ex):
        p = Path()
        for ax in axioms() + pages_axioms():
            p.assume(ax)
        p.assume(CRAWLED_ONLY == z3.BoolVal(self.co))
        cc_world(p)
        p.w["__listed"] = z3.IntVal(0)
        p.w["__n0"] = z3.IntVal(0)
        prefixes = p.new_obj("list", {"len": NPFX, "elem": lambda i: PFX(i)})
        trie = p.new_obj("LRUTrie", {})
        t = p.new_obj("Traph", {"lru_trie": trie, "encoding": "utf-8"})
        yield p, t, [WEID, prefixes], {}, "any"

    def on_yield(self, ex, p, v, ln, tag):
        if isinstance(v, Ref) and p.obj(v).f.get("done") is True:
            p.w["__final"] = p.obj(v).f.get("result")
        return [(p, "normal", None)]

    def check(self, ex, p0, res, tag):
        for p1, kind, val in res:
            if kind == "raise":
                if val[0] != "TraphException":
                    ex.oblige(p1, "raises-only-the-library's-error(%s)" % val[0], False, val[1])
                    continue
                ex.oblige(p1, "fails=>the-prefix-just-looked-up-is-not-stored", z3.Not(STORED(p1.w["__outer"])), val[1])
                continue
            ex.oblige(p1, "answers-with-the-list-gathered", z3.BoolVal(isinstance(p1.w["__final"], Ref) and p1.w["__final"] == p1.env.get("pages")), None)
            ex.oblige(p1, "every-prefix-walked", p1.w["__lookups"] == NPFX, None)


def install_pages(lib):
    for fn in ("webentity_page_nodes_iter",):
        lib.loop_spec("Traph.%s::for#0" % fn, LoopSpec(pg_outer, havoc=pg_havoc, world=("__lookups", "__listed", "__cur_i", "__n0")))
        lib.loop_spec("Traph.%s::for#1" % fn, LoopSpec(pg_inner, havoc=pg_havoc, world=("__listed",)))
    accs = [_item_acc("is_page", IS_PAGE), _item_acc("is_crawled", IS_CRAWLED)]
    return [LruNodeCallee(), RealmCalleeLru(), ShouldYield(), PagesOfWebentity("get_webentity_pages_iter", False), PagesOfWebentity("get_webentity_crawled_pages_iter", True)] + accs


# ============================================================================ Traph.links_iter (C03: the enumerations)
N_PAGES = z3.Int("n_pages")
P_LRU = z3.Function("PAGE_LRU", INT, BYTES)
P_HEAD = z3.Function("PAGE_LINKS_HEAD", INT, INT)  # 0: no link in the asked direction
P_NL = z3.Function("PAGE_N_DISTINCT_LINKED", INT, INT)
P_LINKED = z3.Function("PAGE_LINKED_BLOCK", INT, INT, INT)
BLK_LRU = z3.Function("LRU_OF_BLOCK", INT, BYTES)
OUT_DIR = z3.Bool("out")


class PagesCallee(Contract):
    qual = "LRUTrie.pages_iter"

    def seq(self, ex, p, recv, args, kw, ln):
        q = p.fork()
        jv = fresh("page_index", INT)
        q.w["__cur_j"] = jv
        node = q.new_obj("LRUTrieNode", {"__abstract": True, "__page": True})
        q.mut += 1
        return q, SeqView(N_PAGES, lambda j: (node, P_LRU(j)), facts=lambda j: [jv == j])


class PageLinksHead(Contract):
    qual = "LRUTrieNode.links"

    def apply(self, ex, p, recv, args, kw, ln):
        if not p.obj(recv).f.get("__page"):
            raise Unsupported("links() of a node that is not a page item")
        o = kw.get("out", args[0] if args else True)
        ex.oblige(p, "list-head-asked-in-the-requested-direction", to_z3(ex.truth(o, p)) == OUT_DIR, ln, "post")
        return [(p, P_HEAD(p.w["__cur_j"]))]


class DedupedOfPage(Contract):
    qual = "LinkStore.deduped_link_nodes_iter"

    def seq(self, ex, p, recv, args, kw, ln):
        q = p.fork()
        j = q.w["__cur_j"]
        ex.oblige(q, "walks-the-list-of-the-page-in-hand", z3.And(P_HEAD(j) != 0, to_z3(args[0]) == P_HEAD(j)), ln, "post")
        lv = fresh("link_index", INT)
        q.w["__cur_l"] = lv
        q.w["__yields0"] = q.w["__yields"]
        q.mut += 1
        return q, SeqView(P_NL(j), lambda l: P_LINKED(j, l), facts=lambda l: [lv == l])


class WindupOfBlock(Contract):
    qual = "LRUTrie.windup_lru"

    def apply(self, ex, p, recv, args, kw, ln):
        return [(p, BLK_LRU(to_z3(args[0])))]


def li_pages_inv(ex, p):
    return [("yields-counted", p.w["__yields"] >= 0)]


def li_links_inv(ex, p):
    l = _idx(p, -1)
    return [("one-pair-per-distinct-linked-block-so-far", z3.And(l >= 0, p.w["__yields"] - p.w["__yields0"] == l))]


class LinksIter(Contract):
    """Traph.links_iter(out) over ANY page / link sequences: for every page item that has a
    list in the asked direction, one pair (the page's LRU, the LRU of the linked block) per
    distinct linked block, in order - nothing else is yielded, pages without such a list
    yield nothing"""

    qual = "Traph.links_iter"

    def setups(self, ex):
        p = Path()
        j = z3.Int("j")
        p.assume(N_PAGES >= 0)
        p.assume(z3.ForAll([j], P_NL(j) >= 0))
        p.w["__yields"] = z3.IntVal(0)
        p.w["__yields0"] = z3.IntVal(0)
        p.w["__cur_j"] = z3.IntVal(-1)
        p.w["__cur_l"] = z3.IntVal(-1)
        trie = p.new_obj("LRUTrie", {})
        ls = p.new_obj("LinkStore", {})
        t = p.new_obj("Traph", {"lru_trie": trie, "link_store": ls})
        yield p, t, [], {"out": OUT_DIR}, "any"

    def on_yield(self, ex, p, v, ln, tag):
        j, l = p.w["__cur_j"], p.w["__cur_l"]
        ok = isinstance(v, tuple) and len(v) == 2
        ex.oblige(p, "yield:is-a-pair", z3.BoolVal(ok), ln, "post")
        if ok:
            ex.oblige(p, "yield:(lru-of-the-page-in-hand,lru-of-the-linked-block-in-hand)", z3.And(to_z3(v[0]) == P_LRU(j), to_z3(v[1]) == BLK_LRU(P_LINKED(j, l))), ln, "post")
            ex.oblige(p, "yield:only-inside-the-walk-of-a-page-that-has-such-links", z3.And(P_HEAD(j) != 0, l >= 0, l < P_NL(j), p.w["__yields"] - p.w["__yields0"] == l), ln, "post")
        p.w["__yields"] = z3.simplify(p.w["__yields"] + 1)
        p.mut += 1
        return [(p, "normal", None)]

    def check(self, ex, p0, res, tag):
        for p1, kind, val in res:
            if kind == "raise":
                ex.oblige(p1, "raises-nothing(%s)" % val[0], False, val[1])


def install_links_iter(lib):
    lib.loop_spec("Traph.links_iter::for#0", LoopSpec(li_pages_inv, world=("__yields", "__yields0")))
    lib.loop_spec("Traph.links_iter::for#1", LoopSpec(li_links_inv, world=("__yields",)))
    return [PagesCallee(), PageLinksHead(), DedupedOfPage(), WindupOfBlock(), LinksIter()]
