"""
pyvc.worker — one verification task in its own process:
    python -m pyvc.worker <groups,comma> <qualname> <k> <n> <timeout_ms> [max_fail]
generates the obligations of <qualname> from /repo's (or $VERIF_REPO's) current source
and discharges those whose index is k modulo n.  Prints one JSON object.
The byte-string mode (PYVC_BYTES) is fixed by the caller before this process starts.
"""
import importlib
import json
import os
import sys
import time


def load(groups, repo):
    from pyvc.extract import Program
    from pyvc.lib import Lib

    prog = Program(repo)
    lib = Lib(prog)
    for g in groups:
        mod = importlib.import_module("contracts." + g)
        cs = mod.install(lib) if hasattr(mod, "install") else mod.contracts()
        for c in cs:
            lib.register(c)
    return prog, lib


def main():
    here = os.path.dirname(os.path.dirname(os.path.abspath(__file__)))
    if here not in sys.path:
        sys.path.insert(0, here)
    groups = sys.argv[1].split(",")
    qual = sys.argv[2]
    k, n, timeout = int(sys.argv[3]), int(sys.argv[4]), int(sys.argv[5])
    max_fail = int(sys.argv[6]) if len(sys.argv) > 6 else 0
    only = sys.argv[7] if len(sys.argv) > 7 and sys.argv[7] else None
    repo = os.environ.get("VERIF_REPO", "/repo")
    t0 = time.time()
    try:
        prog, lib = load(groups, repo)
        from pyvc.verify import verify_function

        r = verify_function(prog, lib, qual, timeout_ms=timeout, shard=(k, n), max_fail=max_fail, only=only)
    except Exception:
        import traceback

        r = {"function": qual, "error": "engine: " + traceback.format_exc(limit=-6), "crash": True, "obligations": []}
    r["shard"] = [k, n]
    r["task_wall_s"] = round(time.time() - t0, 2)
    sys.stdout.write(json.dumps(r))


if __name__ == "__main__":
    main()
