"""the links_iter variant of contracts/hierarchy.py"""
from .hierarchy import install_links_iter as install  # noqa: F401

GROUP = "linksiter"
