"""
Contracts for the explicit creation / deletion of webentities in traph/traph.py
(C04 "attaching a prefix that is already attached is refused", C12 "one creation request
yields one id shared by all the prefixes it attaches", C17 "attached as a whole"):

    Traph.__add_prefixes(prefixes, use_best_case)
    Traph.create_webentity(prefixes)

verified against the CONTRACTS of what they call, the trie being abstract here:
  * LRUTrie.add_lru (contracts/trie.py): the k-th call of the request returns the node
    spelling the k-th submitted prefix; whether that node already carries a webentity is
    the spec predicate PREFIX_TAKEN(k)
  * LRUTrieNode.refresh / set_webentity / write: a per-node protocol (refresh, then set,
    then write) checked at every call, and the ghost map ATTACHED[call] of what was set
  * Traph.__generated_web_entity_id (contracts/facade.py): counted, returns NEW_ID

Precondition (stated, as in the API's own use): the submitted prefixes are pairwise
distinct (`lru_variations` never lists an entry twice: bounded C17; explicit callers
pass distinct prefixes) - with duplicates the dict keeps the last node per prefix, which
this abstraction does not track.

Spec functions: N_TAKEN(i) = number of taken prefixes among the first i;
FREE_CALL(e) = index of the e-th free prefix (pinned at the free ones:
FREE_CALL(j - N_TAKEN(j)) = j).
"""
import z3

from pyvc.lib import Contract, LoopSpec, SeqView
from pyvc.sym import BOOL, BYTES, INT, Opt, Path, Ref, Unsupported, blen, fresh, list_elem, to_z3

TAKEN = z3.Function("PREFIX_TAKEN", INT, BOOL)
N_TAKEN = z3.Function("N_TAKEN", INT, INT)
FREE_CALL = z3.Function("FREE_CALL", INT, INT)
PFX = z3.Function("SUBMITTED_PREFIX", INT, BYTES)
NEW_ID = z3.Int("NEW_ID")
NP = z3.Int("n_prefixes")


def axioms():
    j = z3.Int("j")
    return [
        N_TAKEN(0) == 0,
        z3.ForAll([j], z3.Implies(j >= 0, N_TAKEN(j + 1) == N_TAKEN(j) + z3.If(TAKEN(j), 1, 0))),
        z3.ForAll([j], z3.Implies(j >= 0, z3.And(N_TAKEN(j) >= 0, N_TAKEN(j) <= j))),
        z3.ForAll([j], z3.Implies(z3.And(j >= 0, z3.Not(TAKEN(j))), FREE_CALL(j - N_TAKEN(j)) == j)),
        NEW_ID >= 1,
        NP >= 0,
    ]


WORLD = ("__al_n", "__al_lru", "__al_flag", "__valid_n", "__valid_call")


def mk_world(p):
    p.w["__al_n"] = z3.IntVal(0)
    p.w["__al_lru"] = fresh("al_lru", z3.ArraySort(INT, BYTES))
    p.w["__al_flag"] = fresh("al_flag", z3.ArraySort(INT, BOOL))
    p.w["__valid_n"] = z3.IntVal(0)
    p.w["__valid_call"] = fresh("valid_call", z3.ArraySort(INT, INT))
    p.w["__att"] = fresh("attached", z3.ArraySort(INT, INT))
    p.w["__phase"] = z3.IntVal(0)
    p.w["__writes"] = z3.IntVal(0)
    p.w["__gen_n"] = z3.IntVal(0)
    p.w["__cur"] = z3.IntVal(-1)


# ---------------------------------------------------------------------------- callee stubs
class AddLruCallee(Contract):
    qual = "LRUTrie.add_lru"

    def apply(self, ex, p, recv, args, kw, ln):
        q = p.fork()
        k = q.w["__al_n"]
        node = q.new_obj("LRUTrieNode", {"__abstract": True, "__call": k})
        hist = q.new_obj("LRUTrieWalkHistory", {"__abstract": True})
        flag = kw.get("flag_can_have_child_webentities", args[1] if len(args) > 1 else False)
        q.w["__al_lru"] = z3.Store(q.w["__al_lru"], k, to_z3(args[0]))
        q.w["__al_flag"] = z3.Store(q.w["__al_flag"], k, to_z3(ex.truth(flag, q)))
        q.w["__al_n"] = z3.simplify(k + 1)
        q.mut += 1
        return [(q, (node, hist))]


def _call_of(p, recv):
    c = p.obj(recv).f.get("__call")
    if c is None:
        raise Unsupported("node object that does not come from add_lru")
    return c


class HasWebentityCallee(Contract):
    qual = "LRUTrieNode.has_webentity"

    def apply(self, ex, p, recv, args, kw, ln):
        return [(p, TAKEN(_call_of(p, recv)))]


class RefreshCallee(Contract):
    qual = "LRUTrieNode.refresh"

    def apply(self, ex, p, recv, args, kw, ln):
        q = p.fork()
        ex.oblige(q, "node-protocol:refresh-comes-first", q.w["__phase"] == 0, ln, "post")
        q.w["__phase"] = z3.IntVal(1)
        q.w["__cur"] = _call_of(q, recv)
        q.mut += 1
        return [(q, None)]


class SetWebentityCallee(Contract):
    qual = "LRUTrieNode.set_webentity"

    def apply(self, ex, p, recv, args, kw, ln):
        q = p.fork()
        c = _call_of(q, recv)
        ex.oblige(q, "node-protocol:set-on-the-node-just-refreshed", z3.And(q.w["__phase"] == 1, q.w["__cur"] == c), ln, "post")
        q.w["__phase"] = z3.IntVal(2)
        q.w["__att"] = z3.Store(q.w["__att"], c, to_z3(args[0]))
        q.mut += 1
        return [(q, None)]


class WriteCallee(Contract):
    qual = "LRUTrieNode.write"

    def apply(self, ex, p, recv, args, kw, ln):
        q = p.fork()
        c = _call_of(q, recv)
        ex.oblige(q, "node-protocol:write-after-set-on-the-same-node", z3.And(q.w["__phase"] == 2, q.w["__cur"] == c), ln, "post")
        q.w["__phase"] = z3.IntVal(0)
        q.w["__writes"] = z3.simplify(q.w["__writes"] + 1)
        q.mut += 1
        return [(q, None)]


class GenIdCallee(Contract):
    qual = "Traph.__generated_web_entity_id"

    def apply(self, ex, p, recv, args, kw, ln):
        q = p.fork()
        q.w["__gen_n"] = z3.simplify(q.w["__gen_n"] + 1)
        q.mut += 1
        return [(q, NEW_ID)]


# ---------------------------------------------------------------------------- the dict of free prefixes
class FreeItems(object):
    def __init__(self, ref, keys_only=False):
        self.ref, self.keys_only = ref, keys_only


def dict_update(ex, p, recv, args, kw, ln):
    """valid_prefixes_index.update({prefix: [node, history]})"""
    (arg,) = args
    if not (isinstance(arg, Ref) and p.obj(arg).cls == "record" and len(p.obj(arg).f["items"]) == 1):
        raise Unsupported("dict.update with something else than a one-entry literal")
    ((key, val),) = p.obj(arg).f["items"].items()
    q = p.fork()
    if isinstance(val, Opt) or val is None:
        val = ex.unwrap(val, q, "node stored in the prefix index", ln)
    if isinstance(val, Ref) and q.obj(val).cls == "LRUTrieNode":
        node = val
        q.w["__valid_shape"] = "node"
    elif isinstance(val, Ref) and "items" in q.obj(val).f and len(q.obj(val).f["items"]) == 2 and isinstance(q.obj(val).f["items"][0], Ref):
        node = q.obj(val).f["items"][0]
        q.w["__valid_shape"] = "pair"
    else:
        raise Unsupported("dict value is neither a node nor [node, history]")
    c = _call_of(q, node)
    n = q.w["__valid_n"]
    ex.oblige(q, "free-prefix-index:keyed-by-the-prefix-of-that-node", to_z3(key) == z3.Select(q.w["__al_lru"], c), ln, "post")
    q.w["__valid_call"] = z3.Store(q.w["__valid_call"], n, c)
    q.w["__valid_n"] = z3.simplify(n + 1)
    o = q.obj(recv)
    o.f["n"] = q.w["__valid_n"]
    q.mut += 1
    return [(q, None)]


def dict_items(ex, p, recv, args, kw, ln):
    return [(p, FreeItems(recv))]


def dict_keys(ex, p, recv, args, kw, ln):
    return [(p, FreeItems(recv, keys_only=True))]


def free_items_iter(ex, p, it, ln):
    q = p.fork()
    n = q.w["__valid_n"]
    vc = q.w["__valid_call"]
    if it.keys_only:
        return q, SeqView(n, lambda i: z3.Select(q.w["__al_lru"], z3.Select(vc, i)))
    ck = fresh("entry_call", INT)
    node = q.new_obj("LRUTrieNode", {"__abstract": True, "__call": ck})
    if q.w.get("__valid_shape", "pair") == "node":
        return q, SeqView(n, lambda i: (z3.Select(q.w["__al_lru"], ck), node), facts=lambda i: [ck == z3.Select(vc, i)])
    hist = q.new_obj("LRUTrieWalkHistory", {"__abstract": True})
    pair = q.new_obj("list", {"items": [node, hist]})
    return q, SeqView(n, lambda i: (z3.Select(q.w["__al_lru"], ck), pair), facts=lambda i: [ck == z3.Select(vc, i)])


# ---------------------------------------------------------------------------- __add_prefixes
def _calls_described(p, upto):
    j = z3.Int("j")
    return z3.ForAll([j], z3.Implies(z3.And(j >= 0, j < upto), z3.And(z3.Select(p.w["__al_lru"], j) == PFX(j), z3.Select(p.w["__al_flag"], j))))


def _free_described(p, upto):
    e = z3.Int("e")
    vc = z3.Select(p.w["__valid_call"], e)
    return z3.ForAll([e], z3.Implies(z3.And(e >= 0, e < p.w["__valid_n"]), z3.And(vc == FREE_CALL(e), vc >= 0, vc < upto, z3.Not(TAKEN(vc)))))


def _len(p, name):
    o = p.obj(p.env[name])
    return z3.IntVal(len(o.f["items"])) if "items" in o.f else o.f["len"]


def scan_inv(ex, p):
    idx = [k for k in p.env if k.startswith("__i")][0]
    i = to_z3(p.env[idx])
    return [
        ("one-add_lru-call-per-prefix-so-far", p.w["__al_n"] == i),
        ("calls-carry-the-submitted-prefixes-and-clear-the-pruning-marks", _calls_described(p, i)),
        ("taken-prefixes-counted", _len(p, "invalid_prefixes") == N_TAKEN(i)),
        ("free-prefixes-indexed", z3.And(p.w["__valid_n"] == i - N_TAKEN(i), _free_described(p, i))),
        ("nothing-attached-while-scanning", z3.And(p.w["__gen_n"] == 0, p.w["__writes"] == 0, p.w["__phase"] == 0)),
    ]


def scan_havoc(ex, p):
    p.env["invalid_prefixes"] = p.new_obj("list", {"len": fresh("n_invalid", INT), "arr": fresh("invalid", z3.ArraySort(INT, BYTES))})
    o = p.obj(p.env["valid_prefixes_index"])
    o.f["n"] = p.w["__valid_n"]
    for nm in ("node", "history"):
        if isinstance(p.env.get(nm), Ref):
            p.env[nm] = p.new_obj("LRUTrieNode", {"__abstract": True, "__call": fresh("stale_call", INT)})


def attach_inv(ex, p):
    idx = sorted([k for k in p.env if k.startswith("__i")], key=lambda k: int(k[3:]))[-1]  # the later loop's hidden index
    e = to_z3(p.env[idx])
    e2 = z3.Int("e2")
    n = p.w["__n"]
    return [
        ("one-id-for-the-whole-request", p.w["__gen_n"] == 1),
        ("one-write-per-free-prefix-so-far", z3.And(p.w["__writes"] == e, p.w["__phase"] == 0)),
        ("free-prefixes-attached-so-far-carry-the-new-id", z3.ForAll([e2], z3.Implies(z3.And(e2 >= 0, e2 < e), z3.Select(p.w["__att"], FREE_CALL(e2)) == NEW_ID))),
        ("scan-results-kept", z3.And(p.w["__al_n"] == n, p.w["__valid_n"] == n - N_TAKEN(n), _free_described(p, n), _calls_described(p, n))),
    ]


def attach_havoc(ex, p):
    for nm in ("node", "history"):
        if isinstance(p.env.get(nm), Ref):
            p.env[nm] = p.new_obj("LRUTrieNode", {"__abstract": True, "__call": fresh("stale_call", INT)})


class AddPrefixes(Contract):
    """Traph.__add_prefixes(prefixes, use_best_case), prefixes pairwise distinct:
      * every submitted prefix is inserted (add_lru, pruning marks cleared), in order;
      * it raises the library's error iff some prefix is taken and not use_best_case,
        and then nothing is attached and no id is issued;
      * it returns (None, []) iff all prefixes are taken (in best-case mode) or none was
        submitted - nothing attached, no id issued;
      * otherwise exactly one id is issued and every free prefix's node is refreshed,
        given that id and written (in this order), the taken ones are left alone; the id
        and the free prefixes are returned."""

    qual = "Traph.__add_prefixes"

    def setups(self, ex):
        p = Path()
        for ax in axioms():
            p.assume(ax)
        mk_world(p)
        p.w["__n"] = NP
        best = fresh("use_best_case", BOOL)
        p.w["__best"] = best
        prefixes = p.new_obj("list", {"len": NP, "elem": lambda i: PFX(i)})
        trie = p.new_obj("LRUTrie", {})
        t = p.new_obj("Traph", {"lru_trie": trie})
        yield p, t, [prefixes], {"use_best_case": best}, "any"

    def check(self, ex, p0, res, tag):
        n, best = NP, p0.w["__best"]
        e = z3.Int("e")
        for p1, kind, val in res:
            taken = N_TAKEN(n)
            ex.oblige(p1, "every-prefix-inserted-with-the-pruning-marks-cleared", z3.And(p1.w["__al_n"] == n, _calls_described(p1, n)), None)
            if kind == "raise":
                if val[0] != "TraphException":
                    ex.oblige(p1, "raises-only-the-library's-error(%s)" % val[0], False, val[1])
                    continue
                ex.oblige(p1, "refused=>some-prefix-is-taken-and-strict-mode", z3.And(taken > 0, z3.Not(best)), val[1])
                ex.oblige(p1, "refused=>nothing-attached-and-no-id-issued", z3.And(p1.w["__gen_n"] == 0, p1.w["__writes"] == 0), val[1])
                continue
            ex.oblige(p1, "accepted=>no-taken-prefix-or-best-case-mode", z3.Or(taken == 0, best), None)
            if not (isinstance(val, tuple) and len(val) == 2):
                ex.oblige(p1, "returns-(id,prefixes)", False, None)
                continue
            wid, lst = val
            if wid is None:
                ex.oblige(p1, "returns-None=>every-prefix-is-taken(or-none-submitted)", taken == n, None)
                ex.oblige(p1, "returns-None=>nothing-attached-and-no-id-issued", z3.And(p1.w["__gen_n"] == 0, p1.w["__writes"] == 0), None)
                ok = isinstance(lst, Ref) and p1.obj(lst).f.get("items") == []
                ex.oblige(p1, "returns-None=>no-prefix-reported", z3.BoolVal(bool(ok)), None)
                continue
            ex.oblige(p1, "attaches=>some-prefix-is-free", taken < n, None)
            ex.oblige(p1, "exactly-one-id-issued-and-returned", z3.And(p1.w["__gen_n"] == 1, to_z3(wid) == NEW_ID), None)
            ex.oblige(p1, "one-write-per-free-prefix", z3.And(p1.w["__writes"] == n - taken, p1.w["__phase"] == 0), None)
            ex.oblige(p1, "every-free-prefix-carries-the-new-id", z3.ForAll([e], z3.Implies(z3.And(e >= 0, e < n - taken), z3.Select(p1.w["__att"], FREE_CALL(e)) == NEW_ID)), None)
            o = p1.obj(lst) if isinstance(lst, Ref) else None
            if o is None or "len" not in o.f:
                ex.oblige(p1, "reports-the-free-prefixes", False, None)
            else:
                el = list_elem(o)
                ex.oblige(p1, "reports-the-free-prefixes", z3.And(o.f["len"] == n - taken, z3.ForAll([e], z3.Implies(z3.And(e >= 0, e < n - taken), to_z3(el(e)) == PFX(FREE_CALL(e))))), None)


# ---------------------------------------------------------------------------- create_webentity
def _addprefixes_apply(self, ex, p, recv, args, kw, ln):
    best = kw.get("use_best_case", args[1] if len(args) > 1 else True)
    q = p.fork()
    q.w["__ap_n"] = q.w.get("__ap_n", 0) + 1
    q.w["__ap_arg"] = args[0]
    q.w["__ap_best"] = best
    noid = fresh("no_id", BOOL)
    refused = fresh("refused", BOOL)
    bz = to_z3(ex.truth(best, q))
    # strict mode: refused xor an id is returned; best-case mode: never refused
    q.assume(z3.Implies(bz, z3.Not(refused)))
    q.assume(z3.Implies(z3.And(z3.Not(bz), z3.Not(refused)), z3.Not(noid)))
    out = []
    for q1, r in ex.branch(q, refused):
        if r:
            ex.pending_raise(q1, "TraphException", ln, "Traph.__add_prefixes")
        else:
            q1.w["__ap_noid"] = noid
            out.append((q1, (Opt(noid, NEW_ID), fresh("attached_prefixes", INT))))
    return out


AddPrefixes.apply = _addprefixes_apply


class CreateWebentityPublic(Contract):
    """Traph.create_webentity(prefixes): one strict __add_prefixes call on the given
    prefixes; the report lists {id: attached prefixes}; a refusal propagates"""

    qual = "Traph.create_webentity"

    def setups(self, ex):
        p = Path()
        for ax in axioms():
            p.assume(ax)
        prefixes = p.new_obj("list", {"len": NP, "elem": lambda i: PFX(i)})
        t = p.new_obj("Traph", {"encoding": "utf-8"})
        yield p, t, [prefixes], {}, "any"

    def check(self, ex, p0, res, tag):
        e = z3.Int("e")
        k = z3.Int("k")
        for p1, kind, val in res:
            ex.oblige(p1, "exactly-one-__add_prefixes-call", z3.BoolVal(p1.w.get("__ap_n") == 1), None)
            a = p1.w.get("__ap_arg")
            ok = isinstance(a, Ref) and "len" in p1.obj(a).f
            if ok:
                o = p1.obj(a)
                el = list_elem(o)
                ex.oblige(p1, "on-exactly-the-given-prefixes", z3.And(o.f["len"] == NP, z3.ForAll([e], z3.Implies(z3.And(e >= 0, e < NP), to_z3(el(e)) == PFX(e)))), None)
            else:
                ex.oblige(p1, "on-exactly-the-given-prefixes", False, None)
            ex.oblige(p1, "in-strict-mode", z3.Not(to_z3(ex.truth(p1.w.get("__ap_best"), p1))), None)
            if kind == "raise":
                ex.oblige(p1, "raises-only-the-library's-error(%s)" % val[0], z3.BoolVal(val[0] == "TraphException"), val[1])
                continue
            if not isinstance(val, Ref) or p1.obj(val).cls != "TraphWriteReport":
                ex.oblige(p1, "returns-a-report", False, None)
                continue
            r = p1.obj(val)
            cw = p1.obj(r.f["created_webentities"])
            ex.oblige(p1, "report-lists-exactly-the-new-id", z3.ForAll([k], z3.Select(cw.f["dom"], k) == (k == NEW_ID)), None)
            ex.oblige(p1, "report-counts-no-page", to_z3(r.f["nb_created_pages"]) == 0, None)


# ---------------------------------------------------------------------------- delete_webentity (checked mode)
FOUND = z3.Function("PREFIX_FOUND", INT, BOOL)
WE_OF = z3.Function("WEBENTITY_OF_PREFIX_NODE", INT, INT)
WEID = z3.Int("weid")


class LruNodeCallee(Contract):
    """LRUTrie.lru_node (contracts/trie.py): the k-th lookup of the request returns the
    node spelling the k-th prefix, or None when it is not stored (PREFIX_FOUND(k))"""

    qual = "LRUTrie.lru_node"

    def apply(self, ex, p, recv, args, kw, ln):
        q = p.fork()
        k = q.w["__al_n"]
        node = q.new_obj("LRUTrieNode", {"__abstract": True, "__call": k})
        q.w["__al_lru"] = z3.Store(q.w["__al_lru"], k, to_z3(args[0]))
        q.w["__al_n"] = z3.simplify(k + 1)
        q.mut += 1
        return [(q, Opt(z3.Not(FOUND(k)), node))]


class WebentityCallee(Contract):
    qual = "LRUTrieNode.webentity"

    def apply(self, ex, p, recv, args, kw, ln):
        return [(p, WE_OF(_call_of(p, recv)))]


class UnsetWebentityCallee(Contract):
    qual = "LRUTrieNode.unset_webentity"

    def apply(self, ex, p, recv, args, kw, ln):
        q = p.fork()
        c = _call_of(q, recv)
        ex.oblige(q, "node-protocol:unset-on-a-node-at-rest", q.w["__phase"] == 0, ln, "post")
        q.w["__phase"] = z3.IntVal(2)
        q.w["__cur"] = c
        q.w["__att"] = z3.Store(q.w["__att"], c, z3.IntVal(0))
        q.mut += 1
        return [(q, None)]


def _owned(j):
    return z3.And(FOUND(j), TAKEN(j), WE_OF(j) == WEID)


def del_scan_inv(ex, p):
    idx = [k for k in p.env if k.startswith("__i")][0]
    i = to_z3(p.env[idx])
    j, e = z3.Ints("j e")
    return [
        ("one-lookup-per-prefix-so-far", p.w["__al_n"] == i),
        ("lookups-carry-the-given-prefixes", z3.ForAll([j], z3.Implies(z3.And(j >= 0, j < i), z3.Select(p.w["__al_lru"], j) == PFX(j)))),
        ("every-prefix-so-far-is-stored-and-owned-by-the-webentity", z3.ForAll([j], z3.Implies(z3.And(j >= 0, j < i), _owned(j)))),
        ("every-prefix-so-far-is-indexed", z3.And(p.w["__valid_n"] == i, z3.ForAll([e], z3.Implies(z3.And(e >= 0, e < i), z3.Select(p.w["__valid_call"], e) == e)))),
        ("nothing-written-while-checking", z3.And(p.w["__writes"] == 0, p.w["__phase"] == 0)),
    ]


def del_scan_havoc(ex, p):
    o = p.obj(p.env["prefix_index"])
    o.f["n"] = p.w["__valid_n"]
    p.w["__valid_shape"] = "node"
    if "node" in p.env:
        p.env["node"] = Opt(fresh("stale_none", BOOL), p.new_obj("LRUTrieNode", {"__abstract": True, "__call": fresh("stale_call", INT)}))


def del_unset_inv(ex, p):
    idx = sorted([k for k in p.env if k.startswith("__i")], key=lambda k: int(k[3:]))[-1]
    e = to_z3(p.env[idx])
    e2 = z3.Int("e2")
    n = NP
    return [
        ("one-write-per-prefix-so-far", z3.And(p.w["__writes"] == e, p.w["__phase"] == 0)),
        ("prefixes-detached-so-far", z3.ForAll([e2], z3.Implies(z3.And(e2 >= 0, e2 < e), z3.Select(p.w["__att"], e2) == 0))),
        ("check-results-kept", z3.And(p.w["__al_n"] == n, p.w["__valid_n"] == n, z3.ForAll([e2], z3.Implies(z3.And(e2 >= 0, e2 < n), z3.Select(p.w["__valid_call"], e2) == e2)))),
    ]


def del_unset_havoc(ex, p):
    if "node" in p.env:
        p.env["node"] = p.new_obj("LRUTrieNode", {"__abstract": True, "__call": fresh("stale_call", INT)})


class DeleteWebentity(Contract):
    """Traph.delete_webentity(weid, prefixes) in its default, checked mode (prefixes
    pairwise distinct): it raises the library's error - before writing anything - iff
    some given prefix is not stored or not attached to that webentity; otherwise every
    given prefix is detached (unset, then written) and nothing else is written."""

    qual = "Traph.delete_webentity"

    def setups(self, ex):
        p = Path()
        for ax in axioms():
            p.assume(ax)
        mk_world(p)
        p.assume(z3.And(WEID >= 1, WEID < 2 ** 32))
        prefixes = p.new_obj("list", {"len": NP, "elem": lambda i: PFX(i)})
        trie = p.new_obj("LRUTrie", {})
        t = p.new_obj("Traph", {"lru_trie": trie, "encoding": "utf-8"})
        yield p, t, [WEID, prefixes], {}, "checked"

    def check(self, ex, p0, res, tag):
        j = z3.Int("j")
        n = NP
        for p1, kind, val in res:
            if kind == "raise":
                if val[0] != "TraphException":
                    ex.oblige(p1, "raises-only-the-library's-error(%s)" % val[0], False, val[1])
                    continue
                k = p1.w["__al_n"] - 1
                ex.oblige(p1, "refused=>the-prefix-just-looked-up-is-not-stored-or-not-owned", z3.And(k >= 0, k < n, z3.Not(_owned(k))), val[1])
                ex.oblige(p1, "refused=>nothing-written", p1.w["__writes"] == 0, val[1])
                continue
            ex.oblige(p1, "accepted=>every-prefix-was-stored-and-owned", z3.ForAll([j], z3.Implies(z3.And(j >= 0, j < n), _owned(j))), None)
            ex.oblige(p1, "every-prefix-detached-and-written-once", z3.And(p1.w["__writes"] == n, p1.w["__phase"] == 0, z3.ForAll([j], z3.Implies(z3.And(j >= 0, j < n), z3.Select(p1.w["__att"], j) == 0))), None)
            ex.oblige(p1, "returns-True", to_z3(ex.truth(val, p1)), None)


class WebentityByPrefix(Contract):
    """Traph.get_webentity_by_prefix(prefix): the webentity attached to exactly that
    prefix; the library's error iff the prefix is not stored or carries none; one
    lookup, nothing written"""

    qual = "Traph.get_webentity_by_prefix"

    def setups(self, ex):
        p = Path()
        for ax in axioms():
            p.assume(ax)
        mk_world(p)
        trie = p.new_obj("LRUTrie", {})
        t = p.new_obj("Traph", {"lru_trie": trie, "encoding": "utf-8"})
        yield p, t, [PFX(0)], {}, "any"

    def check(self, ex, p0, res, tag):
        for p1, kind, val in res:
            ex.oblige(p1, "one-lookup-of-the-given-prefix", z3.And(p1.w["__al_n"] == 1, z3.Select(p1.w["__al_lru"], 0) == PFX(0)), None)
            ex.oblige(p1, "nothing-written", z3.And(p1.w["__writes"] == 0, p1.w["__phase"] == 0, p1.w["__gen_n"] == 0), None)
            if kind == "raise":
                if val[0] != "TraphException":
                    ex.oblige(p1, "raises-only-the-library's-error(%s)" % val[0], False, val[1])
                    continue
                ex.oblige(p1, "fails=>not-stored-or-not-a-webentity-prefix", z3.Not(z3.And(FOUND(0), TAKEN(0))), val[1])
            else:
                ex.oblige(p1, "answers=>stored-and-a-webentity-prefix", z3.And(FOUND(0), TAKEN(0)), None)
                ex.oblige(p1, "answer==the-webentity-attached-to-that-prefix", to_z3(val) == WE_OF(0), None)


def install(lib):
    lib.loop_spec("Traph.delete_webentity::for#0", LoopSpec(del_scan_inv, havoc=del_scan_havoc, world=WORLD))
    lib.loop_spec("Traph.delete_webentity::for#2", LoopSpec(del_unset_inv, havoc=del_unset_havoc, world=("__att", "__writes", "__cur")))
    lib.methods[("dict", "update")] = dict_update
    lib.methods[("dict", "items")] = dict_items
    lib.methods[("dict", "keys")] = dict_keys
    lib.methods[("FreeItems", "__iter__")] = free_items_iter
    lib.loop_spec("Traph.__add_prefixes::for#0", LoopSpec(scan_inv, havoc=scan_havoc, world=WORLD))
    lib.loop_spec("Traph.__add_prefixes::for#1", LoopSpec(attach_inv, havoc=attach_havoc, world=("__att", "__writes", "__cur")))
    return [AddLruCallee(), HasWebentityCallee(), RefreshCallee(), SetWebentityCallee(), WriteCallee(), GenIdCallee(), AddPrefixes(), CreateWebentityPublic(), LruNodeCallee(), WebentityCallee(), UnsetWebentityCallee(), DeleteWebentity(), WebentityByPrefix()]


GROUP = "prefixes"
