import sys, json, time
sys.path.insert(0,'/verif')
from bounded import plan
prop=sys.argv[1]; tier=sys.argv[2] if len(sys.argv)>2 else 'quick'
r=plan.run_bounded(prop,tier,0)
print(prop,'jobs',r['jobs'],'evals',r['evaluations'],'distinct',r['distinct_nontrivial'],'fails',len(r['fails']),'crashes',len(r['crashes']),'known',r['known'],'wall',r['wall_s'])
from collections import Counter
c=Counter(f['fail']['what'][:90] for f in r['fails'])
for k,v in c.most_common(8): print('  ',v,k)
for f in r['fails'][:2]: print(json.dumps(f['fail'],default=str)[:1500]); print('   spec',json.dumps(f['spec'])[:300])
for c_ in r['crashes'][:2]: print(c_['crash'][-1500:]); print(c_['spec'])
