import sys, tempfile, shutil, warnings, random, itertools, traceback
from collections import Counter, defaultdict
sys.path.insert(0,'/tmp/x/repo')
warnings.simplefilter('ignore')
from traph import Traph, TraphException
from traph.helpers import lru_iter
RULE=b"(s:[a-zA-Z]+\\|(t:[0-9]+\\|)?(h:[^\\|]+\\|(h:[^\\|]+\\|)|h:(localhost|(\\d{1,3}\\.){3}\\d{1,3}|\\[[\\da-f]*:[\\da-f:]*\\])\\|))"
NOMATCH=b"$^"  # never matches non-empty
def stems(l): return list(lru_iter(l))
def prefixes_of(l):
    s=stems(l); return [b"".join(s[:i]) for i in range(1,len(s)+1)]
class Model:
    def __init__(s):
        s.pages={}; s.links=Counter(); s.pref={}; s.stored=set()
    def store(s,l):
        for p in prefixes_of(l): s.stored.add(p)
    def add_page(s,l,crawled=False):
        s.store(l); new = l not in s.pages
        s.pages[l]=s.pages.get(l,False) or crawled
        return new
    def resolve(s,l):
        best=None
        for p in prefixes_of(l):
            if p in s.pref: best=(p,s.pref[p])
        return best
def rand_lru(r,depth=(1,4),alpha=(b"a",b"b",b"c",b"ab",b"}",b"\x00",b"\xff")):
    n=r.randint(*depth)
    return b"".join(r.choice(alpha)+b"|" for _ in range(n))
def check(t,m,r):
    # C01
    got=[(l,n.is_crawled()) for n,l in t.pages_iter()]
    assert len(got)==len(set(l for l,_ in got)),('dup pages',got)
    assert dict(got)==m.pages,('pages',dict(got),m.pages)
    assert t.count_pages()==len(m.pages)
    assert t.count_crawled_pages()==sum(m.pages.values())
    # C02
    for l in m.stored:
        n=t.lru_trie.lru_node(l); assert n is not None,l
        assert t.lru_trie.windup_lru(n.block)==l
    allr=set(l for n,l in t.lru_trie.dfs_iter()); assert allr==m.stored or (not m.stored and not allr),(allr,m.stored)
    for _ in range(5):
        q=rand_lru(r)
        assert (t.lru_trie.lru_node(q) is not None)==(q in m.stored),q
    # C03
    out=Counter(); inn=Counter()
    for p in m.pages:
        for s_,t_,w in t.get_page_links(p,include_inbound=False): out[(s_,t_)]+=w
        for s_,t_,w in t.get_page_links(p,include_outbound=False,include_internal=False): inn[(s_,t_)]+=w
    assert out==m.links,(out,m.links)
    assert inn==Counter({k:v for k,v in m.links.items() if k[0]!=k[1]}),(inn,m.links)
    assert t.count_links()==sum(m.links.values())
    assert Counter(t.links_iter(out=True))==Counter(set(m.links)) , 'links_iter out'
    assert Counter((b,a) for a,b in t.links_iter(out=False))==Counter(set(m.links)), 'links_iter in'
    # C04
    for q in list(m.stored)+[rand_lru(r) for _ in range(5)]:
        e=m.resolve(q)
        try:
            w=t.retrieve_webentity(q); p=t.retrieve_prefix(q)
            assert e is not None and (p,w)==e,(q,e,p,w)
        except TraphException:
            assert e is None,(q,e)
    wp=dict((l,n.webentity()) for n,l in t.webentity_prefix_iter()); assert wp==m.pref,(wp,m.pref)
    # C05
    byw=defaultdict(list)
    for p,w in m.pref.items(): byw[w].append(p)
    for w,ps in byw.items():
        r.shuffle(ps)
        got=t.get_webentity_pages(w,ps)
        exp={l:c for l,c in m.pages.items() if (m.resolve(l) or (None,None))[1]==w}
        assert len(got)==len(exp) and {g['lru']:g['crawled'] for g in got}==exp,(w,ps,got,exp)
        gotc=t.get_webentity_crawled_pages(w,ps)
        assert sorted(g['lru'] for g in gotc)==sorted(l for l,c in exp.items() if c)
        # C09 pagination
        ps2=sorted(ps)
        for k in (1,2,3):
            tok=None; acc=[]
            while True:
                res=t.paginate_webentity_pages(w,ps2,page_count=k,pagination_token=tok)
                acc+= [x['lru'] for x in res['pages']]
                assert res['count']==len(res['pages'])
                if res['done']: break
                assert len(res['pages'])==k
                tok=res['token']
            expo=[]
            for p in ps2:
                expo+=sorted(l for l in exp if l.startswith(p) and m.resolve(l)[0]==p)
            assert acc==expo,(w,ps2,k,acc,expo)
        # C13 children / parents
        ch=set(t.get_webentity_child_webentities(w,ps)); 
        ech=set(w2 for p2,w2 in m.pref.items() if w2!=w and any(p2.startswith(p) and p2!=p for p in ps))
        assert ch==ech,('child',w,ps,ch,ech)
        pa=set(t.get_webentity_parent_webentities(w,ps))
        epa=set(w2 for p2,w2 in m.pref.items() if w2!=w and any(p.startswith(p2) and p2!=p for p in ps))
        assert pa==epa,('parent',pa,epa)
        # C08
        for ii,io,ib in itertools.product([0,1],[0,1],[0,1]):
            if not(ii or io or ib): continue
            got=t.get_webentity_pagelinks(w,ps,include_inbound=ib,include_internal=ii,include_outbound=io)
            expl=[]
            for (a,b),wt in m.links.items():
                wa=(m.resolve(a) or (None,None))[1]; wb=(m.resolve(b) or (None,None))[1]
                if wa==w and wb==w and ii: expl.append([a,b,wt])
                if wa==w and wb!=w and io: expl.append([a,b,wt])
                if wa!=w and wb==w and ib: expl.append([a,b,wt])
            assert sorted(got)==sorted(expl),('pagelinks',w,ii,io,ib,got,expl)
        # C10
        for ii,io in ((1,0),(0,1),(1,1)):
            full=t.get_webentity_pagelinks(w,ps2,include_internal=ii,include_outbound=io)
            for k in (1,2):
                tok=None; acc=[]
                while True:
                    res=t.paginate_webentity_pagelinks(w,ps2,include_internal=ii,include_outbound=io,source_page_count=k,pagination_token=tok)
                    acc+=res['pagelinks']
                    if res['done']: break
                    assert res['count_sourcepages']==k
                    tok=res['token']
                assert sorted(acc)==sorted(full),('C10',w,ps2,ii,io,k,acc,full)
        # C20
        ml=t.get_webentity_most_linked_pages(w,ps,pages_count=3)
        indeg={l:len(set(a for (a,b) in m.links if b==l)) for l in exp}
        assert all(indeg[x['lru']]==x['indegree'] or (indeg[x['lru']]==0 and x['indegree']==1) for x in ml),('C20',ml,indeg)
    # C07
    for outd in (True,False):
        for auto in (True,False):
            g=t.get_webentities_links(out=outd,include_auto=auto)
            g2=t.get_webentities_links_slow(out=outd,include_auto=auto)
            exp=defaultdict(Counter)
            for (a,b),wt in m.links.items():
                wa=(m.resolve(a) or (None,None))[1]; wb=(m.resolve(b) or (None,None))[1]
                if wa is None or wb is None: continue
                if wa==wb and not auto: continue
                if outd: exp[wa][wb]+=wt
                else: exp[wb][wa]+=wt
            gg={a:{b:c for b,c in d.items() if b not in('pages_crawled','pages_uncrawled')} for a,d in g.items()}
            gg={a:d for a,d in gg.items() if d}
            gg2={a:dict(d) for a,d in g2.items() if d}
            assert gg=={a:dict(d) for a,d in exp.items()},('C07',outd,auto,gg,exp)
            assert gg2==gg,('C07slow',gg2,gg)
def run(seed,nops=25,default=NOMATCH):
    r=random.Random(seed)
    d=tempfile.mkdtemp()
    t=Traph(folder=d, default_webentity_creation_rule=default, webentity_creation_rules={})
    m=Model(); hist=[]
    try:
        for i in range(nops):
            op=r.choice(['page','page','links','batch','create','addp','rmp','del','move'])
            if op=='page':
                l=rand_lru(r); c=r.random()<.4; hist.append((op,l,c))
                rep=t.add_page(l,crawled=c); new=m.add_page(l,c); assert rep.nb_created_pages==int(new)
            elif op=='links':
                ls=[(rand_lru(r),rand_lru(r)) for _ in range(r.randint(0,4))]
                if ls and r.random()<.3: ls.append(ls[0])
                if r.random()<.3:
                    x=rand_lru(r); ls.append((x,x))
                hist.append((op,ls))
                rep=t.add_links(ls); nn=0
                for a,b in ls:
                    nn+=m.add_page(a); nn+=m.add_page(b); m.links[(a,b)]+=1
                assert rep.nb_created_pages==nn
            elif op=='batch':
                data={rand_lru(r):[rand_lru(r) for _ in range(r.randint(0,3))] for _ in range(r.randint(1,3))}
                hist.append((op,data))
                rep=t.index_batch_crawl(data); nn=0
                for a,bs in data.items():
                    nn+=m.add_page(a,True)
                    for b in bs: nn+=m.add_page(b); m.links[(a,b)]+=1
                assert rep.nb_created_pages==nn,(rep,nn)
            elif op=='create':
                ps=list(set(rand_lru(r,depth=(1,3)) for _ in range(r.randint(1,2))))
                hist.append((op,ps))
                try:
                    rep=t.create_webentity(ps)
                    assert not any(p in m.pref for p in ps)
                    (w,pp),=rep.created_webentities.items()
                    for p in ps: m.pref[p]=w
                except TraphException:
                    assert any(p in m.pref for p in ps)
                for p in ps: m.store(p)
            elif op=='addp' and m.pref:
                p=rand_lru(r,depth=(1,3)); w=r.choice(list(m.pref.values())); hist.append((op,p,w))
                try:
                    t.add_prefix_to_webentity(p,w); assert p not in m.pref; m.pref[p]=w
                except TraphException: assert p in m.pref
                m.store(p)
            elif op=='rmp' and m.pref:
                p=r.choice(list(m.pref)); hist.append((op,p))
                t.remove_prefix_from_webentity(p,m.pref[p]); del m.pref[p]
            elif op=='del' and m.pref:
                w=r.choice(list(m.pref.values())); ps=[p for p,x in m.pref.items() if x==w]; hist.append((op,w,ps))
                t.delete_webentity(w,ps)
                for p in ps: del m.pref[p]
            elif op=='move' and len(set(m.pref.values()))>1:
                p=r.choice(list(m.pref)); w=r.choice([x for x in m.pref.values() if x!=m.pref[p]]); hist.append((op,p,w))
                t.move_prefix_to_webentity(p,w,m.pref[p]); m.pref[p]=w
            check(t,m,r)
    except Exception as e:
        print('SEED',seed,'FAIL',type(e).__name__,str(e)[:600]); 
        for h in hist: print('   ',h)
        traceback.print_exc(limit=3)
        return False
    finally:
        t.close(); shutil.rmtree(d)
    return True
if __name__=='__main__':
    a,b=int(sys.argv[1]),int(sys.argv[2])
    bad=0
    for s in range(a,b):
        if not run(s): bad+=1
        if bad>=3: break
    print('done',bad)
