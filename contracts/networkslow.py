"""the memory-light variant of contracts/network.py"""
from .network import install_slow as install  # noqa: F401

GROUP = "networkslow"
