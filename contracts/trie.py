"""
Contracts for traph/lru_trie/lru_trie.py (DESIGN 4.5) against the representation
invariant Inv of DESIGN 3.3 (I1-I7, I9), all first-order over block addresses.

Ghost state (never written to /repo; maintained by the generic ghost semantics of node
writes in `ghost_on_node_write`, which depends only on what is written, not on the
names of locals):
  G.rest          tails (contracts/node.py)
  G.lo / G.hi     open key interval of a head inside its sibling BST
  G.path          abstract identity of the stored LRU of a head: ext(path(parent), key)
                  with `ext` a free constructor (injective, never the root path)
  G.ref / G.slot  the unique block and slot (1 left, 2 child, 3 right) pointing to a head

The abstract view of the properties is a function of the store: stored LRUs = paths of
heads; pages = heads with the page bit; prefix map = heads with a webentity.
"""
import z3

from pyvc import smt
from pyvc.lib import Contract, LoopSpec, SeqView
from pyvc.sym import bcat, blen, BOOL, BV8, BYTES, INT, ORD, REAL, DeadPath, Obj, Opt, Path, Ref, Unsupported, bytes_val, fresh, to_z3, zand, znot
from . import node as N
from . import world as Wd
from .world import AL, FIELDS, HAS_TAIL, IS_TAIL, NOCHILD, PAGE, CRAWLED, RULE, W, bit, mk_store, mk_world, node_data

LP = z3.DeclareSort("LPath")
EXT = z3.Function("ext", LP, BYTES, LP)
ROOTP = z3.Const("ROOTP", LP)
PARENTP = z3.Function("parentp", LP, LP)
LASTK = z3.Function("lastk", LP, BYTES)
NEG, POS = z3.Reals("NEG POS")

# the query LRU as a sequence of stems (contract of lru_iter): QS(i), i < QL
QS = z3.Function("QS", INT, BYTES)
QL = z3.Int("QL")
QP = z3.Function("qpath", INT, LP)
PRE = z3.Function("PRE", INT, BYTES)


def _term_axioms(terms):
    out = []
    for t in terms:
        if z3.is_app(t) and not z3.is_quantifier(t):
            nm = t.decl().name()
            if nm == "ext":
                out.append(PARENTP(t) == t.arg(0))
                out.append(LASTK(t) == t.arg(1))
                out.append(t != ROOTP)
            elif nm == "ord":
                out.append(z3.And(NEG < t, t < POS))
    return out


if _term_axioms not in smt.TERM_AXIOMS:
    smt.TERM_AXIOMS.append(_term_axioms)


def query_axioms():
    i = z3.Int("i")
    return [
        QL >= 0,
        QP(0) == ROOTP,
        z3.ForAll([i], z3.Implies(i >= 0, QP(i + 1) == EXT(QP(i), QS(i)))),
        # (consequence of the line above: a non-empty path is never the root path)
        z3.ForAll([i], z3.Implies(i >= 1, QP(i) != ROOTP)),
        PRE(0) == bytes_val(b""),
        z3.ForAll([i], z3.Implies(i >= 0, PRE(i + 1) == bcat(PRE(i), QS(i)))),
        # every stem is closed by the separator, hence non-empty (contract of lru_iter)
        z3.ForAll([i], z3.Implies(z3.And(i >= 0, i < QL), blen(QS(i)) >= 1)),
    ]


class TW(W):
    def lo(self, a):
        return z3.Select(self.p.w["G.lo"], a)

    def hi(self, a):
        return z3.Select(self.p.w["G.hi"], a)

    def path(self, a):
        return z3.Select(self.p.w["G.path"], a)

    def ref(self, a):
        return z3.Select(self.p.w["G.ref"], a)

    def slot(self, a):
        return z3.Select(self.p.w["G.slot"], a)

    def ok(self, a):
        return ORD(self.key(a))

    def gpath(self, a):
        """path of the group a belongs to (= path of its parent, or the root path)"""
        pa = self.f("parent", a)
        return z3.If(pa == 0, ROOTP, self.path(pa))


def mk_trie_world(p, tag=""):
    w = mk_world(p, tag=tag)
    p.w["G.lo"] = fresh("G_lo" + tag, z3.ArraySort(INT, REAL))
    p.w["G.hi"] = fresh("G_hi" + tag, z3.ArraySort(INT, REAL))
    p.w["G.path"] = fresh("G_path" + tag, z3.ArraySort(INT, LP))
    p.w["G.ref"] = fresh("G_ref" + tag, z3.ArraySort(INT, INT))
    p.w["G.slot"] = fresh("G_slot" + tag, z3.ArraySort(INT, INT))
    p.w["G.addr"] = fresh("G_addr" + tag, z3.ArraySort(LP, INT))
    return TW(p)


GHOSTS = ("G.rest", "G.lo", "G.hi", "G.path", "G.ref", "G.slot", "G.addr")
TKEYS = tuple("T." + f for f in FIELDS) + ("T.size",)


def Inv(p):
    """DESIGN 3.3, trie part.  Returns [(name, closed formula)]"""
    w = TW(p)
    a, b = z3.Ints("a b")
    size = p.w["T.size"]
    H = w.head
    f = w.f
    cs = list(N.I1(p))
    for fld in ("left", "right", "child"):
        x = f(fld, a)
        cs.append(("I2:%s-points-forward-to-a-head" % fld, z3.ForAll([a], z3.Implies(H(a), z3.Or(x == 0, z3.And(H(x), x > a))))))
    pa = f("parent", a)
    cs.append(("I2:parent-points-back-to-a-head", z3.ForAll([a], z3.Implies(H(a), z3.Or(pa == 0, z3.And(H(pa), pa < a))))))
    cs.append(("I3:child's-parent", z3.ForAll([a], z3.Implies(z3.And(H(a), f("child", a) != 0), f("parent", f("child", a)) == a))))
    cs.append(("I3:left-sibling's-parent", z3.ForAll([a], z3.Implies(z3.And(H(a), f("left", a) != 0), f("parent", f("left", a)) == pa))))
    cs.append(("I3:right-sibling's-parent", z3.ForAll([a], z3.Implies(z3.And(H(a), f("right", a) != 0), f("parent", f("right", a)) == pa))))
    cs.append(("I3:parent-of-a-head-has-a-child-pointer", z3.ForAll([a], z3.Implies(z3.And(H(a), pa != 0), f("child", pa) != 0))))
    r = z3.IntVal(128)
    cs.append(("I3:root", z3.Implies(size > 128, z3.And(H(r), f("parent", r) == 0, w.lo(r) == NEG, w.hi(r) == POS))))
    cs.append(("I3:top-level-group-has-the-root", z3.ForAll([a], z3.Implies(z3.And(H(a), pa == 0), a >= 128))))
    cs.append(("I4:key-inside-bounds", z3.ForAll([a], z3.Implies(H(a), z3.And(w.lo(a) < w.ok(a), w.ok(a) < w.hi(a))))))
    cs.append(("I4:left-bounds", z3.ForAll([a], z3.Implies(z3.And(H(a), f("left", a) != 0), z3.And(w.lo(f("left", a)) == w.lo(a), w.hi(f("left", a)) == w.ok(a))))))
    cs.append(("I4:right-bounds", z3.ForAll([a], z3.Implies(z3.And(H(a), f("right", a) != 0), z3.And(w.lo(f("right", a)) == w.ok(a), w.hi(f("right", a)) == w.hi(a))))))
    cs.append(("I4:child-bounds", z3.ForAll([a], z3.Implies(z3.And(H(a), f("child", a) != 0), z3.And(w.lo(f("child", a)) == NEG, w.hi(f("child", a)) == POS)))))
    rf = w.ref(a)
    cs.append(
        (
            "I5:every-head-but-the-root-is-referenced",
            z3.ForAll(
                [a],
                z3.Implies(
                    z3.And(H(a), a != 128),
                    z3.And(H(rf), rf < a, z3.Or(z3.And(w.slot(a) == 1, f("left", rf) == a), z3.And(w.slot(a) == 2, f("child", rf) == a), z3.And(w.slot(a) == 3, f("right", rf) == a))),
                ),
            ),
        )
    )
    for fld, sl in (("left", 1), ("child", 2), ("right", 3)):
        x = f(fld, a)
        cs.append(("I5:single-reference(%s)" % fld, z3.ForAll([a], z3.Implies(z3.And(H(a), x != 0), z3.And(w.ref(x) == a, w.slot(x) == sl)))))
    same = z3.And(H(a), H(b), f("parent", a) == f("parent", b))
    cs.append(("I6:GAP-left", z3.ForAll([a, b], z3.Implies(z3.And(same, w.lo(a) < w.ok(b), w.ok(b) < w.ok(a)), f("left", a) != 0))))
    cs.append(("I6:GAP-right", z3.ForAll([a, b], z3.Implies(z3.And(same, w.ok(a) < w.ok(b), w.ok(b) < w.hi(a)), f("right", a) != 0))))
    cs.append(("I6:DISJ-left-left", z3.ForAll([a, b], z3.Implies(z3.And(same, a != b, f("left", a) == 0, f("left", b) == 0), z3.Or(w.ok(a) <= w.lo(b), w.ok(b) <= w.lo(a))))))
    cs.append(("I6:DISJ-right-right", z3.ForAll([a, b], z3.Implies(z3.And(same, a != b, f("right", a) == 0, f("right", b) == 0), z3.Or(w.hi(a) <= w.ok(b), w.hi(b) <= w.ok(a))))))
    cs.append(("I6:DISJ-left-right", z3.ForAll([a, b], z3.Implies(z3.And(same, f("left", a) == 0, f("right", b) == 0), z3.Or(w.ok(a) <= w.ok(b), w.hi(b) <= w.lo(a))))))
    cs.append(("I6:distinct-keys", z3.ForAll([a, b], z3.Implies(z3.And(same, a != b), w.key(a) != w.key(b)))))
    cs.append(("I7:path", z3.ForAll([a], z3.Implies(H(a), w.path(a) == EXT(w.gpath(a), w.key(a))))))
    # uniqueness of paths through the ghost inverse map (single-variable clause)
    cs.append(("I7:paths-are-unique(addr-is-the-inverse-of-path)", z3.ForAll([a], z3.Implies(H(a), z3.Select(p.w["G.addr"], w.path(a)) == a))))
    cs.append(
        (
            "I9:pruning-mark",
            z3.ForAll([a], z3.Implies(z3.And(H(a), pa != 0, z3.Or(f("we", a) != 0, z3.Not(w.flag(a, NOCHILD)))), z3.Not(w.flag(pa, NOCHILD)))),
        )
    )
    cs += [("codec-range/%d" % i, c) for i, c in enumerate(Wd.fields_in_range(w))]
    return cs


def base(p=None):
    p = p or Path()
    w = mk_trie_world(p)
    N.assume_all(p, Inv(p))
    for ax in query_axioms():
        p.assume(ax)
    p.assume(p.w["T.size"] >= 128)
    store = mk_store(p, "T")
    trie = p.new_obj("LRUTrie", {"storage": store, "encoding": "utf-8", "header": None})
    return p, w, store, trie


def fresh_node_at(p, store, b, name="node"):
    """a node object that is a faithful copy of block b (`Fresh`)"""
    w = TW(p)
    lst = p.new_obj("list", {"items": [w.f(f, b) for f in FIELDS]})
    return p.new_obj("LRUTrieNode", {"storage": store, "block": b, "exists": True, "tail": w.rest(b), "data": lst})


def is_fresh(ex, p, ref, name="result"):
    """[(name, formula)] : node object `ref` is a faithful copy of its block"""
    w = TW(p)
    o = p.obj(ref)
    b = o.f["block"]
    if isinstance(b, Opt):
        none, b = b.none, b.val
    elif b is None:
        return [("%s:has-a-block" % name, z3.BoolVal(False))]
    else:
        none = False
    b = to_z3(b)
    d = [to_z3(x) for x in node_data(p, ref)]
    cs = [("%s:has-a-block" % name, znot(none) if not isinstance(none, bool) else z3.BoolVal(not none)), ("%s:exists" % name, to_z3(ex.truth(o.f["exists"], p)))]
    for i, f in enumerate(FIELDS):
        cs.append(("%s:data[%s]==stored" % (name, f), Wd._coerce(d[i], Wd.SORTS[i]) == w.f(f, b)))
    cs.append(("%s:tail==stored-rest" % name, to_z3(o.f["tail"]) == w.rest(b)))
    return cs


def node_blk(p, ref):
    b = p.obj(ref).f["block"]
    return b.val if isinstance(b, Opt) else to_z3(b)


# ---------------------------------------------------------------------------- ghost semantics of node writes
def ghost_on_node_write(ex, q, recv, addr, appended, old, ln):
    """appending a head: its path is ext(path(parent field), key); the block at 128 is
    the root of the top-level sibling tree.  Rewriting a head in place: a pointer slot
    that goes from 0 to v makes this block the referrer of v and fixes v's interval."""
    w = TW(q)
    wo = TW(type("P", (), {"w": old})())
    if "G.path" not in q.w:
        return
    if appended:
        pf = w.f("parent", addr)
        gp = z3.If(pf == 0, ROOTP, w.path(pf))
        q.w["G.path"] = z3.Store(q.w["G.path"], addr, EXT(gp, w.key(addr)))
        q.w["G.addr"] = z3.Store(q.w["G.addr"], EXT(gp, w.key(addr)), addr)
        isroot = addr == 128
        q.w["G.lo"] = z3.Store(q.w["G.lo"], addr, z3.If(isroot, NEG, z3.Select(q.w["G.lo"], addr)))
        q.w["G.hi"] = z3.Store(q.w["G.hi"], addr, z3.If(isroot, POS, z3.Select(q.w["G.hi"], addr)))
        return
    for fld, sl in (("left", 1), ("child", 2), ("right", 3)):
        v0, v1 = wo.f(fld, addr), w.f(fld, addr)
        changed = z3.And(v0 == 0, v1 != 0)
        if fld == "left":
            lo, hi = w.lo(addr), w.ok(addr)
        elif fld == "right":
            lo, hi = w.ok(addr), w.hi(addr)
        else:
            lo, hi = NEG, POS
        q.w["G.lo"] = z3.If(changed, z3.Store(q.w["G.lo"], v1, lo), q.w["G.lo"])
        q.w["G.hi"] = z3.If(changed, z3.Store(q.w["G.hi"], v1, hi), q.w["G.hi"])
        q.w["G.ref"] = z3.If(changed, z3.Store(q.w["G.ref"], v1, addr), q.w["G.ref"])
        q.w["G.slot"] = z3.If(changed, z3.Store(q.w["G.slot"], v1, z3.IntVal(sl)), q.w["G.slot"])


def simp_world(q):
    for k in GHOSTS:
        if k in q.w:
            q.w[k] = z3.simplify(q.w[k])


# ---------------------------------------------------------------------------- __ensure_stem_from_siblings
def frame_clauses(p0, p1, size0, name=""):
    """what a writer may change below the old end of the store: only pointer slots
    going from 0 to the new block; ghost of old heads is kept"""
    w0, w1 = TW(p0), TW(p1)
    a = z3.Int("a")
    cs = []
    for f in ("stem", "flags", "we", "parent", "child", "outl", "inl"):
        cs.append(("frame:old-blocks[%s]-unchanged" % f, z3.ForAll([a], z3.Implies(a < size0, w1.f(f, a) == w0.f(f, a)))))
    for f in ("left", "right"):
        cs.append(("frame:old-blocks[%s]-only-set-from-0-to-the-new-block" % f, z3.ForAll([a], z3.Implies(a < size0, z3.Or(w1.f(f, a) == w0.f(f, a), z3.And(w0.f(f, a) == 0, w1.f(f, a) == size0))))))
    for g in ("rest", "lo", "hi", "path", "ref", "slot"):
        cs.append(("frame:ghost[%s]-of-old-blocks-unchanged" % g, z3.ForAll([a], z3.Implies(a < size0, z3.Select(p1.w["G." + g], a) == z3.Select(p0.w["G." + g], a)))))
    cs.append(("frame:ghost[addr]-of-old-heads-unchanged", z3.ForAll([a], z3.Implies(w0.head(a), z3.Select(p1.w["G.addr"], w0.path(a)) == a))))
    return cs


class Ensure(Contract):
    qual = "LRUTrie.__ensure_stem_from_siblings"

    def prepare(self, ex):
        ex.node_write_hooks = [ghost_on_node_write]

    def setups(self, ex):
        # (1) empty trie: the root does not exist yet
        p, w, store, trie = base()
        p.assume(p.w["T.size"] == 128)
        lst = p.new_obj("list", {"items": [b"", 128] + [0] * 7})
        n = p.new_obj("LRUTrieNode", {"storage": store, "block": None, "exists": False, "tail": b"", "data": lst})
        s = fresh("stem", BYTES)
        p.w["__stem"] = s
        p.w["__g"] = z3.IntVal(0)
        self.n = n
        yield p, trie, [n, s], {}, "missing-root"
        # (2) node is the root of a sibling tree
        p, w, store, trie = base()
        r = fresh("r", INT)
        p.assume(w.head(r))
        p.assume(w.lo(r) == NEG)
        p.assume(w.hi(r) == POS)
        n = fresh_node_at(p, store, r)
        s = fresh("stem", BYTES)
        p.w["__stem"] = s
        p.w["__g"] = w.f("parent", r)
        p.w["__r"] = r
        self.n = n
        yield p, trie, [n, s], {}, "group-root"

    @staticmethod
    def post(ex, p0, p1, res_ref, g, s, gpath0, name="ensure"):
        """postcondition clauses over (p0 -> p1)"""
        w0, w1 = TW(p0), TW(p1)
        size0, size1 = p0.w["T.size"], p1.w["T.size"]
        rb = node_blk(p1, res_ref)
        cs = list(is_fresh(ex, p1, res_ref))
        cs += [
            ("result-is-a-head", w1.head(rb)),
            ("result-in-the-group", w1.f("parent", rb) == g),
            ("result-key==stem", w1.key(rb) == s),
            ("result-path", w1.path(rb) == EXT(gpath0, s)),
        ]
        cs += frame_clauses(p0, p1, size0)
        L = blen(s)
        k = Wd.TB(L - 74)
        cs.append(("grows-by-0-or-the-blocks-of-the-stem", z3.Or(size1 == size0, z3.And(size1 == size0 + 128 * (1 + k), rb == size0))))
        b = z3.Int("b")
        cs.append(("allocates-only-when-the-stem-is-missing", z3.ForAll([b], z3.Implies(z3.And(w0.head(b), w0.f("parent", b) == g, w0.key(b) == s, z3.Or(g != 0, size0 > 128)), z3.And(size1 == size0, rb == b)))))
        cs.append(("found=>nothing-written", z3.Implies(size1 == size0, z3.And(*[p1.w[k_] == p0.w[k_] for k_ in TKEYS + GHOSTS]))))
        cs.append(("new-blocks-are-the-node-and-its-tails", z3.ForAll([b], z3.Implies(z3.And(w1.head(b), b >= size0), b == size0))))
        blank = z3.And(w1.f("we", size0) == 0, w1.f("left", size0) == 0, w1.f("right", size0) == 0, w1.f("child", size0) == 0, w1.f("outl", size0) == 0, w1.f("inl", size0) == 0, z3.Not(w1.flag(size0, PAGE)), z3.Not(w1.flag(size0, CRAWLED)), z3.Not(w1.flag(size0, RULE)), w1.flag(size0, NOCHILD))
        cs.append(("a-created-node-is-blank", z3.Implies(size1 > size0, blank)))
        # a node is created only for a path no head spelled before the call
        cs.append(("created=>its-path-was-not-stored-before", z3.ForAll([b], z3.Implies(z3.And(size1 > size0, w0.head(b)), w0.path(b) != EXT(gpath0, s)))))
        return cs

    def check(self, ex, p0, res, tag):
        s = p0.w["__stem"]
        g = p0.w["__g"]
        w0 = TW(p0)
        gpath0 = z3.If(g == 0, ROOTP, w0.path(g))
        for p1, kind, val in res:
            if kind == "raise":
                ex.oblige(p1, "raises-nothing(%s)" % val[0], False, val[1])
                continue
            if not isinstance(val, Ref):
                ex.oblige(p1, "returns-a-node", False, None)
                continue
            simp_world(p1)
            for nm, f in self.post(ex, p0, p1, val, g, s, gpath0):
                ex.oblige(p1, nm, f, None)
            for nm, f in Inv(p1):
                ex.oblige(p1, "preserves:" + nm, f, None)

    def apply(self, ex, p, recv, args, kw, ln):
        node, s = args[0], to_z3(args[1])
        o = p.obj(node)
        w = TW(p)
        for nm, f in Inv(p):
            ex.oblige(p, "ensure:pre:" + nm, f, ln, "pre")
        out = []
        for q, exists in ex.branch(p, ex.truth(o.f["exists"], p)):
            wq = TW(q)
            if exists:
                r = node_blk(q, node)
                for nm, f in is_fresh(ex, q, node, "ensure:pre:node"):
                    ex.oblige(q, nm, f, ln, "pre")
                ex.oblige(q, "ensure:pre:node-is-a-head", wq.head(r), ln, "pre")
                ex.oblige(q, "ensure:pre:node-is-a-group-root", z3.And(wq.lo(r) == NEG, wq.hi(r) == POS), ln, "pre")
                g = wq.f("parent", r)
            else:
                ex.oblige(q, "ensure:pre:missing-node-only-in-an-empty-trie", q.w["T.size"] == 128, ln, "pre")
                ex.oblige(q, "ensure:pre:missing-node-is-blank", z3.And(ex.opt_eq(p.obj(node).f["block"], None, q) if True else True), ln, "pre")
                g = z3.IntVal(0)
            gpath0 = z3.If(g == 0, ROOTP, wq.path(g))
            q1 = q.fork()
            for k_ in TKEYS + GHOSTS:
                q1.w[k_] = fresh(k_.replace(".", "_"), q.w[k_].sort())
            q1.assume(AL(q1.w["T.size"]))
            rb = fresh("ensured", INT)
            res = fresh_node_at(q1, q1.obj(node).f["storage"], rb, "ensured")
            for nm, f in self.post(ex, q, q1, res, g, s, gpath0):
                q1.assume(f)
            N.assume_all(q1, Inv(q1))
            Wd.prune_dead_world_facts(q1)
            q1.mut += 1
            out.append((q1, res))
        return out


def ensure_loop_inv(ex, p):
    w = TW(p)
    n = p.env["node"]
    b = node_blk(p, n)
    s = to_z3(p.env["stem"])
    cs = list(is_fresh(ex, p, n, "node"))
    cs += [
        ("node-is-a-head", w.head(b)),
        ("node-in-the-group", w.f("parent", b) == p.w["__g"]),
        ("stem-inside-node's-interval", z3.And(w.lo(b) < ORD(s), ORD(s) < w.hi(b))),
    ]
    return cs


def havoc_node(name):
    """the loop may have re-read the node at another block: a faithful copy of an
    arbitrary block (Fresh by construction)"""

    def h(ex, p):
        n = p.env[name]
        store = p.obj(n).f["storage"]
        b = fresh(name + "_blk", INT)
        p.env[name] = fresh_node_at(p, store, b, name)

    return h




# ============================================================================ add_lru / add_page / readers
def snapshot_old(p):
    for k in list(p.w):
        if not k.startswith("old:") and not k.startswith("__"):
            p.w["old:" + k] = p.w[k]


def old_view(p):
    return TW(type("P", (), {"w": {k[4:]: v for k, v in p.w.items() if k.startswith("old:")}})())


def writer_frame(p, flag_param):
    """relative to the state at function entry (old:*): what add_lru may have changed in
    blocks that existed then"""
    w0, w1 = old_view(p), TW(p)
    size0 = w0.p.w["T.size"]
    a = z3.Int("a")
    cs = [("frame:size-only-grows", z3.And(p.w["T.size"] >= size0, AL(p.w["T.size"])))]
    for f in ("stem", "we", "parent", "outl", "inl"):
        cs.append(("frame:old-blocks[%s]-unchanged" % f, z3.ForAll([a], z3.Implies(a < size0, w1.f(f, a) == w0.f(f, a)))))
    for k in range(8):
        if k == NOCHILD:
            # the pruning mark may only be cleared, and only when asked to
            cs.append(("frame:old-blocks-pruning-mark-only-cleared", z3.ForAll([a], z3.Implies(z3.And(a < size0, w1.flag(a, k)), w0.flag(a, k)))))
            if flag_param is not True:
                fl = to_z3(flag_param)
                cs.append(("frame:old-blocks-pruning-mark-unchanged-unless-asked", z3.ForAll([a], z3.Implies(z3.And(z3.Not(fl), a < size0), w1.flag(a, k) == w0.flag(a, k)))))
        else:
            cs.append(("frame:old-blocks-bit%d-unchanged" % k, z3.ForAll([a], z3.Implies(a < size0, w1.flag(a, k) == w0.flag(a, k)))))
    for f in ("left", "right", "child"):
        cs.append(("frame:old-blocks[%s]-only-set-from-0-to-a-new-block" % f, z3.ForAll([a], z3.Implies(a < size0, z3.Or(w1.f(f, a) == w0.f(f, a), z3.And(w0.f(f, a) == 0, w1.f(f, a) >= size0))))))
    for g in ("rest", "lo", "hi", "path", "ref", "slot"):
        cs.append(("frame:ghost[%s]-of-old-blocks-unchanged" % g, z3.ForAll([a], z3.Implies(a < size0, z3.Select(p.w["G." + g], a) == z3.Select(w0.p.w["G." + g], a)))))
    cs.append(("frame:ghost[addr]-of-old-heads-unchanged", z3.ForAll([a], z3.Implies(w0.head(a), z3.Select(p.w["G.addr"], w0.path(a)) == a))))
    # new heads carry nothing: no page, no webentity, no rule, no links
    cs.append(("frame:new-heads-are-blank", z3.ForAll([a], z3.Implies(z3.And(w1.head(a), a >= size0), z3.And(w1.f("we", a) == 0, w1.f("outl", a) == 0, w1.f("inl", a) == 0, z3.Not(w1.flag(a, PAGE)), z3.Not(w1.flag(a, CRAWLED)), z3.Not(w1.flag(a, RULE)))))))
    return cs


class LruIter(Contract):
    """lru_iter(lru): the stems of the LRU, as the abstract sequence QS(0..QL-1) with
    join = lru.  ASSUMED here (trusted contract, bounded-checked: the splitting loop
    works on bytes positions); every caller in lru_trie.py only needs the sequence."""

    qual = "lru_iter"
    trusted = True

    def setups(self, ex):
        return iter(())

    def seq(self, ex, p, recv, args, kw, ln):
        return p, SeqView(QL, lambda i: QS(i))


def root_like(ex, p, nref, i):
    """node is the root of the sibling tree whose members spell QP(i) ++ [stem]"""
    w = TW(p)
    o = p.obj(nref)
    exists = to_z3(ex.truth(o.f["exists"], p))
    b = o.f["block"]
    if b is None:
        return [("node-missing-only-in-an-empty-trie", z3.And(z3.Not(exists), i == 0, p.w["T.size"] == 128))]
    none = b.none if isinstance(b, Opt) else z3.BoolVal(False)
    bz = b.val if isinstance(b, Opt) else to_z3(b)
    fresh_cs = [f for nm, f in is_fresh(ex, p, nref, "node")]
    d = [Wd._coerce(x, srt) for x, srt in zip(node_data(p, nref), Wd.SORTS)]
    blank = z3.And(to_z3(none), z3.Not(exists), i == 0, p.w["T.size"] == 128, to_z3(o.f["tail"]) == bytes_val(b""), d[0] == bytes_val(b""), d[1] == z3.BitVecVal(128, 8), *[d[k] == 0 for k in range(2, 9)])
    there = z3.And(*(fresh_cs + [z3.Not(to_z3(none)), w.head(bz), w.lo(bz) == NEG, w.hi(bz) == POS, w.gpath(bz) == QP(i)]))
    return [("node-is-the-root-of-the-sibling-tree-at-level-i(or-missing-in-an-empty-trie)", z3.Or(blank, there))]


def add_lru_inv0(ex, p):
    w = TW(p)
    i = to_z3(p.env["i"])
    flag = p.env["flag_can_have_child_webentities"]
    cs = Inv(p)
    cs.append(("i-range", z3.And(i >= 0, z3.Or(i < QL, i == 0))))
    cs.append(("lru==joined-stems-so-far", to_z3(p.env["lru"]) == PRE(i)))
    cs += root_like(ex, p, p.env["node"], i)
    if flag is not False:
        fl = to_z3(ex.truth(flag, p))
        b = p.obj(p.env["node"]).f["block"]
        if b is not None:
            bz = b.val if isinstance(b, Opt) else to_z3(b)
            cs.append(("flagging:group-parent-unmarked", z3.Implies(z3.And(fl, i > 0), z3.Not(w.flag(w.f("parent", bz), NOCHILD)))))
    cs += writer_frame(p, flag)
    return cs


def add_lru_inv1(ex, p):
    w = TW(p)
    i = to_z3(p.env["i"])
    flag = p.env["flag_can_have_child_webentities"]
    n = p.env["node"]
    cs = Inv(p)
    cs.append(("i-range", z3.If(QL >= 1, z3.And(i >= 1, i <= QL), i == 0)))
    if p.obj(n).f["block"] is not None:
        b = node_blk(p, n)
        g = QL >= 1  # an empty LRU never enters either loop: nothing is claimed about the root
        cs += [(nm, z3.Implies(g, f)) for nm, f in is_fresh(ex, p, n, "node")]
        cs.append(("node-is-the-head-spelling-the-first-i-stems", z3.Implies(g, z3.And(w.head(b), w.path(b) == QP(i)))))
        cs.append(("node-has-no-child-yet", z3.Implies(z3.And(g, i < QL), w.f("child", b) == 0)))
        if flag is not False:
            fl = to_z3(ex.truth(flag, p))
            cs.append(("flagging:node-unmarked", z3.Implies(z3.And(g, fl, i < QL), z3.Not(w.flag(b, NOCHILD)))))
            cs.append(("flagging:parent-unmarked", z3.Implies(z3.And(g, fl, w.f("parent", b) != 0), z3.Not(w.flag(w.f("parent", b), NOCHILD)))))
    else:
        cs.append(("missing-root-only-for-the-empty-lru", QL == 0))
    cs += writer_frame(p, flag)
    return cs


def havoc_history(ex, p):
    if "history" in p.env and isinstance(p.env["history"], Ref):
        o = p.obj(p.env["history"])
        o.f["webentity"] = Opt(fresh("h_noweb", BOOL), fresh("h_we", INT))
        o.f["webentity_prefix"] = fresh("h_prefix", BYTES)
        o.f["webentity_position"] = fresh("h_pos", INT)
        o.f["webentity_creation_rules"] = p.new_obj("list", {"len": fresh("h_nrules", INT), "arr": fresh("h_rules", z3.ArraySort(INT, INT))})


def _append_rule(ex, p, o, v):
    n = o.f["len"]
    old = o.f["elem"]
    arr = o.f.get("arr")
    o.f["len"] = n + 1
    o.f["last"] = to_z3(v)


def havoc_add_lru(ex, p):
    havoc_node("node")(ex, p)
    # the node may be the missing root: keep that possibility
    n = p.env["node"]
    o = p.obj(n)
    o.f["exists"] = fresh("node_exists", BOOL)
    o.f["block"] = Opt(fresh("node_noblock", BOOL), o.f["block"])
    lst = p.obj(o.f["data"])
    lst.f["items"] = [fresh("nd_stem", BYTES), fresh("nd_flags", BV8)] + [fresh("nd%d" % k, INT) for k in range(2, 9)]
    o.f["tail"] = fresh("nd_tail", BYTES)
    havoc_history(ex, p)


def havoc_add_lru1(ex, p):
    havoc_node("node")(ex, p)
    havoc_history(ex, p)


def parent_hints(p):
    return [p.w["T.parent"]] if "T.parent" in p.w else []


class AddLru(Contract):
    qual = "LRUTrie.add_lru"

    def prepare(self, ex):
        ex.node_write_hooks = [ghost_on_node_write]

    def setups(self, ex):
        p, w, store, trie = base()
        lru = fresh("lru", BYTES)
        p.assume(lru == PRE(QL))
        snapshot_old(p)
        flag = fresh("flag", BOOL)
        p.w["__flag"] = flag
        yield p, trie, [lru], {"flag_can_have_child_webentities": flag}, flag

    @staticmethod
    def post(ex, p1, res_ref, flag):
        w = TW(p1)
        rb = node_blk(p1, res_ref)
        cs = list(is_fresh(ex, p1, res_ref))
        cs.append(("result-is-the-head-spelling-the-lru", z3.Implies(QL >= 1, z3.And(w.head(rb), w.path(rb) == QP(QL)))))
        if flag is not False:
            cs.append(("flagging:parent-of-the-result-unmarked", z3.Implies(z3.And(to_z3(flag), QL >= 1, w.f("parent", rb) != 0), z3.Not(w.flag(w.f("parent", rb), NOCHILD)))))
        cs += writer_frame(p1, flag)
        return cs

    def check(self, ex, p0, res, flag):
        for p1, kind, val in res:
            if kind == "raise":
                ex.oblige(p1, "raises-nothing(%s)" % val[0], False, val[1])
                continue
            if not (isinstance(val, tuple) and len(val) == 2 and isinstance(val[0], Ref)):
                ex.oblige(p1, "returns-(node,history)", False, None)
                continue
            simp_world(p1)
            # an empty LRU returns the (possibly missing) root: nothing claimed
            for nm, f in self.post(ex, p1, val[0], flag):
                ex.oblige(p1, nm, z3.Implies(QL >= 1, f), None)
            for nm, f in Inv(p1):
                ex.oblige(p1, "preserves:" + nm, f, None)


def install(lib):
    lib.loop_spec("LRUTrie.__ensure_stem_from_siblings::while#0", LoopSpec(ensure_loop_inv, havoc=havoc_node("node")))
    lib.loop_spec("LRUTrie.add_lru::while#0", LoopSpec(add_lru_inv0, havoc=havoc_add_lru, locals_=("i", "lru"), world=TKEYS + GHOSTS, prune=Wd.prune_dead_world_facts))
    lib.loop_spec("LRUTrie.add_lru::while#1", LoopSpec(add_lru_inv1, havoc=havoc_add_lru1, locals_=("i",), world=TKEYS + GHOSTS, prune=Wd.prune_dead_world_facts))
    return [LruIter(), Ensure(), AddLru()]


# ============================================================================ add_lru as a callee, add_page
def _addlru_apply(self, ex, p, recv, args, kw, ln):
    """callers see add_lru through its contract: a new world related to the old one by
    writer_frame, satisfying Inv, and a Fresh node spelling the LRU"""
    flag = kw.get("flag_can_have_child_webentities", args[1] if len(args) > 1 else False)
    for nm, f in Inv(p):
        ex.oblige(p, "add_lru:pre:" + nm, f, ln, "pre")
    lru = to_z3(args[0])
    ex.oblige(p, "add_lru:pre:lru-is-the-query", lru == PRE(QL), ln, "pre")
    ex.oblige(p, "add_lru:pre:at-least-one-stem", QL >= 1, ln, "pre")
    q = p.fork()
    saved_old = {k: v for k, v in q.w.items() if k.startswith("old:")}
    for k in list(q.w):
        if k.startswith("old:"):
            del q.w[k]
    snapshot_old(q)
    for k_ in TKEYS + GHOSTS:
        q.w[k_] = fresh(k_.replace(".", "_"), q.w[k_].sort())
    q.assume(AL(q.w["T.size"]))
    rb = fresh("added", INT)
    store = q.obj(recv).f["storage"]
    res = fresh_node_at(q, store, rb, "added")
    for nm, f in AddLru.post(ex, q, res, flag):
        q.assume(f)
    N.assume_all(q, Inv(q))
    # history: a fresh walk history object (its contents are specified by follow_lru's
    # contract; add_lru's callers in this plan only use page_was_created)
    hist = q.new_obj("LRUTrieWalkHistory", {"lru": args[0], "webentity": Opt(fresh("h_noweb", BOOL), fresh("h_we", INT)), "webentity_prefix": fresh("h_prefix", BYTES), "webentity_position": fresh("h_pos", INT), "webentity_creation_rules": q.new_obj("list", {"len": fresh("h_nrules", INT), "elem": lambda i: fresh("h_rule", INT)}), "page_was_created": False})
    # keep the caller's own `old:` snapshot (if any) for its frame; expose this call's
    # pre-state under `pre:`
    for k in list(q.w):
        if k.startswith("old:"):
            q.w["pre:" + k[4:]] = q.w.pop(k)
    for k_ in TKEYS + GHOSTS:
        q.w["mid:" + k_] = q.w[k_]  # the state right after add_lru
    if ADD_LRU_HISTORY and "__walked" not in q.w:
        # the (verified) history clauses, for the FIRST add_lru call of the caller: the
        # level functions are those of this call's pre-state
        for ax in addlru_history_axioms(q, "pre:"):
            q.assume(ax)
        kk = fresh("walked", INT)
        q.assume(z3.And(kk >= 0, kk <= QL))
        q.w["__walked"] = kk
        ho = q.obj(hist)
        ho.f["webentity_creation_rules"] = q.new_obj("list", {"len": fresh("h_nrules", INT), "arr": fresh("h_rules", z3.ArraySort(INT, INT))})
        q.assume(z3.Or(ho.f["webentity"].none, ho.f["webentity"].val >= 1))
        for nm, f in history_is(ex, q, hist, kk, "history", ADD_SPEC) + rules_is(ex, q, hist, kk, "history", ADD_SPEC):
            q.assume(f)
        jj = z3.Int("j")
        q.assume(z3.ForAll([jj], z3.Implies(z3.And(jj >= kk, jj < QL), z3.And(LEVEL_WE(jj) == 0, z3.Not(LEVEL_RULE(jj))))))
    q.w.update(saved_old)
    Wd.prune_dead_world_facts(q)
    q.mut += 1
    return [(q, (res, hist))]


AddLru.apply = _addlru_apply


class AddPage(Contract):
    """LRUTrie.add_page: the node spelling the LRU gets the page bit (and the crawled bit
    when asked); page_was_created <=> it was not a page; no other bit, field or block
    changes beyond what add_lru may change"""

    qual = "LRUTrie.add_page"

    def prepare(self, ex):
        ex.node_write_hooks = [ghost_on_node_write]

    def setups(self, ex):
        p, w, store, trie = base()
        lru = fresh("lru", BYTES)
        p.assume(lru == PRE(QL))
        p.assume(QL >= 1)
        crawled = fresh("crawled", BOOL)
        p.w["__crawled"] = crawled
        snapshot_old(p)
        yield p, trie, [lru], {"crawled": crawled}, "any"

    def check(self, ex, p0, res, tag):
        crawled = p0.w["__crawled"]
        a = z3.Int("a")
        for p1, kind, val in res:
            if kind == "raise":
                ex.oblige(p1, "raises-nothing(%s)" % val[0], False, val[1])
                continue
            node, hist = val
            simp_world(p1)
            w1 = TW(p1)
            pre = TW(type("P", (), {"w": {k[4:]: v for k, v in p1.w.items() if k.startswith("mid:")}})())
            rb = node_blk(p1, node)
            for nm, f in is_fresh(ex, p1, node):
                ex.oblige(p1, nm, f, None)
            ex.oblige(p1, "result-spells-the-lru", z3.And(w1.head(rb), w1.path(rb) == QP(QL)), None)
            ex.oblige(p1, "result-is-a-page", w1.flag(rb, PAGE), None)
            # `mid:` is the state right after add_lru (same blocks, before the flag write)
            was_page = pre.flag(rb, PAGE)
            was_crawled = pre.flag(rb, CRAWLED)
            ex.oblige(p1, "page_was_created<=>was-not-a-page", to_z3(ex.truth(p1.obj(hist).f["page_was_created"], p1)) == z3.Not(was_page), None)
            ex.oblige(p1, "crawled-mark-is-monotone", w1.flag(rb, CRAWLED) == z3.Or(was_crawled, crawled), None)
            for k in range(8):
                if k not in (PAGE, CRAWLED):
                    ex.oblige(p1, "result-bit%d-unchanged" % k, w1.flag(rb, k) == pre.flag(rb, k), None)
            for f in FIELDS:
                if f == "flags":
                    continue
                ex.oblige(p1, "after-add_lru:[%s]-unchanged" % f, p1.w["T." + f] == pre.p.w["T." + f], None)
            ex.oblige(p1, "after-add_lru:other-blocks-flags-unchanged", z3.ForAll([a], z3.Implies(a != rb, w1.f("flags", a) == pre.f("flags", a))), None)
            ex.oblige(p1, "after-add_lru:size-unchanged", p1.w["T.size"] == pre.p.w["T.size"], None)
            for nm, f in Inv(p1):
                ex.oblige(p1, "preserves:" + nm, f, None)


_install_prev = install


def install(lib):
    cs = _install_prev(lib)
    return cs + [AddPage()]


# ============================================================================ point readers (soundness half)
def reader_for_inv(ex, p):
    w = TW(p)
    i = to_z3(p.env[[k for k in p.env if k.startswith("__i")][0]])
    cs = [("i-range", z3.And(i >= 0, i <= QL))]
    n = p.env["node"]
    rl = root_like(ex, p, n, i)[0][1]
    # after the last stem the node is the one that matched it
    if p.obj(n).f["block"] is None:
        final = z3.BoolVal(False)
    else:
        b = node_blk(p, n)
        none = p.obj(n).f["block"].none if isinstance(p.obj(n).f["block"], Opt) else z3.BoolVal(False)
        final = z3.And(*([f for nm, f in is_fresh(ex, p, n, "node")] + [z3.Not(to_z3(none)), w.head(b), w.path(b) == QP(QL)]))
    cs.append(("node-is-the-root-of-the-sibling-tree-at-level-i(or-the-matched-node-after-the-last-stem)", z3.If(i < QL, rl, z3.Or(QL == 0, final))))
    if "history" in p.env:
        cs.append(("lru==joined-stems-so-far", to_z3(p.env["lru"]) == PRE(i)))
    return cs


def reader_while_inv(ex, p):
    w = TW(p)
    i = to_z3(p.env["i"])
    n = p.env["node"]
    o = p.obj(n)
    s = to_z3(p.env["stem"])
    b = o.f["block"]
    none = b.none if isinstance(b, Opt) else z3.BoolVal(b is None)
    bz = b.val if isinstance(b, Opt) else (to_z3(b) if b is not None else z3.IntVal(0))
    exists = to_z3(ex.truth(o.f["exists"], p))
    d = [Wd._coerce(x, srt) for x, srt in zip(node_data(p, n), Wd.SORTS)]
    # the missing root of an empty trie: default data, nothing to follow
    blank = z3.And(z3.Not(exists), i == 0, p.w["T.size"] == 128, to_z3(o.f["tail"]) == bytes_val(b""), d[0] == bytes_val(b""), d[1] == z3.BitVecVal(128, 8), *[d[k] == 0 for k in range(2, 9)])
    if b is None:
        there = z3.BoolVal(False)
    else:
        fresh_cs = [f for nm, f in is_fresh(ex, p, n, "node")]
        there = z3.And(*(fresh_cs + [z3.Not(to_z3(none)), w.head(bz), w.gpath(bz) == QP(i), w.lo(bz) < ORD(s), ORD(s) < w.hi(bz)]))
    cs = [
        ("i-range", z3.And(i >= 0, i < QL)),
        ("stem-is-the-i-th-stem", s == QS(i)),
        ("node-is-a-fresh-head-of-the-group-at-level-i-with-the-stem-in-its-interval(or-the-missing-root)", z3.Or(blank, there)),
    ]
    if "history" in p.env:
        cs.append(("lru==joined-stems-so-far", to_z3(p.env["lru"]) == PRE(i + 1)))
    return cs


def havoc_reader(ex, p):
    havoc_node("node")(ex, p)
    n = p.env["node"]
    o = p.obj(n)
    o.f["exists"] = fresh("node_exists", BOOL)
    o.f["block"] = Opt(fresh("node_noblock", BOOL), o.f["block"])
    lst = p.obj(o.f["data"])
    lst.f["items"] = [fresh("nd_stem", BYTES), fresh("nd_flags", BV8)] + [fresh("nd%d" % k, INT) for k in range(2, 9)]
    o.f["tail"] = fresh("nd_tail", BYTES)
    havoc_history(ex, p)


def havoc_reader_node(ex, p):
    havoc_node("node")(ex, p)
    n = p.env["node"]
    o = p.obj(n)
    o.f["exists"] = fresh("node_exists", BOOL)
    o.f["block"] = Opt(fresh("node_noblock", BOOL), o.f["block"])
    lst = p.obj(o.f["data"])
    lst.f["items"] = [fresh("nd_stem", BYTES), fresh("nd_flags", BV8)] + [fresh("nd%d" % k, INT) for k in range(2, 9)]
    o.f["tail"] = fresh("nd_tail", BYTES)


class Reader(Contract):
    """lru_node / follow_lru, soundness: whenever a node is returned it is a Fresh copy of
    the head that spells the queried LRU, nothing is raised and nothing is written.
    (That None is returned only for LRUs that are not stored - completeness - needs the
    prefix-closure lemma and is left to the bounded stand-in.)"""

    def __init__(self, name):
        self.qual = "LRUTrie." + name
        self.name = name

    def setups(self, ex):
        p, w, store, trie = base()
        lru = fresh("lru", BYTES)
        p.assume(lru == PRE(QL))
        snapshot_old(p)
        yield p, trie, [lru], {}, "any"

    def check(self, ex, p0, res, tag):
        for p1, kind, val in res:
            if kind == "raise":
                ex.oblige(p1, "raises-nothing(%s)" % val[0], False, val[1])
                continue
            node = val[0] if isinstance(val, tuple) else val
            for k in TKEYS:
                if not p1.w[k].eq(p0.w[k]):
                    ex.oblige(p1, "store-unchanged[%s]" % k, p1.w[k] == p0.w[k], None)
            if node is None:
                continue
            if isinstance(node, Opt):
                raise Unsupported("optional node result")
            w = TW(p1)
            rb = node_blk(p1, node)
            for nm, f in is_fresh(ex, p1, node):
                ex.oblige(p1, nm, z3.Implies(QL >= 1, f), None)
            ex.oblige(p1, "result-spells-the-lru", z3.Implies(QL >= 1, z3.And(w.head(rb), w.path(rb) == QP(QL))), None)


_install_prev2 = install


def install(lib):
    cs = _install_prev2(lib)
    for nm in ("lru_node", "follow_lru"):
        lib.loop_spec("LRUTrie.%s::for#0" % nm, LoopSpec(reader_for_inv, havoc=havoc_reader, locals_=("lru",) if nm == "follow_lru" else ()))
        lib.loop_spec("LRUTrie.%s::while#0" % nm, LoopSpec(reader_while_inv, havoc=havoc_reader_node))
    return cs + [Reader("lru_node"), Reader("follow_lru")]


# ============================================================================ dfs_with_webentity_iter (C07)
# NEAR(a): the webentity of the nearest ancestor-or-self of head a that carries one, 0 if
# none.  Spec function of the *current* store, defined by well-founded recursion on the
# parent pointer (parent[a] < a, I2): the unfolding equation below is its definition
# (assumption A12 in vcheck.py; consistent because the recursion is well-founded).
NEAR = z3.Function("NEAR", INT, INT)


def near_axiom(p):
    w = TW(p)
    a = z3.Int("a")
    pa = w.f("parent", a)
    return z3.ForAll([a], z3.Implies(w.head(a), NEAR(a) == z3.If(w.f("we", a) != 0, w.f("we", a), z3.If(pa == 0, 0, NEAR(pa)))))


def enc_we(v):
    if v is None:
        return z3.IntVal(0)
    if isinstance(v, Opt):
        return z3.If(v.none, 0, to_z3(v.val)) if not isinstance(v.none, bool) else (z3.IntVal(0) if v.none else to_z3(v.val))
    return to_z3(v)


def inherited(w, b):
    pa = w.f("parent", b)
    return z3.If(pa == 0, 0, NEAR(pa))


def wl_phi(ex, p, e):
    """work-list entry (block, webentity): block is a head and the carried webentity is
    the one inherited from above (None encoded as 0)"""
    w = TW(p)
    b, we = e
    cs = []
    if isinstance(b, Opt):
        cs.append(("block-is-not-None", znot(b.none) if not isinstance(b.none, bool) else z3.BoolVal(not b.none)))
        b = b.val
    bz = to_z3(b)
    cs.append(("block-is-a-head", w.head(bz)))
    cs.append(("carried-webentity==inherited-nearest", enc_we(we) == inherited(w, bz)))
    if isinstance(we, Opt) and not isinstance(we.none, bool):
        cs.append(("carried-webentity-is-None-or-positive", z3.Or(we.none, to_z3(we.val) >= 1)))
    return cs


def wl_mk():
    return (fresh("wl_block", INT), Opt(fresh("wl_nowe", BOOL), fresh("wl_we", INT)))


def wl_inv(ex, p):
    st = p.env["stack"]
    o = p.obj(st)
    cs = []
    if o.cls == "list":
        for k, e in enumerate(o.f["items"]):
            cs += [("entry%d:%s" % (k, nm), f) for nm, f in wl_phi(ex, p, e)]
    else:
        cs.append(("worklist-size-nonnegative", o.f["n"] >= 0))
    return cs


def wl_havoc(ex, p):
    p.env["stack"] = p.new_obj("bag", {"phi": wl_phi, "mk": wl_mk, "n": fresh("wl_n", INT)})
    n = p.env["node"]
    store = p.obj(n).f["storage"]
    p.env["node"] = Wd.sym_node(p, store, "node")


class DfsWithWebentity(Contract):
    """dfs_with_webentity_iter, soundness: every yielded (node, webentity) is a Fresh
    head together with NEAR(head) (None for 0); nothing is raised, nothing written.
    (That every head is yielded exactly once is left to the bounded stand-in.)"""

    qual = "LRUTrie.dfs_with_webentity_iter"

    def setups(self, ex):
        p, w, store, trie = base()
        p.assume(near_axiom(p))
        snapshot_old(p)
        p.w["__yields"] = z3.IntVal(0)
        yield p, trie, [], {}, "any"

    def on_yield(self, ex, p, v, ln, tag):
        w = TW(p)
        if not (isinstance(v, tuple) and len(v) == 2 and isinstance(v[0], Ref)):
            ex.oblige(p, "yields-(node,webentity)", False, ln)
            return []
        node, we = v
        b = node_blk(p, node)
        for nm, f in is_fresh(ex, p, node, "yielded-node"):
            ex.oblige(p, nm, f, ln)
        ex.oblige(p, "yielded-node-is-a-head", w.head(b), ln)
        ex.oblige(p, "yielded-webentity==nearest-webentity-of-the-node", enc_we(we) == NEAR(b), ln)
        p.w["__yields"] = p.w["__yields"] + 1
        p.mut += 1
        return [(p, "normal", None)]

    def check(self, ex, p0, res, tag):
        for p1, kind, val in res:
            if kind == "raise":
                ex.oblige(p1, "raises-nothing(%s)" % val[0], False, val[1])
                continue
            for k in TKEYS:
                if not p1.w[k].eq(p0.w[k]):
                    ex.oblige(p1, "store-unchanged[%s]" % k, p1.w[k] == p0.w[k], None)


_install_prev3 = install


def install(lib):
    cs = _install_prev3(lib)
    lib.loop_spec("LRUTrie.dfs_with_webentity_iter::while#0", LoopSpec(wl_inv, havoc=wl_havoc))
    return cs + [DfsWithWebentity()]


# ============================================================================ windup_lru_for_webentity (C07 slow variant, C08)
def parents_loop_inv(ex, p):
    """loop of node_parents_iter, as seen by the function under verification (the
    consumer's body runs at each yield)"""
    w = TW(p)
    par = p.env["parent"]
    if p.obj(par).f["block"] is None:
        # the parent pointer led outside the store: impossible under the invariant
        return [("parent-node-exists", z3.BoolVal(False))]
    pb = node_blk(p, par)
    cs = list(is_fresh(ex, p, par, "parent"))
    cs.append(("parent-is-a-head", w.head(pb)))
    cenv = p.w.get("__consumer_env", {})
    if ex.fn == "LRUTrie.windup_lru_for_webentity" and "node" in cenv:
        b0 = node_blk(p, cenv["node"])
        cs.append(("nearest-webentity-of-the-start==nearest-of-the-current-ancestor", NEAR(b0) == NEAR(pb)))
        cs.append(("no-webentity-found-so-far", w.f("we", pb) == 0))
    return cs


class WindupWebentity(Contract):
    """windup_lru_for_webentity(node) = NEAR(node): the webentity of the nearest
    ancestor-or-self carrying one, None when there is none; nothing raised or written"""

    qual = "LRUTrie.windup_lru_for_webentity"

    def setups(self, ex):
        p, w, store, trie = base()
        p.assume(near_axiom(p))
        b0 = fresh("b0", INT)
        p.assume(w.head(b0))
        n = fresh_node_at(p, store, b0)
        p.w["__b0"] = b0
        snapshot_old(p)
        yield p, trie, [n], {}, "any"

    def check(self, ex, p0, res, tag):
        b0 = p0.w["__b0"]
        for p1, kind, val in res:
            if kind == "raise":
                ex.oblige(p1, "raises-nothing(%s)" % val[0], False, val[1])
                continue
            ex.oblige(p1, "result==nearest-webentity(None-for-none)", enc_we(val) == NEAR(b0), None)
            if isinstance(val, Opt) and not isinstance(val.none, bool):
                ex.oblige(p1, "result-is-None-or-a-webentity-id", z3.Or(val.none, to_z3(val.val) != 0), None)
            for k in TKEYS:
                if not p1.w[k].eq(p0.w[k]):
                    ex.oblige(p1, "store-unchanged[%s]" % k, p1.w[k] == p0.w[k], None)


_install_prev4 = install


def install(lib):
    cs = _install_prev4(lib)
    lib.loop_spec("LRUTrie.node_parents_iter::while#0", LoopSpec(parents_loop_inv, havoc=havoc_node("parent")))
    return cs + [WindupWebentity()]


# ============================================================================ windup_lru (C02: bottom-up reconstruction)
LRUB = z3.Function("LRUB", LP, BYTES)  # the bytes an abstract path spells


def _lrub_axioms(terms):
    out = [LRUB(ROOTP) == bytes_val(b"")]
    for t in terms:
        if z3.is_app(t) and t.decl().name() == "ext":
            out.append(LRUB(t) == bcat(LRUB(t.arg(0)), t.arg(1)))
    return out


if _lrub_axioms not in smt.TERM_AXIOMS:
    smt.TERM_AXIOMS.append(_lrub_axioms)
smt.GLOBAL_SYMBOLS.add("LRUB")

_parents_inv0 = parents_loop_inv


def parents_loop_inv(ex, p):  # noqa: F811  (extends the invariant for windup_lru)
    cs = _parents_inv0(ex, p)
    cenv = p.w.get("__consumer_env", {})
    if ex.fn == "LRUTrie.windup_lru" and "node" in cenv and p.obj(p.env["parent"]).f["block"] is not None:
        w = TW(p)
        pb = node_blk(p, p.env["parent"])
        b0 = node_blk(p, cenv["node"])
        cs.append(("bytes-above-the-current-ancestor++lru==bytes-of-the-start's-path", bcat(LRUB(w.gpath(pb)), to_z3(cenv["lru"])) == LRUB(w.path(b0))))
    return cs


class WindupLru(Contract):
    """windup_lru(block) returns exactly the bytes of the LRU whose walk ends at that
    head: the concatenation of the full stems from the top level down (C02: bottom-up
    reconstruction agrees byte for byte with the stored path)"""

    qual = "LRUTrie.windup_lru"

    def setups(self, ex):
        p, w, store, trie = base()
        b0 = fresh("b0", INT)
        p.assume(w.head(b0))
        p.w["__b0"] = b0
        snapshot_old(p)
        yield p, trie, [b0], {}, "any"

    def check(self, ex, p0, res, tag):
        b0 = p0.w["__b0"]
        w = TW(p0)
        # L-WINDUP (induction schema of DESIGN 3.7): the path of the first i stems of a
        # query spells the concatenation of those stems; with lru_node's contract
        # (path(result) = QP(QL)) this gives windup_lru(lru_node(l).block) = l
        k = fresh("k", INT)
        q = p0.fork()
        ex.oblige(q, "lemma:L-WINDUP:base", LRUB(QP(0)) == PRE(0), None)
        q.assume(k >= 0)
        q.assume(LRUB(QP(k)) == PRE(k))
        ex.oblige(q, "lemma:L-WINDUP:step", LRUB(QP(k + 1)) == PRE(k + 1), None)
        for p1, kind, val in res:
            if kind == "raise":
                ex.oblige(p1, "raises-nothing(%s)" % val[0], False, val[1])
                continue
            ex.oblige(p1, "result==bytes-of-the-stored-path", to_z3(val) == LRUB(w.path(b0)), None)
            for k in TKEYS:
                if not p1.w[k].eq(p0.w[k]):
                    ex.oblige(p1, "store-unchanged[%s]" % k, p1.w[k] == p0.w[k], None)


_install_prev5 = install


def install(lib):
    cs = _install_prev5(lib)
    lib.loop_spec("LRUTrie.node_parents_iter::while#0", LoopSpec(parents_loop_inv, havoc=havoc_node("parent")))
    return cs + [WindupLru()]


# ============================================================================ linear scans: count_pages / count_crawled_pages (C01, C18)
CNTPG = z3.Function("CNTPG", INT, INT)  # blocks in [128, a) carrying the page bit
CNTCR = z3.Function("CNTCR", INT, INT)  # ... carrying the page and the crawled bits


def count_axioms(p):
    w = TW(p)
    a = z3.Int("a")
    fl = w.f("flags", a)
    return [
        CNTPG(128) == 0,
        CNTCR(128) == 0,
        z3.ForAll([a], z3.Implies(z3.And(AL(a), a >= 128), CNTPG(a + 128) == CNTPG(a) + z3.If(bit(fl, PAGE), 1, 0))),
        z3.ForAll([a], z3.Implies(z3.And(AL(a), a >= 128), CNTCR(a + 128) == CNTCR(a) + z3.If(z3.And(bit(fl, PAGE), bit(fl, CRAWLED)), 1, 0))),
    ]


def scan_loop_inv(ex, p):
    """loop of nodes_iter as seen by count_pages / count_crawled_pages: the node is a copy
    of the block at the cursor, or the scan is past the end"""
    w = TW(p)
    n = p.env["node"]
    o = p.obj(n)
    exists = to_z3(ex.truth(o.f["exists"], p))
    size = p.w["T.size"]
    cenv = p.w.get("__consumer_env", {})
    b = o.f["block"]
    if b is None:
        past = z3.BoolVal(True)
        there = z3.BoolVal(False)
        bz = z3.IntVal(128)
    else:
        bz = b.val if isinstance(b, Opt) else to_z3(b)
        d = [Wd._coerce(x, srt) for x, srt in zip(node_data(p, n), Wd.SORTS)]
        none = to_z3(b.none) if isinstance(b, Opt) else z3.BoolVal(False)
        there = z3.And(exists, z3.Not(none), AL(bz), bz >= 128, bz < size, *[d[k] == w.f(f, bz) for k, f in enumerate(FIELDS)])
        past = z3.Not(exists)
    cs = [("cursor-node-is-a-copy-of-its-block(or-the-scan-is-over)", z3.Or(there, past))]
    if "nb" in cenv:
        nb = to_z3(cenv["nb"])
        fn = CNTPG if ex.fn == "LRUTrie.count_pages" else CNTCR
        cs.append(("count-so-far", z3.If(exists, nb == fn(bz), nb == fn(size))))
    return cs


def scan_havoc(ex, p):
    n = p.env["node"]
    store = p.obj(n).f["storage"]
    p.env["node"] = Wd.sym_node(p, store, "node")


class CountScan(Contract):
    """count_pages / count_crawled_pages: the number of blocks carrying the page bit
    (resp. page and crawled bits), for ANY store that is a whole number of blocks - no
    invariant is assumed, so this is also the no-failure obligation of C18 for the
    scans (tail blocks never carry these bits: LRUTrieNode.write's contract)"""

    def __init__(self, name):
        self.qual = "LRUTrie." + name
        self.name = name

    def setups(self, ex):
        p = Path()
        w = mk_trie_world(p)
        p.assume(p.w["T.size"] >= 128)
        for ax in count_axioms(p):
            p.assume(ax)
        for c in Wd.fields_in_range(w):
            p.assume(c)
        store = mk_store(p, "T")
        trie = p.new_obj("LRUTrie", {"storage": store, "encoding": "utf-8", "header": None})
        snapshot_old(p)
        yield p, trie, [], {}, "any-store"

    def check(self, ex, p0, res, tag):
        fn = CNTPG if self.name == "count_pages" else CNTCR
        for p1, kind, val in res:
            if kind == "raise":
                ex.oblige(p1, "raises-nothing-on-any-store(%s)" % val[0], False, val[1])
                continue
            ex.oblige(p1, "result==number-of-flagged-blocks", to_z3(val) == fn(p0.w["T.size"]), None)
            for k in TKEYS:
                if not p1.w[k].eq(p0.w[k]):
                    ex.oblige(p1, "store-unchanged[%s]" % k, p1.w[k] == p0.w[k], None)


_install_prev6 = install


def install(lib):
    cs = _install_prev6(lib)
    lib.loop_spec("LRUTrie.nodes_iter::while#0", LoopSpec(scan_loop_inv, havoc=scan_havoc))
    return cs + [CountScan("count_pages"), CountScan("count_crawled_pages")]


# ============================================================================ follow_lru: the walk history (C04)
# WN(j): the head spelling the first j+1 stems of the query (through the inverse path
# map); DEEP(i): the deepest level j < i whose head carries a webentity, -1 if none.
# DEEP is a spec function of the (constant) store, defined by recursion on i.
DEEP = z3.Function("DEEP", INT, INT)


def wn(p, j):
    return z3.Select(p.w["G.addr"], QP(j + 1))


def deep_axioms(p):
    w = TW(p)
    j = z3.Int("j")
    return [
        DEEP(0) == -1,
        z3.ForAll([j], z3.Implies(j >= 0, DEEP(j + 1) == z3.If(w.f("we", wn(p, j)) != 0, j, DEEP(j)))),
        # consequences of the definition (each by induction on j; the step of the second
        # one is discharged as `lemma:DEEP-names-a-webentity:step` in follow_lru's check)
        z3.ForAll([j], z3.Implies(j >= 0, z3.And(DEEP(j) >= -1, DEEP(j) < j))),
        z3.ForAll([j], z3.Implies(z3.And(j >= 0, DEEP(j) >= 0), w.f("we", wn(p, DEEP(j))) != 0)),
    ]


def deep_lemma_step(ex, p):
    """induction step of `DEEP(j) >= 0 => we[WN(DEEP(j))] != 0` from the defining
    equation alone"""
    w = TW(p)
    q = Path()
    q.w = dict(p.w)
    j = fresh("j", INT)
    q.assume(j >= 0)
    q.assume(DEEP(j + 1) == z3.If(w.f("we", wn(p, j)) != 0, j, DEEP(j)))
    q.assume(z3.Implies(DEEP(j) >= 0, w.f("we", wn(p, DEEP(j))) != 0))
    ex.oblige(q, "lemma:DEEP-names-a-webentity:step", z3.Implies(DEEP(j + 1) >= 0, w.f("we", wn(p, DEEP(j + 1))) != 0), None)


def follow_spec(p):
    """the level functions of a read-only walk: the webentity / rule flag of the head
    spelling the first j+1 stems, in the (constant) store"""
    w = TW(p)
    return {"DEEP": DEEP, "LWE": lambda j: w.f("we", wn(p, j)), "NR": NRULES, "RL": RULE_LEVEL, "LRULE": lambda j: w.flag(wn(p, j), RULE)}


def history_is(ex, p, href, i, name="history", spec=None):
    """the walk history records exactly the deepest webentity among the first i levels"""
    spec = spec or follow_spec(p)
    o = p.obj(href)
    we = o.f["webentity"]
    pos = to_z3(o.f["webentity_position"])
    pre = o.f["webentity_prefix"]
    d = spec["DEEP"](i)
    cs = [("%s:position" % name, pos == z3.If(d == -1, -1, blen(PRE(d + 1)))), ("%s:webentity" % name, enc_we(we) == z3.If(d == -1, 0, spec["LWE"](d)))]
    if isinstance(pre, str):
        cs.append(("%s:prefix-empty-when-none" % name, z3.BoolVal(pre == "") if True else None))
        cs.append(("%s:no-webentity-yet" % name, d == -1))
    else:
        cs.append(("%s:prefix" % name, z3.Implies(d >= 0, to_z3(pre) == PRE(d + 1))))
        cs.append(("%s:prefix-empty-when-none" % name, z3.Implies(d == -1, blen(to_z3(pre)) == 0)))
    return cs


# The rule anchors recorded by a walk (C06): NRULES(i) = number of levels j < i whose
# head carries the creation-rule flag; RULE_LEVEL(k) = the level of the k-th such head
# (pinned down at the flagged levels: RULE_LEVEL(NRULES(j)) = j).  Spec functions of the
# constant store of a read-only walk, defined by recursion on the level.
NRULES = z3.Function("NRULES", INT, INT)
RULE_LEVEL = z3.Function("RULE_LEVEL", INT, INT)


def rule_axioms(p, spec=None):
    spec = spec or follow_spec(p)
    NR, RL = spec["NR"], spec["RL"]
    j = z3.Int("j")
    fl = spec["LRULE"](j)
    return [
        NR(0) == 0,
        z3.ForAll([j], z3.Implies(j >= 0, NR(j + 1) == NR(j) + z3.If(fl, 1, 0))),
        z3.ForAll([j], z3.Implies(j >= 0, z3.And(NR(j) >= 0, NR(j) <= j))),
        z3.ForAll([j], z3.Implies(z3.And(j >= 0, fl), RL(NR(j)) == j)),
    ]


def rules_is(ex, p, href, i, name="history", spec=None):
    """the walk history records, in walking order, exactly one anchor position per
    rule-flagged level among the first i: the byte length of that stem-prefix"""
    from pyvc.sym import list_elem

    spec = spec or follow_spec(p)
    NR, RL = spec["NR"], spec["RL"]
    o = p.obj(href)
    r = p.obj(o.f["webentity_creation_rules"])
    k = z3.Int("k")
    if "items" in r.f:
        items = r.f["items"]
        cs = [("%s:rules:one-position-per-flagged-level" % name, NR(i) == len(items))]
        for kk, v in enumerate(items):
            lv = RL(kk)
            cs.append(("%s:rules:position-%d" % (name, kk), z3.And(to_z3(v) == blen(PRE(lv + 1)), lv >= 0, lv < i, spec["LRULE"](lv))))
        return cs
    n, el = r.f["len"], list_elem(r)
    lv = RL(k)
    return [
        ("%s:rules:one-position-per-flagged-level" % name, n == NR(i)),
        ("%s:rules:k-th-position-is-the-length-of-the-k-th-flagged-stem-prefix" % name, z3.ForAll([k], z3.Implies(z3.And(k >= 0, k < n), z3.And(to_z3(el(k)) == blen(PRE(lv + 1)), lv >= 0, lv < i, spec["LRULE"](lv))))),
    ]


_reader_for_inv0 = reader_for_inv
_reader_while_inv0 = reader_while_inv


def reader_for_inv(ex, p):  # noqa: F811
    cs = _reader_for_inv0(ex, p)
    if "history" in p.env and ex.fn in FOLLOW_USERS and "G.addr" in p.w and getattr(ex, "with_history", False):
        i = to_z3(p.env[[k for k in p.env if k.startswith("__i")][0]])
        cs += history_is(ex, p, p.env["history"], i)
        cs += rules_is(ex, p, p.env["history"], i)
    return cs


def reader_while_inv(ex, p):  # noqa: F811
    cs = _reader_while_inv0(ex, p)
    if "history" in p.env and ex.fn in FOLLOW_USERS and getattr(ex, "with_history", False):
        cs += history_is(ex, p, p.env["history"], to_z3(p.env["i"]))
        cs += rules_is(ex, p, p.env["history"], to_z3(p.env["i"]))
    return cs


FOLLOW_USERS = {"LRUTrie.follow_lru", "Traph.retrieve_webentity", "Traph.retrieve_prefix"}


class FollowHistory(Reader):
    """follow_lru: besides the node (Reader), the returned history names the deepest
    stem-prefix, among those the walk matched, that carries a webentity - its id, its
    bytes and their length - and -1/None when none does.  (Longer stem-prefixes than
    the walk matched are not stored at all: completeness, bounded.)"""

    def __init__(self):
        Reader.__init__(self, "follow_lru")

    def prepare(self, ex):
        ex.with_history = True

    def apply(self, ex, p, recv, args, kw, ln):
        """follow_lru as a callee (retrieve_webentity / retrieve_prefix): the history
        describes the deepest webentity among the first k matched levels, for some
        0 <= k <= QL exposed as the ghost `__follow_k`; the store is untouched"""
        lru = to_z3(args[0])
        for nm, f in Inv(p):
            ex.oblige(p, "follow_lru:pre:" + nm, f, ln, "pre")
        ex.oblige(p, "follow_lru:pre:lru-is-the-query", lru == PRE(QL), ln, "pre")
        q = p.fork()
        k = fresh("matched_levels", INT)
        q.assume(z3.And(k >= 0, k <= QL))
        q.w["__follow_k"] = k
        store = q.obj(recv).f["storage"]
        rb = fresh("followed", INT)
        nonode = fresh("no_node", BOOL)
        node = fresh_node_at(q, store, rb, "followed")
        w = TW(q)
        q.assume(z3.Implies(z3.Not(nonode), z3.And(k == QL, QL >= 1, w.head(rb), w.path(rb) == QP(QL))))
        hist = q.new_obj("LRUTrieWalkHistory", {"lru": args[0], "webentity": Opt(fresh("h_noweb", BOOL), fresh("h_we", INT)), "webentity_prefix": fresh("h_prefix", BYTES), "webentity_position": fresh("h_pos", INT), "webentity_creation_rules": q.new_obj("list", {"len": fresh("h_nrules", INT), "arr": fresh("h_rules", z3.ArraySort(INT, INT))}), "page_was_created": False})
        o = q.obj(hist)
        q.assume(z3.Or(o.f["webentity"].none, o.f["webentity"].val >= 1))
        for nm, f in history_is(ex, q, hist, k):
            q.assume(f)
        for nm, f in rules_is(ex, q, hist, k):
            q.assume(f)
        q.mut += 1
        return [(q, (Opt(nonode, node), hist))]

    def setups(self, ex):
        for s in Reader.setups(self, ex):
            p = s[0]
            for ax in deep_axioms(p) + rule_axioms(p):
                p.assume(ax)
            yield s

    def check(self, ex, p0, res, tag):
        Reader.check(self, ex, p0, res, tag)
        deep_lemma_step(ex, p0)
        k = z3.Int("k")
        for p1, kind, val in res:
            if kind == "raise" or not isinstance(val, tuple):
                continue
            node, hist = val
            # the number of levels whose node was matched AND processed
            lv = p1.env.get("i")
            idx = [x for x in p1.env if x.startswith("__i")]
            if node is None:
                lvl = to_z3(p1.env["i"])
                # the return taken when the matched node has no child comes after that
                # node's own webentity was recorded: one more level is covered
                n_ = p1.env.get("node")
                if isinstance(n_, Ref) and "stem" in p1.env:
                    o_ = p1.obj(n_)
                    d_ = node_data(p1, n_)
                    try:
                        eq = bcat(to_z3(d_[0]), to_z3(o_.f["tail"])) == to_z3(p1.env["stem"])
                        eqs = z3.simplify(eq)
                        if any(c.eq(eq) or c.eq(eqs) for c in p1.pc):
                            lvl = lvl + 1
                    except Exception:
                        pass
            else:
                lvl = QL
            for nm, f in history_is(ex, p1, hist, lvl, "returned-history") + rules_is(ex, p1, hist, lvl, "returned-history"):
                ex.oblige(p1, nm, f, None)


_install_prev7 = install


def install(lib):
    cs = _install_prev7(lib)
    for nm in ("follow_lru",):
        lib.loop_spec("LRUTrie.%s::for#0" % nm, LoopSpec(reader_for_inv, havoc=havoc_reader, locals_=("lru",)))
        lib.loop_spec("LRUTrie.%s::while#0" % nm, LoopSpec(reader_while_inv, havoc=havoc_reader_node))
    cs = [c for c in cs if c.qual != "LRUTrie.follow_lru"]
    return cs + [FollowHistory()]


# ============================================================================ completeness of the point readers (C02 "iff", C04 "longest")
def stored(p, j):
    """some head spells the first j stems of the query (through the inverse path map)"""
    w = TW(p)
    u = z3.Select(p.w["G.addr"], QP(j))
    return z3.And(w.head(u), w.path(u) == QP(j))


def prefix_closure(p):
    """L-PREFIX: stored LRUs are closed under stem-prefix (for the query's prefixes):
    by induction on j2 - j1 from the single step `stored(j+1) => stored(j)`, which is
    discharged as `lemma:L-PREFIX:step`"""
    j1, j2 = z3.Ints("j1 j2")
    return z3.ForAll([j1, j2], z3.Implies(z3.And(j1 >= 1, j1 <= j2, j2 <= QL, stored(p, j2)), stored(p, j1)))


def instances_at(p, terms):
    """ground instances of the single-variable invariant clauses at the given addresses
    (instantiation hints, DESIGN 3.7: the clauses are premises, so this is sound)"""
    out = []
    for nm, f in Inv(p):
        if not nm.startswith(HINT_CLAUSES):
            continue
        if z3.is_quantifier(f) and f.num_vars() == 1 and f.var_sort(0) == INT:
            for t in terms:
                out.append(z3.substitute_vars(f.body(), t))
    return out


# the clauses the prefix-closure arguments use at the hinted addresses
HINT_CLAUSES = ("I2:parent", "I3:parent-of-a-head", "I3:child's-parent", "I7:path")


def closure_step_lemma(ex, p):
    w = TW(p)
    q = p.fork()
    j = fresh("j", INT)
    q.assume(z3.And(j >= 1, j < QL))
    q.assume(stored(q, j + 1))
    u = z3.Select(q.w["G.addr"], QP(j + 1))
    for f in instances_at(q, [u, w.f("parent", u)]):
        q.assume(f)
    ex.oblige(q, "lemma:L-PREFIX:step", stored(q, j), None)


def matched_current_level(p1):
    """was the `return None` taken after the node of level i matched (no child) rather
    than inside the sibling search?"""
    n_ = p1.env.get("node")
    if isinstance(n_, Ref) and "stem" in p1.env:
        try:
            o_ = p1.obj(n_)
            d_ = node_data(p1, n_)
            eq = bcat(to_z3(d_[0]), to_z3(o_.f["tail"])) == to_z3(p1.env["stem"])
            eqs = z3.simplify(eq)
            return any(c.eq(eq) or c.eq(eqs) for c in p1.pc)
        except Exception:
            return False
    return False


def none_means_not_stored(ex, p1):
    """at a `return None` of lru_node / follow_lru with m-1 levels matched: the m-th
    stem-prefix of the query is not stored, hence (L-PREFIX) no longer one is, the whole
    query included"""
    w = TW(p1)
    i = to_z3(p1.env["i"])
    m = i + 2 if matched_current_level(p1) else i + 1
    q = p1.fork()
    u1 = z3.Select(q.w["G.addr"], QP(i + 1))
    u2 = z3.Select(q.w["G.addr"], QP(i + 2))
    terms = [u1, w.f("parent", u1), u2, w.f("parent", u2)]
    n = p1.env.get("node")
    if isinstance(n, Ref) and p1.obj(n).f["block"] is not None:
        terms.append(node_blk(p1, n))
    for f in instances_at(q, terms):
        q.assume(f)
    ex.oblige(q, "None=>the-first-unmatched-stem-prefix-is-not-stored", z3.Not(stored(q, m)), None)
    ex.oblige(p1, "None=>the-first-unmatched-level-lies-within-the-query", z3.And(m >= 1, m <= QL), None)
    q2 = p1.fork()
    q2.pc = [c for c in q2.pc if not _has_quant_(c)]  # only the closure lemma and the fact above are needed
    q2.assume(prefix_closure(q2))
    q2.assume(z3.Not(stored(q2, m)))
    q2.assume(z3.And(m >= 1, m <= QL))
    j = fresh("j", INT)
    ex.oblige(q2, "None=>no-longer-stem-prefix-is-stored(the-query-included)", z3.Implies(z3.And(j >= m, j <= QL), z3.Not(stored(q2, j))), None)


def _has_quant_(c):
    from pyvc.sym import _has_quant

    return _has_quant(c)


_reader_check0 = Reader.check


def _reader_check(self, ex, p0, res, tag):
    _reader_check0(self, ex, p0, res, tag)
    closure_step_lemma(ex, p0)
    for p1, kind, val in res:
        if kind == "raise":
            continue
        node = val[0] if isinstance(val, tuple) else val
        if node is None and "i" in p1.env:
            none_means_not_stored(ex, p1)


Reader.check = _reader_check


# ============================================================================ dfs_iter / pages_iter (C01, C02: traversal yields byte-identical LRUs)
def dfs_phi(ex, p, e):
    """work-list entry (block, lru): block is a head and lru is what its ancestors spell"""
    w = TW(p)
    b, lru = e
    cs = []
    if isinstance(b, Opt):
        cs.append(("block-is-not-None", znot(b.none) if not isinstance(b.none, bool) else z3.BoolVal(not b.none)))
        b = b.val
    bz = to_z3(b)
    cs.append(("block-is-a-head", w.head(bz)))
    cs.append(("carried-lru==bytes-spelled-above-the-block", to_z3(lru) == LRUB(w.gpath(bz))))
    return cs


def dfs_mk():
    return (fresh("wl_block", INT), fresh("wl_lru", BYTES))


def dfs_inv(ex, p):
    st = p.env["stack"]
    o = p.obj(st)
    cs = []
    if o.cls == "list":
        for k, e in enumerate(o.f["items"]):
            cs += [("entry%d:%s" % (k, nm), f) for nm, f in dfs_phi(ex, p, e)]
    else:
        cs.append(("worklist-size-nonnegative", o.f["n"] >= 0))
    return cs


def dfs_havoc(ex, p):
    p.env["stack"] = p.new_obj("bag", {"phi": dfs_phi, "mk": dfs_mk, "n": fresh("wl_n", INT)})
    n = p.env["node"]
    store = p.obj(n).f["storage"]
    p.env["node"] = Wd.sym_node(p, store, "node")


class DfsIter(Contract):
    """dfs_iter() / pages_iter() from the root, soundness: every yielded (node, lru) is a
    Fresh head together with exactly the bytes of its stored path (pages_iter: and it
    carries the page bit); nothing is raised, nothing written.  skip_childless_paths is
    symbolic.  (Every head exactly once: bounded.)"""

    def __init__(self, name):
        self.qual = "LRUTrie." + name
        self.name = name

    def setups(self, ex):
        p, w, store, trie = base()
        snapshot_old(p)
        if self.name == "dfs_iter":
            skip = fresh("skip_childless_paths", BOOL)
            yield p, trie, [], {"skip_childless_paths": skip}, "from-the-root"
        else:
            yield p, trie, [], {}, "from-the-root"

    def on_yield(self, ex, p, v, ln, tag):
        w = TW(p)
        if not (isinstance(v, tuple) and len(v) == 2 and isinstance(v[0], Ref)):
            ex.oblige(p, "yields-(node,lru)", False, ln)
            return []
        node, lru = v
        b = node_blk(p, node)
        for nm, f in is_fresh(ex, p, node, "yielded-node"):
            ex.oblige(p, nm, f, ln)
        ex.oblige(p, "yielded-node-is-a-head", w.head(b), ln)
        ex.oblige(p, "yielded-lru==bytes-of-the-node's-stored-path", to_z3(lru) == LRUB(w.path(b)), ln)
        if self.name == "pages_iter":
            ex.oblige(p, "yielded-node-is-a-page", w.flag(b, PAGE), ln)
        p.mut += 1
        return [(p, "normal", None)]

    def check(self, ex, p0, res, tag):
        for p1, kind, val in res:
            if kind == "raise":
                ex.oblige(p1, "raises-nothing(%s)" % val[0], False, val[1])
                continue
            for k in TKEYS:
                if not p1.w[k].eq(p0.w[k]):
                    ex.oblige(p1, "store-unchanged[%s]" % k, p1.w[k] == p0.w[k], None)


_install_prev8 = install


def install(lib):
    cs = _install_prev8(lib)
    lib.loop_spec("LRUTrie.dfs_iter::while#0", LoopSpec(dfs_inv, havoc=dfs_havoc))
    return cs + [DfsIter("dfs_iter"), DfsIter("pages_iter")]


# ============================================================================ webentity_dfs_iter (C05, C20: the realm walk)
# REL(a): head a belongs to the realm of the start block SB - it is SB, or it carries no
# webentity and its parent belongs to the realm.  DEPTHF(a): number of stems of a's LRU.
# Both are spec functions of the (constant) store, well-founded on the parent pointer.
REL = z3.Function("REL", INT, BOOL)
DEPTHF = z3.Function("DEPTHF", INT, INT)
SB = z3.Int("SB")
DIRNAME = z3.Function("DIRNAME", BYTES, BYTES)


def realm_axioms(p):
    w = TW(p)
    a = z3.Int("a")
    pa = w.f("parent", a)
    return [
        z3.ForAll([a], z3.Implies(w.head(a), REL(a) == z3.Or(a == SB, z3.And(w.f("we", a) == 0, pa != 0, REL(pa))))),
        z3.ForAll([a], z3.Implies(w.head(a), DEPTHF(a) == z3.If(pa == 0, 1, DEPTHF(pa) + 1))),
    ]


def _dirname_axioms(terms):
    out = []
    for t in terms:
        if z3.is_app(t) and t.decl().name() == "ext":
            out.append(DIRNAME(LRUB(t)) == LRUB(t.arg(0)))
    return out


if _dirname_axioms not in smt.TERM_AXIOMS:
    smt.TERM_AXIOMS.append(_dirname_axioms)
smt.GLOBAL_SYMBOLS.update({"DIRNAME", "REL", "DEPTHF", "SB"})


class LruDirname(Contract):
    """lru_dirname(lru): the LRU without its last stem.  ASSUMED (trusted contract, like
    lru_iter: it is `b''.join(list(lru_iter(lru))[:-1])`; bounded-checked)."""

    qual = "lru_dirname"
    trusted = True

    def setups(self, ex):
        return iter(())

    def apply(self, ex, p, recv, args, kw, ln):
        return [(p, DIRNAME(to_z3(args[0])))]


def realm_phi(ex, p, e):
    w = TW(p)
    b, lru, level = e
    cs = []
    if isinstance(b, Opt):
        cs.append(("block-is-not-None", znot(b.none) if not isinstance(b.none, bool) else z3.BoolVal(not b.none)))
        b = b.val
    bz = to_z3(b)
    pa = w.f("parent", bz)
    cs.append(("block-is-a-head", w.head(bz)))
    cs.append(("carried-lru==bytes-spelled-above-the-block", to_z3(lru) == LRUB(w.gpath(bz))))
    cs.append(("block-is-the-start-or-its-parent-is-in-the-realm", z3.Or(bz == SB, z3.And(pa != 0, REL(pa)))))
    cs.append(("carried-level==depth-below-the-start", to_z3(level) == DEPTHF(bz) - DEPTHF(SB)))
    md = p.env.get("max_depth")
    if md is not None:
        cs.append(("carried-level-within-the-depth-limit", to_z3(level) <= to_z3(md)))
    return cs


def realm_mk():
    return (fresh("wl_block", INT), fresh("wl_lru", BYTES), fresh("wl_level", INT))


def realm_inv(ex, p):
    o = p.obj(p.env["stack"])
    cs = []
    if o.cls == "list":
        for k, e in enumerate(o.f["items"]):
            cs += [("entry%d:%s" % (k, nm), f) for nm, f in realm_phi(ex, p, e)]
    else:
        cs.append(("worklist-size-nonnegative", o.f["n"] >= 0))
    return cs


def realm_havoc(ex, p):
    p.env["stack"] = p.new_obj("bag", {"phi": realm_phi, "mk": realm_mk, "n": fresh("wl_n", INT)})
    n = p.env["node"]
    store = p.obj(n).f["storage"]
    p.env["node"] = Wd.sym_node(p, store, "node")


class WebentityDfs(Contract):
    """webentity_dfs_iter(start, lru_of_start, max_depth), soundness: every yielded
    (node, lru) is a Fresh head of the realm of the start (REL: no webentity strictly
    between, none on the node unless it is the start) with the bytes of its stored path,
    at most max_depth stems below the start.  Nothing raised, nothing written.
    (Every realm member exactly once: bounded.)"""

    qual = "LRUTrie.webentity_dfs_iter"

    def setups(self, ex):
        for limited in (False, True):
            p, w, store, trie = base()
            for ax in realm_axioms(p):
                p.assume(ax)
            p.assume(w.head(SB))
            n = fresh_node_at(p, store, SB)
            lru = fresh("starting_lru", BYTES)
            p.assume(lru == LRUB(w.path(SB)))
            snapshot_old(p)
            if limited:
                md = fresh("max_depth", INT)
                p.assume(md >= 0)
                p.w["__md"] = md
                yield p, trie, [n, lru, md], {}, "limited"
            else:
                yield p, trie, [n, lru], {}, "unlimited"

    def on_yield(self, ex, p, v, ln, tag):
        w = TW(p)
        if not (isinstance(v, tuple) and len(v) == 2 and isinstance(v[0], Ref)):
            ex.oblige(p, "yields-(node,lru)", False, ln)
            return []
        node, lru = v
        b = node_blk(p, node)
        for nm, f in is_fresh(ex, p, node, "yielded-node"):
            ex.oblige(p, nm, f, ln)
        ex.oblige(p, "yielded-node-is-a-head-of-the-realm", z3.And(w.head(b), REL(b)), ln)
        ex.oblige(p, "yielded-lru==bytes-of-the-node's-stored-path", to_z3(lru) == LRUB(w.path(b)), ln)
        if tag == "limited":
            ex.oblige(p, "yielded-node-within-the-depth-limit", DEPTHF(b) - DEPTHF(SB) <= p.w["__md"], ln)
        p.mut += 1
        return [(p, "normal", None)]

    def check(self, ex, p0, res, tag):
        for p1, kind, val in res:
            if kind == "raise":
                ex.oblige(p1, "raises-nothing(%s)" % val[0], False, val[1])
                continue
            for k in TKEYS:
                if not p1.w[k].eq(p0.w[k]):
                    ex.oblige(p1, "store-unchanged[%s]" % k, p1.w[k] == p0.w[k], None)


_install_prev9 = install


def install(lib):
    cs = _install_prev9(lib)
    lib.loop_spec("LRUTrie.webentity_dfs_iter::while#0", LoopSpec(realm_inv, havoc=realm_havoc))
    return cs + [LruDirname(), WebentityDfs()]



# ============================================================================ add_lru: the returned walk history (C06, C04)
# The level functions of add_lru are taken on the PRE-state of the request (this is the
# reading of C06: E and the rule anchors are those existing when the page is submitted):
# LEVEL_WE(j) / LEVEL_RULE(j) = webentity / rule flag of the head that spelled the first
# j+1 stems when add_lru was entered, 0 / false when no head did.  add_lru itself never
# writes a webentity or a rule flag and creates blank heads only (writer_frame), so these
# are also the values it reads while walking.
LEVEL_WE = z3.Function("LEVEL_WE", INT, INT)
LEVEL_RULE = z3.Function("LEVEL_RULE", INT, BOOL)
DEEP_A = z3.Function("DEEP_PRE", INT, INT)
NRULES_A = z3.Function("NRULES_PRE", INT, INT)
RULE_LEVEL_A = z3.Function("RULE_LEVEL_PRE", INT, INT)

ADD_SPEC = {"DEEP": DEEP_A, "LWE": lambda j: LEVEL_WE(j), "NR": NRULES_A, "RL": RULE_LEVEL_A, "LRULE": lambda j: LEVEL_RULE(j)}


def addlru_history_axioms(p, prefix="old:"):
    """definitions over the `old:` snapshot of p (taken at function entry)"""
    w0 = TW(type("P", (), {"w": {k[len(prefix):]: v for k, v in p.w.items() if k.startswith(prefix)}})())
    p0 = w0.p
    j = z3.Int("j")
    a0 = z3.Select(p0.w["G.addr"], QP(j + 1))
    st0 = z3.And(w0.head(a0), w0.path(a0) == QP(j + 1))
    cs = [
        z3.ForAll([j], z3.Implies(j >= 0, LEVEL_WE(j) == z3.If(st0, w0.f("we", a0), 0))),
        z3.ForAll([j], z3.Implies(j >= 0, LEVEL_RULE(j) == z3.And(st0, w0.flag(a0, RULE)))),
        DEEP_A(0) == -1,
        z3.ForAll([j], z3.Implies(j >= 0, DEEP_A(j + 1) == z3.If(LEVEL_WE(j) != 0, j, DEEP_A(j)))),
        z3.ForAll([j], z3.Implies(j >= 0, z3.And(DEEP_A(j) >= -1, DEEP_A(j) < j))),
        z3.ForAll([j], z3.Implies(z3.And(j >= 0, DEEP_A(j) >= 0), LEVEL_WE(DEEP_A(j)) != 0)),
    ]
    return cs + rule_axioms(p, ADD_SPEC)


def _entry_world_path(p0):
    """a path whose world is the entry store of p0 (for lemmas about the entry store)"""
    q = Path()
    q.w = dict(old_view(p0).p.w)
    q.pc = list(p0.pc)
    return q


def addlru_history_inv(ex, p, i):
    if "history" not in p.env or not isinstance(p.env["history"], Ref):
        return []
    h = p.env["history"]
    return history_is(ex, p, h, i, "history", ADD_SPEC) + rules_is(ex, p, h, i, "history", ADD_SPEC)


_add_lru_inv0_base = add_lru_inv0
_add_lru_inv1_base = add_lru_inv1


def add_lru_inv0(ex, p):  # noqa: F811
    cs = _add_lru_inv0_base(ex, p)
    if getattr(ex, "addlru_history", False):
        cs += addlru_history_inv(ex, p, to_z3(p.env["i"]))
        # the descending loop goes round again only below an existing node: nothing has
        # been created yet at its head (a created node has no child, so the loop stops)
        cs.append(("nothing-created-while-descending", p.w["T.size"] == p.w["old:T.size"]))
        # (instance of the defining equations at the level about to be walked: it only
        # puts the term "the head that spelled level i at entry" on the table)
        i = to_z3(p.env["i"])
        w0 = old_view(p)
        a0 = z3.Select(w0.p.w["G.addr"], QP(i + 1))
        st0 = z3.And(w0.head(a0), w0.path(a0) == QP(i + 1))
        cs.append(("level-functions-unfolded-at-the-current-level", z3.And(LEVEL_WE(i) == z3.If(st0, w0.f("we", a0), 0), LEVEL_RULE(i) == z3.And(st0, w0.flag(a0, RULE)))))
    return cs


def add_lru_inv1(ex, p):  # noqa: F811
    cs = _add_lru_inv1_base(ex, p)
    if getattr(ex, "addlru_history", False):
        # the child-creation loop leaves the history alone: it describes the levels the
        # descending loop walked (ghost `__walked`, fixed when this loop is entered)
        if "__walked" not in p.w:
            k = to_z3(p.env["i"])
            p.w["__walked"] = k
            # lemma at the hand-over between the two loops: the descending loop stopped
            # either at the end of the query or at a node without child - then the next
            # stem-prefix was not stored when the request started (else its parent, which
            # is that node, would have had a child pointer: I3, and pointers are only set)
            w0 = old_view(p)
            P0 = w0.p
            u1 = z3.Select(P0.w["G.addr"], QP(k + 1))
            pp = w0.f("parent", u1)
            q = p.fork()
            terms_cur = [pp]
            n_ = p.env.get("node")
            if isinstance(n_, Ref) and p.obj(n_).f["block"] is not None:
                terms_cur.append(node_blk(p, n_))
            for f in instances_at(P0, [u1, pp]) + instances_at(p, terms_cur):
                q.assume(f)
            G = z3.Implies(k < QL, z3.Not(stored(P0, k + 1)))
            ex.oblige(q, "hand-over:the-first-level-not-walked-was-not-stored-at-entry", G, None, "loop")
            p.assume(G)
        k = p.w["__walked"]
        cs.append(("walked-levels-range", z3.And(k >= 0, k <= to_z3(p.env["i"]))))
        cs += addlru_history_inv(ex, p, k)
    return cs


_AddLru_setups0 = AddLru.setups
_AddLru_check0 = AddLru.check
_AddLru_prepare0 = AddLru.prepare


ADD_LRU_HISTORY = __import__("os").environ.get("PYVC_ADDLRU_HISTORY", "1") != "0"  # (PYVC_ADDLRU_HISTORY=0 switches the history clauses off)


def _addlru_prepare(self, ex):
    _AddLru_prepare0(self, ex)
    ex.addlru_history = ADD_LRU_HISTORY


def _addlru_setups(self, ex):
    for s_ in _AddLru_setups0(self, ex):
        p = s_[0]
        if ADD_LRU_HISTORY:
            for ax in addlru_history_axioms(p):
                p.assume(ax)
        yield s_


def _addlru_check(self, ex, p0, res, flag):
    _AddLru_check0(self, ex, p0, res, flag)
    if not ex.addlru_history:
        return
    for p1, kind, val in res:
        if kind == "raise" or not (isinstance(val, tuple) and len(val) == 2 and isinstance(val[1], Ref)):
            continue
        hist = val[1]
        k = p1.w.get("__walked")
        if k is None:
            ex.oblige(p1, "returned-history:walk-recorded", False, None)
            continue
        for nm, f in history_is(ex, p1, hist, k, "returned-history", ADD_SPEC) + rules_is(ex, p1, hist, k, "returned-history", ADD_SPEC):
            ex.oblige(p1, nm, f, None)
        ex.oblige(p1, "returned-history:walked-levels-range", z3.And(k >= 0, k <= QL), None)
        # levels beyond the walk were not stored when the request started (hand-over
        # lemma + prefix closure of the entry store), hence carried nothing
        P0 = old_view(p1).p
        q2 = p1.fork()
        G = z3.Implies(k < QL, z3.Not(stored(P0, k + 1)))
        q2.pc = [c for c in q2.pc if not _has_quant_(c)]
        jj = z3.Int("j")
        a0 = z3.Select(P0.w["G.addr"], QP(jj + 1))
        w0 = old_view(p1)
        st0 = z3.And(w0.head(a0), w0.path(a0) == QP(jj + 1))
        q2.assume(G)
        q2.assume(z3.And(k >= 0, k <= QL))
        q2.assume(prefix_closure(P0))
        q2.assume(z3.ForAll([jj], z3.Implies(jj >= 0, LEVEL_WE(jj) == z3.If(st0, w0.f("we", a0), 0))))
        q2.assume(z3.ForAll([jj], z3.Implies(jj >= 0, LEVEL_RULE(jj) == z3.And(st0, w0.flag(a0, RULE)))))
        j = fresh("j", INT)
        ex.oblige(q2, "returned-history:levels-beyond-the-walk-carried-nothing-before-the-request", z3.Implies(z3.And(j >= k, j < QL), z3.And(LEVEL_WE(j) == 0, z3.Not(LEVEL_RULE(j)))), None)
        closure_step_lemma(ex, _entry_world_path(p0))
        o = p1.obj(hist)
        ex.oblige(p1, "returned-history:lru-is-the-argument", to_z3(o.f["lru"]) == PRE(QL), None)


AddLru.prepare = _addlru_prepare
AddLru.setups = _addlru_setups
AddLru.check = _addlru_check

_install_hist = install


def install(lib):
    cs = _install_hist(lib)
    lib.loop_spec("LRUTrie.add_lru::while#0", LoopSpec(add_lru_inv0, havoc=havoc_add_lru, locals_=("i", "lru"), world=TKEYS + GHOSTS, prune=Wd.prune_dead_world_facts))
    lib.loop_spec("LRUTrie.add_lru::while#1", LoopSpec(add_lru_inv1, havoc=havoc_add_lru1, locals_=("i",), world=TKEYS + GHOSTS, prune=Wd.prune_dead_world_facts))
    return cs


# ---------------------------------------------------------------------------- add_page hands the walk history on (C06)
def pre_lengths_monotone():
    """byte lengths of the stem-prefixes of the query grow with the number of stems
    (by induction from PRE(j+1) = PRE(j) + QS(j); the step is discharged in add_page's
    check as `lemma:stem-prefix-lengths-grow:step`)"""
    a, b = z3.Ints("a b")
    return z3.ForAll([a, b], z3.Implies(z3.And(a >= 0, a <= b), blen(PRE(a)) <= blen(PRE(b))))


_AddPage_check0 = AddPage.check


def _addpage_check(self, ex, p0, res, tag):
    _AddPage_check0(self, ex, p0, res, tag)
    if not ADD_LRU_HISTORY:
        return
    from pyvc.sym import list_elem

    # lemma step: blen(PRE(j)) <= blen(PRE(j+1))
    q = Path()
    j = fresh("j", INT)
    q.assume(j >= 0)
    q.assume(PRE(j + 1) == bcat(PRE(j), QS(j)))
    ex.oblige(q, "lemma:stem-prefix-lengths-grow:step", blen(PRE(j)) <= blen(PRE(j + 1)), None)
    for p1, kind, val in res:
        if kind == "raise" or not isinstance(val, tuple):
            continue
        hist = val[1]
        k = p1.w.get("__walked")
        if k is None:
            ex.oblige(p1, "returned-history:comes-from-add_lru", False, None)
            continue
        for nm, f in history_is(ex, p1, hist, k, "returned-history", ADD_SPEC) + rules_is(ex, p1, hist, k, "returned-history", ADD_SPEC):
            ex.oblige(p1, nm, f, None)
        o = p1.obj(hist)
        ex.oblige(p1, "returned-history:lru-is-the-argument", to_z3(o.f["lru"]) == PRE(QL), None)
        # what the ladder (contracts/ladder.py) takes for granted about this history
        q2 = p1.fork()
        q2.assume(pre_lengths_monotone())
        r = p1.obj(o.f["webentity_creation_rules"])
        kk = fresh("k", INT)
        if "len" in r.f:
            el = list_elem(r)
            ex.oblige(q2, "returned-history:every-rule-position-lies-within-the-lru", z3.Implies(z3.And(kk >= 0, kk < r.f["len"]), z3.And(to_z3(el(kk)) >= 0, to_z3(el(kk)) <= blen(PRE(QL)))), None)
        ex.oblige(q2, "returned-history:webentity-position-is--1-or-a-length-within-the-lru", z3.And(to_z3(o.f["webentity_position"]) >= -1, to_z3(o.f["webentity_position"]) <= blen(PRE(QL))), None)


AddPage.check = _addpage_check
