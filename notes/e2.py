import sys, tempfile, shutil, warnings
sys.path.insert(0,'/repo')
from traph import Traph, TraphException
RULE=b"(s:[a-zA-Z]+\\|(t:[0-9]+\\|)?(h:[^\\|]+\\|(h:[^\\|]+\\|)|h:(localhost|(\\d{1,3}\\.){3}\\d{1,3}|\\[[\\da-f]*:[\\da-f:]*\\])\\|))"
def mk():
    d=tempfile.mkdtemp()
    return d,Traph(folder=d, default_webentity_creation_rule=RULE, webentity_creation_rules={})
# C20
d,t=mk()
t.add_page(b"s:http|h:com|h:x|p:a|")
t.add_links([(b"s:http|h:com|h:x|p:b|", b"s:http|h:com|h:x|p:c|")])
print('C20', t.get_webentity_most_linked_pages(1,[b"s:http|h:com|h:x|"]))
t.close(); shutil.rmtree(d)
# C10: two prefixes
d,t=mk()
t.create_webentity([b"s:http|h:com|h:a|", b"s:http|h:com|h:b|"])
A=b"s:http|h:com|h:a|p:1|"; B=b"s:http|h:com|h:b|p:1|"; C=b"s:http|h:com|h:b|p:2|"; D=b"s:http|h:com|h:b|p:3|"
t.add_links([(A,C)])
t.add_page(B)
t.add_links([(C,A),(D,A)])
pref=[b"s:http|h:com|h:a|", b"s:http|h:com|h:b|"]
full=t.get_webentity_pagelinks(1,pref,include_internal=True,include_outbound=True)
print('full',full)
tok=None; got=[]
for _ in range(10):
    try:
        r=t.paginate_webentity_pagelinks(1,pref,include_internal=True,include_outbound=True,source_page_count=1,pagination_token=tok)
    except Exception as e:
        print('EXC',type(e),e); break
    print(r)
    got+=r['pagelinks']
    if r['done']: break
    tok=r['token']
print(sorted(got)==sorted(full))
t.close(); shutil.rmtree(d)
