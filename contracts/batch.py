"""
Contract for Traph.index_batch_crawl_iter (C01 reports and crawled marks, C03 pairing of
the two link directions, C16 freshness of the nodes handed to the link store across
yields), verified against the contracts of what it calls; trie and link store abstract.

The batch is ANY finite multimap: sources SRC(i), i < N_SRC (pairwise distinct: they are
the keys of a dict), targets TGT(i, m), m < N_TGT(i).  Page nodes are identified by their
LRU; BLOCK(lru) is the block of the page's node.

Stubs (their claims are those of the callees' own contracts):
  * Traph.__add_page(lru, crawled): the c-th call returns the node of that LRU and a
    report counting one page iff PAGE_WAS_NEW(c); it invalidates every cached node
  * LRUTrieNode.is_crawled / refresh / flag_as_crawled / write on a page node: a
    protocol - a node must be refreshed after the last event that may have changed its
    block (an __add_page call, a yield of the request, a write through another object)
    before it is flagged, written or handed to the link store
  * LinkStore.add_outlinks / add_inlinks(node, blocks)

Proved, for every batch and every yield frequency:
  - one __add_page call per page not yet met in the batch, sources with crawled=True,
    targets with the default; the report counts exactly the new pages;
  - a source met earlier (as a target) is marked crawled: refreshed, flagged and WRITTEN
    when it is not crawled yet;
  - every (source, target) pair: the target's block joins the source's out-list, the
    source joins the target's in-list - once each, in submission order;
  - add_outlinks is called once per source, on the source's node refreshed since the
    last event, with exactly the blocks of its targets in order;
  - add_inlinks is called once per in-list, on that target's node refreshed since the
    last event (yields included), with the blocks of the recorded sources;
  - the final yield finalizes the report.
"""
import z3

from pyvc.lib import Contract, LoopSpec, SeqView
from pyvc.sym import BOOL, BYTES, INT, Opt, Path, Ref, Unsupported, fresh, list_elem, to_z3

N_SRC = z3.Int("n_sources")
SRC = z3.Function("SOURCE", INT, BYTES)
N_TGT = z3.Function("N_TARGETS", INT, INT)
TGT = z3.Function("TARGET", INT, INT, BYTES)
BLOCK = z3.Function("BLOCK_OF_PAGE", BYTES, INT)
NEW = z3.Function("PAGE_WAS_NEW", INT, BOOL)
NEWSUM = z3.Function("NEW_PAGES_AMONG_FIRST_CALLS", INT, INT)
IS_CRAWLED = z3.Function("IS_CRAWLED_WHEN_ASKED", BYTES, INT, BOOL)
N_INKEYS = z3.Int("n_inlists")
INKEY = z3.Function("INLIST_KEY", INT, BYTES)
N_INSRC = z3.Function("INLIST_LENGTH", INT, INT)
INSRC = z3.Function("INLIST_ELEMENT", INT, INT, BYTES)
NOKEY = z3.Const("no_page", BYTES)
PAIRS = z3.Function("N_PAIRS_OF_THE_FIRST_SOURCES", INT, INT)

BB = z3.ArraySort(BYTES, BOOL)
BBB = z3.ArraySort(BYTES, BB)


def axioms():
    j = z3.Int("j")
    i = z3.Int("i")
    return [
        N_SRC >= 0,
        z3.ForAll([i], N_TGT(i) >= 0),
        NEWSUM(0) == 0,
        z3.ForAll([j], z3.Implies(j >= 0, NEWSUM(j + 1) == NEWSUM(j) + z3.If(NEW(j), 1, 0))),
        N_INKEYS >= 0,
        z3.ForAll([i], N_INSRC(i) >= 0),
        PAIRS(0) == 0,
        z3.ForAll([i], z3.Implies(i >= 0, z3.And(PAIRS(i + 1) == PAIRS(i) + N_TGT(i), PAIRS(i) >= 0))),
    ]


def mk_world(p):
    p.w["__calls"] = z3.IntVal(0)  # __add_page calls
    p.w["__events"] = z3.IntVal(0)  # events that may change blocks (add_page calls, yields, writes)
    p.w["__fresh"] = NOKEY  # LRU of the page node refreshed since the last event
    p.w["__flagged"] = NOKEY  # LRU of the node flagged crawled and not yet written
    p.w["__dom"] = z3.K(BYTES, z3.BoolVal(False))  # pages met in this batch
    p.w["__indom"] = z3.K(BYTES, z3.BoolVal(False))  # keys of the in-lists
    p.w["__app"] = z3.K(BYTES, z3.K(BYTES, z3.BoolVal(False)))  # app[t][s]: s recorded in t's in-list
    p.w["__in_appends"] = z3.IntVal(0)
    p.w["__out_calls"] = z3.IntVal(0)
    p.w["__in_calls"] = z3.IntVal(0)
    p.w["__cur_src"] = z3.IntVal(-1)
    p.w["__cur_tgt"] = z3.IntVal(-1)
    p.w["__cur_in"] = z3.IntVal(-1)
    p.w["__final"] = None


def event(q):
    q.w["__events"] = z3.simplify(q.w["__events"] + 1)
    q.w["__fresh"] = NOKEY


def page_node(q, key):
    return q.new_obj("LRUTrieNode", {"__abstract": True, "__key": key, "block": BLOCK(key)})


def key_of(p, ref):
    k = p.obj(ref).f.get("__key") if isinstance(ref, Ref) else None
    if k is None:
        raise Unsupported("node that is not a page node of the batch")
    return k


# ---------------------------------------------------------------------------- stubs
class AddPageCallee(Contract):
    qual = "Traph.__add_page"

    def apply(self, ex, p, recv, args, kw, ln):
        q = p.fork()
        c = q.w["__calls"]
        key = to_z3(args[0])
        crawled = kw.get("crawled", args[1] if len(args) > 1 else False)
        ex.oblige(q, "page-added-only-when-not-met-yet-in-the-batch", z3.Not(z3.Select(q.w["__dom"], key)), ln, "post")
        q.w["__last_add"] = (key, crawled)
        q.w["__calls"] = z3.simplify(c + 1)
        event(q)
        node = page_node(q, key)
        cw = q.new_obj("dict", {"dom": fresh("cw_dom", z3.ArraySort(INT, BOOL)), "val": fresh("cw_val", z3.ArraySort(INT, INT)), "n": fresh("cw_n", INT)})
        rep = q.new_obj("TraphWriteReport", {"created_webentities": cw, "nb_created_pages": z3.If(NEW(c), 1, 0)})
        q.mut += 1
        return [(q, (node, rep))]


class IsCrawled(Contract):
    qual = "LRUTrieNode.is_crawled"

    def apply(self, ex, p, recv, args, kw, ln):
        return [(p, IS_CRAWLED(key_of(p, recv), p.w["__events"]))]


class Refresh(Contract):
    qual = "LRUTrieNode.refresh"

    def apply(self, ex, p, recv, args, kw, ln):
        q = p.fork()
        q.w["__fresh"] = key_of(q, recv)
        q.mut += 1
        return [(q, None)]


class FlagCrawled(Contract):
    qual = "LRUTrieNode.flag_as_crawled"

    def apply(self, ex, p, recv, args, kw, ln):
        q = p.fork()
        k = key_of(q, recv)
        ex.oblige(q, "node-protocol:flagged-on-a-copy-refreshed-since-the-last-event", q.w["__fresh"] == k, ln, "post")
        q.w["__flagged"] = k
        q.mut += 1
        return [(q, None)]


class NodeWrite(Contract):
    qual = "LRUTrieNode.write"

    def apply(self, ex, p, recv, args, kw, ln):
        q = p.fork()
        k = key_of(q, recv)
        ex.oblige(q, "node-protocol:written-from-a-copy-refreshed-since-the-last-event", q.w["__fresh"] == k, ln, "post")
        q.w["__written"] = k
        q.w["__flagged"] = z3.If(q.w["__flagged"] == k, NOKEY, q.w["__flagged"])
        q.w["__events"] = z3.simplify(q.w["__events"] + 1)
        q.w["__fresh"] = k  # the writer's own copy stays the block's content
        q.mut += 1
        return [(q, None)]


class AddOutlinks(Contract):
    qual = "LinkStore.add_outlinks"

    def apply(self, ex, p, recv, args, kw, ln):
        q = p.fork()
        i = q.w["__cur_src"]
        k = key_of(q, args[0])
        ex.oblige(q, "out-list-attached-to-the-current-source's-node", k == SRC(i), ln, "post")
        ex.oblige(q, "source-node-refreshed-since-the-last-event", q.w["__fresh"] == k, ln, "post")
        ex.oblige(q, "nothing-flagged-is-left-unwritten", q.w["__flagged"] == NOKEY, ln, "post")
        blocks = args[1]
        ok = isinstance(blocks, Ref) and q.obj(blocks).cls == "list" and ("len" in q.obj(blocks).f or "items" in q.obj(blocks).f)
        if not ok:
            ex.oblige(q, "out-list-is-the-list-of-target-blocks", False, ln, "post")
        else:
            o = q.obj(blocks)
            m = z3.Int("m")
            if "items" in o.f:
                ex.oblige(q, "out-list-holds-the-blocks-of-the-source's-targets-in-order", z3.And(N_TGT(i) == len(o.f["items"]), *[to_z3(x) == BLOCK(TGT(i, mm)) for mm, x in enumerate(o.f["items"])]), ln, "post")
            else:
                el = list_elem(o)
                ex.oblige(q, "out-list-holds-the-blocks-of-the-source's-targets-in-order", z3.And(o.f["len"] == N_TGT(i), z3.ForAll([m], z3.Implies(z3.And(m >= 0, m < N_TGT(i)), to_z3(el(m)) == BLOCK(TGT(i, m))))), ln, "post")
        q.w["__out_calls"] = z3.simplify(q.w["__out_calls"] + 1)
        event(q)
        q.mut += 1
        return [(q, None)]


class AddInlinks(Contract):
    qual = "LinkStore.add_inlinks"

    def apply(self, ex, p, recv, args, kw, ln):
        q = p.fork()
        e = q.w["__cur_in"]
        k = key_of(q, args[0])
        ex.oblige(q, "in-list-attached-to-its-own-target's-node", k == INKEY(e), ln, "post")
        ex.oblige(q, "target-node-refreshed-since-the-last-event(yields-included)", q.w["__fresh"] == k, ln, "post")
        blocks = args[1]
        ok = isinstance(blocks, Ref) and q.obj(blocks).cls == "list" and "len" in q.obj(blocks).f
        if not ok:
            ex.oblige(q, "in-list-is-the-sequence-of-source-blocks", False, ln, "post")
        else:
            o = q.obj(blocks)
            m = fresh("m", INT)
            el = list_elem(o)
            q2 = q.fork()
            q2.assume(z3.And(m >= 0, m < N_INSRC(e)))
            ex.oblige(q, "in-list-has-one-block-per-recorded-source", o.f["len"] == N_INSRC(e), ln, "post")
            ex.oblige(q2, "in-list-holds-the-blocks-of-the-recorded-sources-in-order", to_z3(el(m)) == BLOCK(INSRC(e, m)), ln, "post")
        q.w["__in_calls"] = z3.simplify(q.w["__in_calls"] + 1)
        event(q)
        q.mut += 1
        return [(q, None)]


class ShouldYield(Contract):
    """TraphIteratorState.should_yield: any answer (the proof must not depend on when the
    request is suspended)"""

    qual = "TraphIteratorState.should_yield"

    def apply(self, ex, p, recv, args, kw, ln):
        return [(p, fresh("suspend_here", BOOL))]


# ---------------------------------------------------------------------------- containers
class TargetsHandle(object):
    def __init__(self, i):
        self.i = i


class InlistHandle(object):
    def __init__(self, key, e=None):
        self.key, self.e = key, e


class Items(object):
    def __init__(self, what):
        self.what = what


def data_items(ex, p, recv, args, kw, ln):
    return [(p, Items("data"))]


def inlinks_items(ex, p, recv, args, kw, ln):
    return [(p, Items("inlinks"))]


def items_iter(ex, p, it, ln):
    q = p.fork()
    if it.what == "data":
        iv = fresh("source_index", INT)
        q.w["__cur_src"] = iv
        return q, SeqView(N_SRC, lambda i: (SRC(i), TargetsHandle(iv)), facts=lambda i: [iv == i])
    ev = fresh("inlist_index", INT)
    q.w["__cur_in"] = ev
    t, s = z3.Consts("t s", BYTES)
    # what iterating a defaultdict(list) can yield: keys that were accessed, lists of what was appended
    facts = lambda e: [ev == e, z3.Select(q.w["__indom"], INKEY(e)), z3.ForAll([z3.Int("m")], z3.Implies(z3.And(z3.Int("m") >= 0, z3.Int("m") < N_INSRC(e)), z3.Select(z3.Select(q.w["__app"], INKEY(e)), INSRC(e, z3.Int("m")))))]
    return q, SeqView(N_INKEYS, lambda e: (INKEY(e), InlistHandle(INKEY(e), ev)), facts=facts)


def targets_iter(ex, p, it, ln):
    q = p.fork()
    mv = fresh("target_index", INT)
    q.w["__cur_tgt"] = mv
    i = it.i
    return q, SeqView(N_TGT(i), lambda m: TGT(i, m), facts=lambda m: [mv == m])


def inlist_iter(ex, p, it, ln):
    if it.e is None:
        raise Unsupported("iteration over an in-list outside the final loop")
    e = it.e
    return p, SeqView(N_INSRC(e), lambda m: INSRC(e, m))


def inlinks_getitem(ex, p, base, idx, ln):
    key = to_z3(idx)
    p.w["__indom"] = z3.Store(p.w["__indom"], key, z3.BoolVal(True))
    p.mut += 1
    return InlistHandle(key)


def inlist_append(ex, p, recv, name, args, kw, ln):
    raise Unsupported("unexpected")


def pages_contains(ex, p, container, item, ln):
    return z3.Select(p.w["__dom"], to_z3(item))


def pages_getitem(ex, p, base, idx, ln):
    key = to_z3(idx)
    ex.oblige(p, "key-present:page-met-in-this-batch", z3.Select(p.w["__dom"], key), ln, "safety")
    return page_node(p, key)


def pages_setitem(ex, p, base, idx, v, ln):
    key = to_z3(idx)
    ex.oblige(p, "page-index:node-registered-under-its-own-lru", key_of(p, v) == key, ln, "post")
    p.w["__dom"] = z3.Store(p.w["__dom"], key, z3.BoolVal(True))
    p.mut += 1
    return p


# ---------------------------------------------------------------------------- loop contracts
def _idx(p, which):
    ks = sorted([k for k in p.env if k.startswith("__i")], key=lambda k: int(k[3:]))
    return to_z3(p.env[ks[which]])


def _report_nb(p):
    r = p.env.get("report")
    return to_z3(p.obj(r).f["nb_created_pages"])


def _common(ex, p):
    t, s = z3.Consts("t s", BYTES)
    return [
        ("report-counts-the-new-pages-so-far", z3.And(p.w["__calls"] >= 0, _report_nb(p) == NEWSUM(p.w["__calls"]))),
        ("nothing-flagged-is-left-unwritten", p.w["__flagged"] == NOKEY),
        ("in-list-keys-and-elements-are-pages-of-the-batch", z3.And(z3.ForAll([t], z3.Implies(z3.Select(p.w["__indom"], t), z3.Select(p.w["__dom"], t))), z3.ForAll([t, s], z3.Implies(z3.Select(z3.Select(p.w["__app"], t), s), z3.Select(p.w["__dom"], s))))),
    ]


def sources_inv(ex, p):
    i = _idx(p, 0)
    cs = _common(ex, p)
    cs.append(("one-out-list-per-source-handled", p.w["__out_calls"] == i))
    cs.append(("every-pair-so-far-recorded-once-on-the-inbound-side", p.w["__in_appends"] == PAIRS(i)))
    cs.append(("no-in-list-attached-yet", p.w["__in_calls"] == 0))
    return cs


def targets_inv(ex, p):
    m = _idx(p, 1)
    i = p.w["__cur_src"]
    cs = _common(ex, p)
    o = p.obj(p.env["target_blocks"])
    mm = z3.Int("mm")
    if "items" in o.f:
        cs.append(("out-list-holds-the-blocks-of-the-targets-so-far", z3.And(m == len(o.f["items"]), *[to_z3(x) == BLOCK(TGT(i, k)) for k, x in enumerate(o.f["items"])])))
    else:
        el = list_elem(o)
        cs.append(("out-list-holds-the-blocks-of-the-targets-so-far", z3.And(o.f["len"] == m, z3.ForAll([mm], z3.Implies(z3.And(mm >= 0, mm < m), to_z3(el(mm)) == BLOCK(TGT(i, mm)))))))
    cs.append(("source-is-a-page-of-the-batch-and-its-node-is-the-current-source's", z3.And(z3.Select(p.w["__dom"], SRC(i)), key_of(p, p.env["source_node"]) == SRC(i))))
    cs.append(("out-lists-so-far", p.w["__out_calls"] == _idx(p, 0)))
    cs.append(("every-pair-so-far-recorded-once-on-the-inbound-side", z3.And(i >= 0, p.w["__in_appends"] == PAIRS(i) + m)))
    cs.append(("no-in-list-attached-yet", p.w["__in_calls"] == 0))
    return cs


def inlists_inv(ex, p):
    e = _idx(p, -1)
    cs = _common(ex, p)
    cs.append(("one-in-list-attached-per-target-handled", p.w["__in_calls"] == e))
    cs.append(("every-source-got-its-out-list", p.w["__out_calls"] == N_SRC))
    cs.append(("every-pair-recorded-once-on-the-inbound-side", p.w["__in_appends"] == PAIRS(N_SRC)))
    return cs


def havoc_all(ex, p):
    r = p.obj(p.env["report"])
    r.f["nb_created_pages"] = fresh("nb", INT)
    cw = p.obj(r.f["created_webentities"])
    cw.f["dom"], cw.f["val"], cw.f["n"] = fresh("cw_dom", z3.ArraySort(INT, BOOL)), fresh("cw_val", z3.ArraySort(INT, INT)), fresh("cw_n", INT)
    st = p.env.get("state")
    if isinstance(st, Ref):
        p.obj(st).f["n_iterations"] = fresh("n_iterations", INT)
    for nm in ("source_page_report", "target_page_report"):
        if isinstance(p.env.get(nm), Ref):
            o = p.new_obj("TraphWriteReport", {"created_webentities": p.new_obj("dict", {"dom": fresh("d", z3.ArraySort(INT, BOOL)), "val": fresh("v", z3.ArraySort(INT, INT)), "n": fresh("n", INT)}), "nb_created_pages": fresh("stale_nb", INT)})
            p.env[nm] = o
    for nm in ("target_node",):
        if isinstance(p.env.get(nm), Ref):
            p.env[nm] = page_node(p, fresh("stale_key", BYTES))


def _stale_report(p):
    return p.new_obj("TraphWriteReport", {"created_webentities": p.new_obj("dict", {"dom": fresh("d", z3.ArraySort(INT, BOOL)), "val": fresh("v", z3.ArraySort(INT, INT)), "n": fresh("n", INT)}), "nb_created_pages": fresh("stale_nb", INT)})


def havoc_sources(ex, p):
    # what an earlier iteration may have left in the request's locals
    for nm in ("source_page_report", "target_page_report"):
        if nm not in p.env:
            p.env[nm] = _stale_report(p)
    for nm in ("source_node", "target_node"):
        if nm not in p.env:
            p.env[nm] = page_node(p, fresh("stale_key", BYTES))
    havoc_all(ex, p)
    if isinstance(p.env.get("source_node"), Ref):
        p.env["source_node"] = page_node(p, fresh("stale_key", BYTES))
    if isinstance(p.env.get("target_blocks"), Ref):
        p.env["target_blocks"] = p.new_obj("list", {"len": fresh("n_blocks", INT), "arr": fresh("blocks", z3.ArraySort(INT, INT))})


def havoc_targets(ex, p):
    havoc_all(ex, p)
    p.env["target_blocks"] = p.new_obj("list", {"len": fresh("n_blocks", INT), "arr": fresh("blocks", z3.ArraySort(INT, INT))})


WORLD = ("__calls", "__events", "__fresh", "__dom", "__indom", "__app", "__in_appends", "__out_calls", "__in_calls")


class BatchCrawl(Contract):
    qual = "Traph.index_batch_crawl_iter"

    def setups(self, ex):
        p = Path()
        for ax in axioms():
            p.assume(ax)
        mk_world(p)
        data = p.new_obj("batchdata", {})
        ls = p.new_obj("LinkStore", {})
        t = p.new_obj("Traph", {"link_store": ls, "encoding": "utf-8"})
        freq = fresh("yield_frequency", INT)
        p.assume(freq >= 1)
        yield p, t, [data, freq], {}, "any"

    def on_yield(self, ex, p, v, ln, tag):
        # the request is suspended: any other request may run, every cached node goes stale
        if isinstance(v, Ref) and p.obj(v).f.get("done") is True:
            p.w["__final"] = p.obj(v).f.get("result")
        event(p)
        p.mut += 1
        return [(p, "normal", None)]

    def check(self, ex, p0, res, tag):
        for p1, kind, val in res:
            if kind == "raise":
                ex.oblige(p1, "raises-nothing(%s)" % val[0], False, val[1])
                continue
            ex.oblige(p1, "every-source-got-its-out-list", p1.w["__out_calls"] == N_SRC, None)
            ex.oblige(p1, "every-pair-recorded-once-on-the-inbound-side", p1.w["__in_appends"] == PAIRS(N_SRC), None)
            ex.oblige(p1, "report-counts-exactly-the-new-pages", _report_nb(p1) == NEWSUM(p1.w["__calls"]), None)
            ex.oblige(p1, "finishes-with-the-report", z3.BoolVal(isinstance(p1.w["__final"], Ref) and p1.w["__final"] == p1.env.get("report")), None)
            ex.oblige(p1, "nothing-flagged-is-left-unwritten", p1.w["__flagged"] == NOKEY, None)


def inlist_method(ex, recv, name, args, kw, p, fctx, ln):
    """InlistHandle.append(source): recorded once per (source, target) pair"""
    if name != "append":
        raise Unsupported("method %s of an in-list" % name)
    q = p.fork()
    i, m = q.w["__cur_src"], q.w["__cur_tgt"]
    ex.oblige(q, "in-list-of-the-current-target-gets-the-current-source", z3.And(recv.key == TGT(i, m), to_z3(args[0]) == SRC(i)), ln, "post")
    row = z3.Select(q.w["__app"], recv.key)
    q.w["__app"] = z3.Store(q.w["__app"], recv.key, z3.Store(row, to_z3(args[0]), z3.BoolVal(True)))
    q.w["__in_appends"] = z3.simplify(q.w["__in_appends"] + 1)
    q.mut += 1
    return [(q, None)]


def install(lib):
    lib.methods[("batchdata", "items")] = data_items
    lib.methods[("defaultdict", "items")] = inlinks_items
    lib.methods[("Items", "__iter__")] = items_iter
    lib.methods[("TargetsHandle", "__iter__")] = targets_iter
    lib.methods[("InlistHandle", "__iter__")] = inlist_iter
    lib.methods[("defaultdict", "__getitem__")] = inlinks_getitem
    lib.methods[("dict", "__contains__")] = pages_contains
    lib.map_contains = lambda ex, p, ref, k, ln: pages_contains(ex, p, ref, k, ln)
    lib.map_load = lambda ex, p, ref, k, ln: pages_getitem(ex, p, ref, k, ln)
    lib.map_store = lambda ex, p, ref, k, v, ln: pages_setitem(ex, p, ref, k, v, ln)
    _vm = lib.value_method

    def value_method(ex, recv, name, args, kw, p, fctx, ln):
        if isinstance(recv, InlistHandle):
            return inlist_method(ex, recv, name, args, kw, p, fctx, ln)
        return _vm(ex, recv, name, args, kw, p, fctx, ln)

    lib.value_method = value_method
    key = "Traph.index_batch_crawl_iter::for#%d"
    lib.loop_spec(key % 0, LoopSpec(sources_inv, havoc=havoc_sources, world=WORLD))
    lib.loop_spec(key % 1, LoopSpec(targets_inv, havoc=havoc_targets, world=WORLD))
    lib.loop_spec(key % 2, LoopSpec(inlists_inv, havoc=havoc_all, world=("__events", "__fresh", "__in_calls")))
    return [AddPageCallee(), IsCrawled(), Refresh(), FlagCrawled(), NodeWrite(), AddOutlinks(), AddInlinks(), ShouldYield(), BatchCrawl()]


GROUP = "batch"


# ============================================================================ Traph.add_links
N_LINKS = z3.Int("n_links")
LS = z3.Function("LINK_SOURCE", INT, BYTES)
LT = z3.Function("LINK_TARGET", INT, BYTES)
N_OUTKEYS = z3.Int("n_outlists")
OUTKEY = z3.Function("OUTLIST_KEY", INT, BYTES)
N_OUTTGT = z3.Function("OUTLIST_LENGTH", INT, INT)
OUTTGT = z3.Function("OUTLIST_ELEMENT", INT, INT, BYTES)


class LinksList(object):
    pass


def links_iter(ex, p, it, ln):
    q = p.fork()
    kv = fresh("link_index", INT)
    q.w["__cur_link"] = kv
    return q, SeqView(N_LINKS, lambda k: (LS(k), LT(k)), facts=lambda k: [kv == k])


def _which(p, base):
    for nm in ("outlinks", "inlinks"):
        if p.env.get(nm) == base:
            return nm
    raise Unsupported("a defaultdict that is neither outlinks nor inlinks")


def al_getitem(ex, p, base, idx, ln):
    nm = _which(p, base)
    key = to_z3(idx)
    dom = "__outdom" if nm == "outlinks" else "__indom"
    p.w[dom] = z3.Store(p.w[dom], key, z3.BoolVal(True))
    p.mut += 1
    h = InlistHandle(key)
    h.which = nm
    return h


def al_items(ex, p, recv, args, kw, ln):
    return [(p, Items(_which(p, recv)))]


def al_items_iter(ex, p, it, ln):
    if it.what == "data":
        return items_iter(ex, p, it, ln)
    q = p.fork()
    ev = fresh("list_index", INT)
    m = z3.Int("m")
    if it.what == "outlinks":
        q.w["__cur_out"] = ev
        facts = lambda e: [ev == e, z3.Select(q.w["__outdom"], OUTKEY(e)), z3.ForAll([m], z3.Implies(z3.And(m >= 0, m < N_OUTTGT(e)), z3.Select(z3.Select(q.w["__outapp"], OUTKEY(e)), OUTTGT(e, m))))]

        def elem(e):
            h = InlistHandle(OUTKEY(e), ev)
            h.which = "outlinks"
            return (OUTKEY(e), h)

        return q, SeqView(N_OUTKEYS, elem, facts=facts)
    q.w["__cur_in"] = ev
    facts = lambda e: [ev == e, z3.Select(q.w["__indom"], INKEY(e)), z3.ForAll([m], z3.Implies(z3.And(m >= 0, m < N_INSRC(e)), z3.Select(z3.Select(q.w["__app"], INKEY(e)), INSRC(e, m))))]

    def elem2(e):
        h = InlistHandle(INKEY(e), ev)
        h.which = "inlinks"
        return (INKEY(e), h)

    return q, SeqView(N_INKEYS, elem2, facts=facts)


def al_list_iter(ex, p, it, ln):
    if it.e is None:
        raise Unsupported("iteration over a link list outside the attaching loops")
    e = it.e
    if getattr(it, "which", "inlinks") == "outlinks":
        return p, SeqView(N_OUTTGT(e), lambda m: OUTTGT(e, m))
    return p, SeqView(N_INSRC(e), lambda m: INSRC(e, m))


def al_list_method(ex, recv, name, args, kw, p, fctx, ln):
    if name != "append":
        raise Unsupported("method %s of a link list" % name)
    q = p.fork()
    k = q.w["__cur_link"]
    v = to_z3(args[0])
    if getattr(recv, "which", None) == "outlinks":
        ex.oblige(q, "out-list-of-the-link's-source-gets-the-link's-target", z3.And(recv.key == LS(k), v == LT(k)), ln, "post")
        row = z3.Select(q.w["__outapp"], recv.key)
        q.w["__outapp"] = z3.Store(q.w["__outapp"], recv.key, z3.Store(row, v, z3.BoolVal(True)))
        q.w["__out_appends"] = z3.simplify(q.w["__out_appends"] + 1)
    else:
        ex.oblige(q, "in-list-of-the-link's-target-gets-the-link's-source", z3.And(recv.key == LT(k), v == LS(k)), ln, "post")
        row = z3.Select(q.w["__app"], recv.key)
        q.w["__app"] = z3.Store(q.w["__app"], recv.key, z3.Store(row, v, z3.BoolVal(True)))
        q.w["__in_appends"] = z3.simplify(q.w["__in_appends"] + 1)
    q.mut += 1
    return [(q, None)]


class AddOutlinksAL(Contract):
    qual = "LinkStore.add_outlinks"

    def apply(self, ex, p, recv, args, kw, ln):
        q = p.fork()
        e = q.w["__cur_out"]
        k = key_of(q, args[0])
        ex.oblige(q, "out-list-attached-to-its-own-source's-node", k == OUTKEY(e), ln, "post")
        ex.oblige(q, "source-node-refreshed-since-the-last-event", q.w["__fresh"] == k, ln, "post")
        blocks = args[1]
        ok = isinstance(blocks, Ref) and q.obj(blocks).cls == "list" and "len" in q.obj(blocks).f
        if not ok:
            ex.oblige(q, "out-list-is-the-sequence-of-target-blocks", False, ln, "post")
        else:
            o = q.obj(blocks)
            m = fresh("m", INT)
            el = list_elem(o)
            q2 = q.fork()
            q2.assume(z3.And(m >= 0, m < N_OUTTGT(e)))
            ex.oblige(q, "out-list-has-one-block-per-recorded-target", o.f["len"] == N_OUTTGT(e), ln, "post")
            ex.oblige(q2, "out-list-holds-the-blocks-of-the-recorded-targets-in-order", to_z3(el(m)) == BLOCK(OUTTGT(e, m)), ln, "post")
        q.w["__out_calls"] = z3.simplify(q.w["__out_calls"] + 1)
        event(q)
        q.mut += 1
        return [(q, None)]


def _al_common(ex, p):
    t, s = z3.Consts("t s", BYTES)
    cs = [
        ("report-counts-the-new-pages-so-far", z3.And(p.w["__calls"] >= 0, _report_nb(p) == NEWSUM(p.w["__calls"]))),
        ("list-keys-and-elements-are-pages-of-the-request", z3.And(
            z3.ForAll([t], z3.Implies(z3.Or(z3.Select(p.w["__indom"], t), z3.Select(p.w["__outdom"], t)), z3.Select(p.w["__dom"], t))),
            z3.ForAll([t, s], z3.Implies(z3.Or(z3.Select(z3.Select(p.w["__app"], t), s), z3.Select(z3.Select(p.w["__outapp"], t), s)), z3.Select(p.w["__dom"], s))))),
    ]
    return cs


def al_links_inv(ex, p):
    k = _idx(p, 0)
    cs = _al_common(ex, p)
    cs.append(("every-link-so-far-recorded-once-on-each-side", z3.And(p.w["__out_appends"] == k, p.w["__in_appends"] == k)))
    cs.append(("nothing-attached-yet", z3.And(p.w["__out_calls"] == 0, p.w["__in_calls"] == 0)))
    return cs


def al_out_inv(ex, p):
    e = _idx(p, -1)
    cs = _al_common(ex, p)
    cs.append(("every-link-recorded-once-on-each-side", z3.And(p.w["__out_appends"] == N_LINKS, p.w["__in_appends"] == N_LINKS)))
    cs.append(("one-out-list-attached-per-source-handled", z3.And(p.w["__out_calls"] == e, p.w["__in_calls"] == 0)))
    return cs


def al_in_inv(ex, p):
    e = _idx(p, -1)
    cs = _al_common(ex, p)
    cs.append(("every-link-recorded-once-on-each-side", z3.And(p.w["__out_appends"] == N_LINKS, p.w["__in_appends"] == N_LINKS)))
    cs.append(("every-out-list-attached,one-in-list-per-target-handled", z3.And(p.w["__out_calls"] == N_OUTKEYS, p.w["__in_calls"] == e)))
    return cs


def al_havoc(ex, p):
    r = p.obj(p.env["report"])
    r.f["nb_created_pages"] = fresh("nb", INT)
    cw = p.obj(r.f["created_webentities"])
    cw.f["dom"], cw.f["val"], cw.f["n"] = fresh("cw_dom", z3.ArraySort(INT, BOOL)), fresh("cw_val", z3.ArraySort(INT, INT)), fresh("cw_n", INT)
    for nm in ("page_report",):
        if nm not in p.env or isinstance(p.env.get(nm), Ref):
            p.env[nm] = _stale_report(p)
    for nm in ("node", "source_node", "target_node"):
        if nm not in p.env or isinstance(p.env.get(nm), Ref):
            p.env[nm] = page_node(p, fresh("stale_key", BYTES))


AL_WORLD = ("__calls", "__events", "__fresh", "__dom", "__indom", "__outdom", "__app", "__outapp", "__in_appends", "__out_appends", "__out_calls", "__in_calls")


class AddLinksFacade(Contract):
    """Traph.add_links(links) over ANY finite list of (source, target) pairs: one
    __add_page call per end point not yet met in the request, the report counts exactly
    the new pages; every link is recorded once in its source's out-list and once in its
    target's in-list; then every out-list is handed to add_outlinks and every in-list to
    add_inlinks, each with its own page's node refreshed since the last write and with
    exactly the blocks of the recorded other ends."""

    qual = "Traph.add_links"

    def setups(self, ex):
        p = Path()
        for ax in axioms():
            p.assume(ax)
        p.assume(z3.And(N_LINKS >= 0, N_OUTKEYS >= 0))
        i = z3.Int("i")
        p.assume(z3.ForAll([i], N_OUTTGT(i) >= 0))
        mk_world(p)
        p.w["__outdom"] = z3.K(BYTES, z3.BoolVal(False))
        p.w["__outapp"] = z3.K(BYTES, z3.K(BYTES, z3.BoolVal(False)))
        p.w["__out_appends"] = z3.IntVal(0)
        p.w["__cur_link"] = z3.IntVal(-1)
        p.w["__cur_out"] = z3.IntVal(-1)
        ls = p.new_obj("LinkStore", {})
        t = p.new_obj("Traph", {"link_store": ls, "encoding": "utf-8"})
        yield p, t, [LinksList()], {}, "any"

    def check(self, ex, p0, res, tag):
        for p1, kind, val in res:
            if kind == "raise":
                ex.oblige(p1, "raises-nothing(%s)" % val[0], False, val[1])
                continue
            ex.oblige(p1, "every-link-recorded-once-on-each-side", z3.And(p1.w["__out_appends"] == N_LINKS, p1.w["__in_appends"] == N_LINKS), None)
            ex.oblige(p1, "every-list-attached-once", z3.And(p1.w["__out_calls"] == N_OUTKEYS, p1.w["__in_calls"] == N_INKEYS), None)
            ok = isinstance(val, Ref) and p1.obj(val).cls == "TraphWriteReport"
            ex.oblige(p1, "report-counts-exactly-the-new-pages", z3.BoolVal(False) if not ok else to_z3(p1.obj(val).f["nb_created_pages"]) == NEWSUM(p1.w["__calls"]), None)


_install_b0 = install


def install(lib):
    cs = _install_b0(lib)
    return cs


def install_add_links(lib):
    """the add_links variant of the group (its own link-store stubs)"""
    cs = _install_b0(lib)
    lib.methods[("LinksList", "__iter__")] = links_iter
    lib.methods[("defaultdict", "__getitem__")] = al_getitem
    lib.methods[("defaultdict", "items")] = al_items
    lib.methods[("Items", "__iter__")] = al_items_iter
    lib.methods[("InlistHandle", "__iter__")] = al_list_iter
    _vm = lib.value_method

    def value_method(ex, recv, name, args, kw, p, fctx, ln):
        if isinstance(recv, InlistHandle):
            return al_list_method(ex, recv, name, args, kw, p, fctx, ln)
        return _vm(ex, recv, name, args, kw, p, fctx, ln)

    lib.value_method = value_method
    key = "Traph.add_links::for#%d"
    lib.loop_spec(key % 0, LoopSpec(al_links_inv, havoc=al_havoc, world=AL_WORLD))
    lib.loop_spec(key % 1, LoopSpec(al_out_inv, havoc=al_havoc, world=("__events", "__fresh", "__out_calls")))
    lib.loop_spec(key % 2, LoopSpec(al_in_inv, havoc=al_havoc, world=("__events", "__fresh", "__in_calls")))
    cs = [c for c in cs if c.qual not in ("LinkStore.add_outlinks", "Traph.index_batch_crawl_iter")]
    return cs + [AddOutlinksAL(), AddLinksFacade()]
