"""the cited / citing variant of contracts/hierarchy.py (same prefix stubs, link walks)"""
from .hierarchy import install_cited as install  # noqa: F401

GROUP = "cited"
