"""
Reference model written from the property statements (properties.jsonl), not from the
code: plain dict / Counter bookkeeping of what has been submitted.
"""
import re
from collections import Counter

from .common import prefixes_of, stems_of


class Model(object):
    def __init__(self, default=None, rules=None, variations=None):
        self.pages = {}  # lru -> crawled
        self.links = Counter()  # (s, t) -> submissions
        self.pref = {}  # prefix lru -> webentity id
        self.stored = set()  # stem-prefix closure of everything named in a write
        self.maxid = 0
        self.default = default
        self.drx = re.compile(default, re.I) if default is not None else None
        self.rules = {}
        self.crx = {}
        for k, v in (rules or {}).items():
            self.set_rule(k, v)
        # scheme/www variations: C17 checks the real function on its own; here the
        # model only needs *a* function to state C06 ("K plus every variation of K")
        self.variations = variations

    # -- basic bookkeeping
    def set_rule(self, prefix, pattern):
        self.rules[prefix] = pattern
        self.crx[prefix] = re.compile(pattern, re.I)
        self.store(prefix)

    def store(self, lru):
        for p in prefixes_of(lru):
            self.stored.add(p)

    def resolve(self, lru):
        best = None
        for p in prefixes_of(lru):
            if p in self.pref:
                best = (p, self.pref[p])
        return best

    def weid_of(self, lru):
        r = self.resolve(lru)
        return r[1] if r else None

    # -- C06: decide(E, K)
    def decide(self, lru):
        """returns (E, K, create) : E longest existing prefix or None, K the rule
        proposal or b'', create = K if a webentity must be created else None"""
        E = None
        for p in prefixes_of(lru):
            if p in self.pref:
                E = p
        K = b""
        for p in prefixes_of(lru):
            if p in self.crx:
                mm = self.crx[p].search(lru)
                if mm and len(mm.group()) > len(K):
                    K = mm.group()
        if not K and E is None and self.drx is not None:
            mm = self.drx.search(lru)
            K = mm.group() if mm else b""
        if K and (E is None or len(K) > len(E)):
            return E, K, K
        return E, K, None

    def add_page(self, lru, crawled=False):
        """returns (new_page, created: dict weid -> prefixes) ; ids are taken from
        the implementation's report by the caller via commit_creation"""
        self.store(lru)
        new = lru not in self.pages
        self.pages[lru] = self.pages.get(lru, False) or bool(crawled)
        E, K, create = self.decide(lru)
        attach = []
        if create:
            attach = [v for v in self.variations(create) if v not in self.pref]
            attach = list(dict.fromkeys(attach))
        return new, create, attach

    def commit_creation(self, weid, prefixes):
        for p in prefixes:
            self.pref[p] = weid
            self.store(p)
        if weid is not None and weid > self.maxid:
            self.maxid = weid

    def block_count(self):
        """C19: one header + ceil(len(last stem)/74) per stored stem-prefix"""
        n = 1
        for l in self.stored:
            last = stems_of(l)[-1]
            n += max(1, -(-len(last) // 74))
        return n
