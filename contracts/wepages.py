"""the webentity-pages variant of contracts/hierarchy.py"""
from .hierarchy import install_pages as install  # noqa: F401

GROUP = "wepages"
