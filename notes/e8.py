import sys, tempfile, shutil, warnings, random, os, itertools, traceback
sys.path.insert(0,'/tmp/x')
from e3 import *
from traph.storage.file import FileStorage
LOG=[]
orig=FileStorage.write
def w(self,data,block=None):
    b=orig(self,data,block); LOG.append((os.path.basename(self.file.name),b,bytes(data))); return b
FileStorage.write=w
LONG=(b"a",b"b",b"c", b"N"*75, b"Q"*150)
def run(seed):
    global LOG
    r=random.Random(seed); LOG=[]
    d=tempfile.mkdtemp(); kw=dict(default_webentity_creation_rule=RULE, webentity_creation_rules={})
    t=Traph(folder=d,**kw)
    for i in range(4):
        op=r.choice(['page','links','batch','create'])
        if op=='page': t.add_page(rand_lru(r,(1,3),LONG))
        elif op=='links': t.add_links([(rand_lru(r,(1,3),LONG),rand_lru(r,(1,3),LONG)) for _ in range(r.randint(1,3))])
        elif op=='batch': t.index_batch_crawl({rand_lru(r,(1,3),LONG):[rand_lru(r,(1,3),LONG) for _ in range(r.randint(0,3))]})
        else:
            try: t.create_webentity([rand_lru(r,(1,2),LONG)])
            except TraphException: pass
    fp=set(l for n,l in t.pages_iter()); fl=set(t.links_iter())
    t.close(); shutil.rmtree(d)
    log=LOG[:]
    for k in range(len(log)+1):
        d=tempfile.mkdtemp()
        files={'lru_trie.dat':bytearray(),'link_store.dat':bytearray()}
        for f,b,data in log[:k]:
            a=files[f]; a[b:b+len(data)]=data
        for f,a in files.items(): open(os.path.join(d,f),'wb').write(a)
        try:
            try:
                t=Traph(folder=d,**kw)
            except TraphException: continue
            try:
                p=set(l for n,l in t.pages_iter()); assert p<=fp,('pages',p-fp)
                ls=set(t.links_iter()); assert ls<=fl
                for l in p: t.get_page_links(l)
                t.get_webentities_links(); t.get_webentities_links(out=False)
                t.count_pages(); t.count_crawled_pages(); t.count_links()
                # continue writing
                t.add_page(b"zz|"); t.count_pages()
            finally: t.close()
        except Exception as e:
            print('SEED',seed,'cut',k,'/',len(log),'FAIL',type(e).__name__,str(e)[:300]); print('  last write',log[k-1][:2] if k else None, 'next', log[k][:2] if k<len(log) else None); traceback.print_exc(limit=-4); return False
        finally: shutil.rmtree(d)
    return True
bad=0
for s in range(int(sys.argv[1]),int(sys.argv[2])):
    if not run(s): bad+=1
    if bad>=4: break
print('done',bad)
