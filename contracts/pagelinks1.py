"""the get_page_links variant of contracts/pagination.py"""
from .pagination import install_page_links as install  # noqa: F401

GROUP = "pagelinks1"
