"""writes /verif/MANIFEST.json from props.py (run by hand after changing the plan)"""
import json, sys
sys.path.insert(0, '/verif')
import props as P
TEXT = {
 "C01": ("Page set fidelity", "per-function proofs: page/crawled flag setters change exactly one bit, node write/read round trip, __ensure_stem_from_siblings (and add_lru in the thorough tier) preserve the trie invariant and touch no page bit of existing blocks; typestate TS-W (no stale rewrite of a cached node in traph.py). End-to-end page enumeration/counts/reports: bounded stand-in.", "3.3, 4.3, 4.5, 5 C01"),
 "C02": ("Stored LRUs findable, byte-identical, any stem length", "proved: storage back-ends implement block read/write, chunking (k = ceil(len/74)), set_stem/stem, node read (tail loop) and write (tail blocks, ghost rest) for every stem length, __ensure_stem_from_siblings preserves the TST invariants I1-I7 (BST bounds, GAP/DISJ, single reference, paths unique) for arbitrary stems; add_lru in the thorough tier. Lookup/traversal agreement end-to-end: bounded stand-in incl. the invariant evaluated on raw bytes.", "3.3, 4.1-4.5, 5 C02"),
 "C03": ("Link multigraph fidelity and symmetry", "proved: LinkStore.add_links (count map of the new list = old list + submitted multiset, one stub per target, pointee before pointer, frame), weighted/deduped walks sound, count_links, link node accessors; typestate TS-W at both add_*links call sites; static LK-PAIR (each submitted pair is recorded once on the outbound and once on the inbound side on every path) and PRE-STUB. Symmetry end to end, degrees, transposes: bounded stand-in.", "4.6, 5 C03"),
 "C04": ("Longest-prefix webentity resolution", "proved: follow_lru returns, besides a Fresh node spelling the query, a history naming the deepest webentity among the stem levels it matched (spec function DEEP); retrieve_webentity / retrieve_prefix answer with it and raise TraphException iff none of those levels carries one; add/remove/move_prefix change exactly that prefix, refuse an attached one, and keep the invariant (verified against add_lru's contract); TS-W, FR-STATE. That no longer stem-prefix is stored than the walk matched, and resolution over histories with automatic creations: bounded stand-in.", "4.5, 4.7, 5 C04"),
 "C05": ("Webentity page sets partition the pages", "proved: webentity_dfs_iter yields only Fresh heads of the realm of its start (spec function REL: no webentity strictly between, none on the node unless it is the start) with the bytes of their stored path and within max_depth - so pages below a nested webentity are excluded; lru_node sound and complete. Every member exactly once, partition over all prefixes, agreement with resolution, crawled filter: bounded stand-in.", "5 C05"),
 "C06": ("Automatic creation follows the rules", "proved: rule-flag accessor/setters; rules_to_apply yields one candidate anchor per recorded rule position (the LRU itself included), deepest first; follow_lru soundness; effect contract FR-RO(get_potential_prefix). Decision ladder vs decide(E,K), rule installation fixpoint, reopen: bounded stand-in over Hyphe's rule family.", "5 C06"),
 "C07": ("Webentity network = aggregated page links", "proved: dfs_with_webentity_iter yields each visited head with NEAR(head), the nearest webentity at or above it (every work-list entry carries the inherited one); windup_lru_for_webentity(node) = NEAR(node), so the fast map and the slow windup agree per page; link-walk soundness; PRE-STUB. Aggregation (both directions, include_auto, fast/slow as whole graphs, tallies, every page once): bounded stand-in.", "5 C07"),
 "C08": ("Per-webentity link queries", "proved: windup_lru_for_webentity(node) = NEAR(node) and windup_lru(block) = bytes of the stored path (classification and LRU of each link end), link-walk soundness, PRE-STUB at every walk. Switch combinations and cited/citing sets: bounded stand-in.", "5 C08"),
 "C09": ("Page pagination", "proved: base4_append; static SK-PAIR (the (prefix index, path) pair of the token is updated together, the token is built from exactly that pair, the path is reset per prefix). Completeness/order/resume under insertions and token round trip: bounded stand-in.", "5 C09"),
 "C10": ("Pagelink pagination", "static SK-PAIR (last_path and last_path_i always updated together - the defect D3 and the seeded S-C10 are failures of this obligation), PRE-STUB, node accessors. Equality with the unpaginated answer for every cut: bounded stand-in.", "5 C10"),
 "C11": ("Close/reopen and clear", "proved: every storage write is one whole block at an aligned offset and lengths stay whole blocks; check_for_corruption <=> partial block; effect contract FR-STATE (no mutable RAM state besides the files, the header copy and the rule dict). Observational equality across reopen/clear: bounded stand-in.", "4.1, 5 C11"),
 "C12": ("Fresh increasing ids", "static contracts FR-ID (only the generator advances the counter; increment, then header write, then return; one id per creation request) and FR-STATE. Id freshness across histories/reopen/clear: bounded stand-in.", "5 C12"),
 "C13": ("Hierarchy queries, pruning never hides a child", "proved: pruning-mark accessor/setter, __ensure_stem_from_siblings preserves I9; add_lru (thorough) clears the mark on every proper ancestor; typestate TS-W. Child/parent sets for every construction order: bounded stand-in.", "3.3 I9, 5 C13"),
 "C14": ("Queries never modify the index", "effect contract FR-RO for every read-only Traph request and the trie/link-store read methods they reach (name-based call graph, over-approximate); proved: storage reads and node read/accessors leave store and node unchanged. Byte snapshots around every query: bounded stand-in.", "2.4, 5 C14"),
 "C15": ("Memory = file = mmap", "proved: MemoryStorage, FileStorage, MemMapStorage satisfy the same block-store contract at byte level; FR-SHAPE: every storage call site is accepted by every back-end's signature. Same histories on both back-ends, bytes compared: bounded stand-in.", "4.1, 5 C15"),
 "C16": ("Cooperative interleaving", "typestate contracts with every yield and, in generator requests, every loop back-edge making cached nodes Stale: every write is preceded by a refresh; proved node read/write contracts. All-schedule outcomes: bounded stand-in with every loop iteration a yield point (AST rewrite in the harness).", "3.5, 5 C16"),
 "C17": ("Prefix variations", "proved: lru_variations raises nothing for ANY byte string (the host-list index and pop obligations), returns 1..4 entries the first of which is the input; https_variation returns None iff the scheme is neither http nor https and otherwise changes exactly the leading scheme stem (sequence identities, z3/cvc5). No duplicate, only scheme/www change, closure of the class and the consequence for automatic creation: bounded stand-in (grammar enumeration).", "4.4, 5 C17"),
 "C18": ("Torn write histories", "proved: LRUTrieNode.read raises nothing and returns the stored fields on any aligned block of ANY store (no invariant assumed); node write appends head then tails in order; check_for_corruption. Every cut of recorded write logs: bounded stand-in.", "3.4, 5 C18"),
 "C19": ("Storage accounting", "proved: chunk count, node write appends exactly 1+ceil(len(tail)/74) blocks, __ensure_stem_from_siblings allocates only when the stem is missing and then exactly the blocks of the stem, no unreferenced block (I5), count_blocks. Sizes vs formula after every step, lengths 1..231 swept: bounded stand-in.", "3.3 I5/I11, 5 C19"),
 "C20": ("Most-linked pages", "proved: inlinks accessors. Top-k/indegree/depth: bounded stand-in; one known finding (indegree 1 for a page without inbound links).", "5 C20, 6 D7"),
}
checks = []
for pid in P.ALL:
    if pid not in TEXT: continue
    title, text, ref = TEXT[pid]
    checks.append({
        "property_id": pid,
        "quick_cmd": "python3-vt vcheck.py %s --tier quick" % pid,
        "thorough_cmd": "python3-vt vcheck.py %s --tier thorough" % pid,
        "evidence_file": "evidence/%s.json" % pid,
        "replay_cmd_template": "python3-vt vcheck.py replay {path}",
        "engine": "pyvc",
        "level_claimed": {"category": "other", "text": text, "design_ref": ref},
        "level_note": "trusted: z3/cvc5, the pyvc executor and the sidecar contracts, assumptions A1-A11 listed in every evidence file; the bounded stand-in is never counted as proved",
        "technique": "contract-based deductive verification of the real functions (sidecar contracts, VCs generated from the AST by pyvc, discharged by z3/cvc5) + typestate/effect contracts; bounded run-time contracts as labelled stand-in",
    })
m = {
 "version": 1,
 "setup_cmd": "python3-vt -c \"import z3, json, struct, sys; sys.path.insert(0,'/repo'); import traph; assert struct.calcsize('75pBI6Q')==128; print('z3', z3.get_version_string())\" && test -x /usr/bin/cvc5",
 "hooks": {"guard": "MEDIALAB_HYPHE_TRAPH_VERIF", "enable": "no hook exists: contracts and ghost state live in /verif (sidecar), /repo carries only unguarded fix: commits", "baseline_off_cmd": "cd /repo && /venv/bin/python -m pytest -ra -q -p no:cacheprovider --timeout=900 --continue-on-collection-errors", "source_commits": [], "add_only": True},
 "engines": [
  {"name": "pyvc", "path": "pyvc/", "serves_properties": [c["property_id"] for c in checks], "kind_free_text": "AST -> verification conditions (symbolic executor over a Python subset, loop invariants and callee contracts from contracts/), z3 + cvc5"},
  {"name": "static", "path": "static/", "serves_properties": sorted(P.STATIC), "kind_free_text": "typestate (cached-node freshness) and effect/frame contracts over the package call graph"},
  {"name": "bounded", "path": "bounded/", "serves_properties": P.ALL, "kind_free_text": "bounded stand-in: model-based oracles over enumerated and seeded histories on the real API (never counted as proved)"},
 ],
 "checks": checks,
 "notes": "See DESIGN.md. Exit 0 held / 1 violation / 3 checker error. known_findings.json lists the recorded finding (C20) and the repaired defects.",
 "not_applicable": [],
}
json.dump(m, open('/verif/MANIFEST.json', 'w'), indent=1)
print('checks', len(checks))
