"""
Contracts for the automatic-creation ladder of traph/traph.py (C06):

    Traph.__add_page(lru, crawled)       the ladder itself
    Traph.__create_webentity(prefix,..)  expands and attaches, builds the report

The ladder is verified against the CONTRACTS of what it calls:
  * LRUTrie.add_page              (verified in contracts/trie.py; here only the shape of
                                   its result matters: a node and a walk history H)
  * LRUTrieWalkHistory.rules_to_apply  (verified in contracts/helpers.py; consumed
                                   through its sequence view: candidate anchor j is
                                   H.lru[0:position_(n-1-j)], deepest first)
  * the two regular-expression wrappers __apply_webentity_creation_rule and
    __apply_webentity_default_creation_rule: TRUSTED (assumption A13: python's `re`):
    spec functions RULE_MATCHES / RULE_MATCH(anchor, lru), DEFAULT_MATCHES /
    DEFAULT_MATCH(lru) of an arbitrary but fixed rule configuration
  * LRUTrieNode.refresh           (ghost: remembers after how many creations it ran)

Spec (taken from the statement of C06).  With cand(j) the proposal of the j-th anchor
(empty or absent proposals do not count), BEST(i) is the FIRST index among the first i
anchors whose proposal is longest, -1 if none proposes anything, and LBEST(i) its length
(0 if none) - defined by recursion on i; the four facts that make this reading right
(range, names a proposal, maximal, first) are discharged as lemma steps from the
defining equations.  With K = cand(BEST(n)) and E = H.webentity_position:

   a webentity is created  <=>  LBEST(n) > E  and (LBEST(n) > 0 or the default rule
                                 proposes a non-empty prefix)
   it is created from K when LBEST(n) > 0, from the default proposal otherwise, always
       with expansion into its variations, exactly once
   the default rule is consulted  <=>  no rule proposes anything and E is absent (< 0)
   the report counts one new page iff H.page_was_created, and carries exactly the
       webentities __create_webentity reported
   the node handed back is the one add_page returned, refreshed after the last write
"""
import z3

from pyvc.lib import Contract, LoopSpec
from pyvc.sym import BOOL, BYTES, INT, Opt, Path, Ref, Unsupported, blen, fresh, to_z3

from .helpers import RULEPOS, _prefix_cut

RULE_MATCHES = z3.Function("RULE_MATCHES", BYTES, BYTES, BOOL)
RULE_MATCH = z3.Function("RULE_MATCH", BYTES, BYTES, BYTES)
DEFAULT_MATCHES = z3.Function("DEFAULT_MATCHES", BYTES, BOOL)
DEFAULT_MATCH = z3.Function("DEFAULT_MATCH", BYTES, BYTES)
BEST = z3.Function("BEST", INT, INT)
LBEST = z3.Function("LBEST", INT, INT)

HLRU = z3.Const("H_lru", BYTES)
NRULES = z3.Int("H_nrules")
LRU = z3.Const("page_lru", BYTES)


def anchor(j):
    return _prefix_cut(HLRU, RULEPOS(NRULES - 1 - j))


def cand(j):
    return RULE_MATCH(anchor(j), LRU)


def has(j):
    return z3.And(RULE_MATCHES(anchor(j), LRU), blen(cand(j)) > 0)


def best_def(j):
    """the defining equations at j"""
    return [
        BEST(j + 1) == z3.If(z3.And(has(j), blen(cand(j)) > LBEST(j)), j, BEST(j)),
        LBEST(j) == z3.If(BEST(j) == -1, 0, blen(cand(BEST(j)))),
        LBEST(j + 1) == z3.If(BEST(j + 1) == -1, 0, blen(cand(BEST(j + 1)))),
    ]


def best_axioms():
    j = z3.Int("j")
    t = z3.Int("t")
    return [
        BEST(0) == -1,
        LBEST(0) == 0,
        z3.ForAll([j], z3.Implies(j >= 0, z3.And(*best_def(j)))),
        # consequences (each by induction on j; the steps are discharged below)
        z3.ForAll([j], z3.Implies(j >= 0, z3.And(BEST(j) >= -1, BEST(j) < j, LBEST(j) >= 0))),
        z3.ForAll([j], z3.Implies(z3.And(j >= 0, BEST(j) >= 0), has(BEST(j)))),
    ]


def lemma_steps(ex):
    """induction steps of the four facts, from the defining equations alone"""
    t = z3.Int("t")

    def hyp_concl(f):
        q = Path()
        j = fresh("j", INT)
        q.assume(j >= 0)
        for d in best_def(j):
            q.assume(d)
        q.assume(blen(cand(j)) >= 0)
        q.assume(f(j))
        return q, j, f(j + 1)

    facts = {
        "range": lambda j: z3.And(BEST(j) >= -1, BEST(j) < j, LBEST(j) >= 0),
        "names-a-proposal": lambda j: z3.Implies(BEST(j) >= 0, has(BEST(j))),
        "no-proposal-is-longer": lambda j: z3.ForAll([t], z3.Implies(z3.And(t >= 0, t < j, has(t)), blen(cand(t)) <= LBEST(j))),
        "first-among-the-longest": lambda j: z3.ForAll([t], z3.Implies(z3.And(t >= 0, t < BEST(j), has(t)), blen(cand(t)) < LBEST(j))),
    }
    for nm, f in facts.items():
        q, j, g = hyp_concl(f)
        if nm != "range":
            q.assume(facts["range"](j))
        if nm == "first-among-the-longest":
            # uses the maximality fact at j (established for every j by the previous lemma)
            q.assume(facts["no-proposal-is-longer"](j))
        ex.oblige(q, "lemma:BEST:%s:step" % nm, g, None)
    q = Path()
    q.assume(BEST(0) == -1)
    q.assume(LBEST(0) == 0)
    for nm, f in facts.items():
        ex.oblige(q, "lemma:BEST:%s:base" % nm, f(z3.IntVal(0)), None)


# ---------------------------------------------------------------------------- callee stubs
class AddPageCallee(Contract):
    """LRUTrie.add_page as seen by the ladder: a node and a walk history whose rule
    positions lie within its LRU and whose webentity position is -1 or a length within it.
    Both facts are discharged postconditions of add_page in contracts/trie.py
    (`returned-history:every-rule-position-lies-within-the-lru`, `...webentity-position-
    is--1-or-a-length-within-the-lru`), which rest on add_lru's history contract."""

    qual = "LRUTrie.add_page"

    def apply(self, ex, p, recv, args, kw, ln):
        q = p.fork()
        node = q.new_obj("LRUTrieNode", {"__abstract": True})
        rules = q.new_obj("list", {"len": NRULES, "elem": lambda i: RULEPOS(i)})
        hist = q.new_obj("LRUTrieWalkHistory", {"lru": HLRU, "webentity_position": q.w["__E"], "page_was_created": q.w["__PWC"], "webentity_creation_rules": rules})
        q.w["__node"] = node.oid
        q.w["__addpage_args"] = (args[0], kw.get("crawled", args[1] if len(args) > 1 else False))
        q.mut += 1
        return [(q, (node, hist))]


class RefreshCallee(Contract):
    qual = "LRUTrieNode.refresh"

    def apply(self, ex, p, recv, args, kw, ln):
        q = p.fork()
        q.w["__refreshed_at"] = q.w["__created_n"]
        q.w["__refreshed_node"] = recv.oid
        q.mut += 1
        return [(q, None)]


class RuleCallee(Contract):
    qual = "Traph.__apply_webentity_creation_rule"

    def apply(self, ex, p, recv, args, kw, ln):
        r, l = to_z3(args[0]), to_z3(args[1])
        return [(p, Opt(z3.Not(RULE_MATCHES(r, l)), RULE_MATCH(r, l)))]


class DefaultRuleCallee(Contract):
    qual = "Traph.__apply_webentity_default_creation_rule"

    def apply(self, ex, p, recv, args, kw, ln):
        l = to_z3(args[0])
        q = p.fork()
        q.w["__default_n"] = z3.simplify(q.w["__default_n"] + 1)
        q.w["__default_arg"] = l
        q.mut += 1
        return [(q, Opt(z3.Not(DEFAULT_MATCHES(l)), DEFAULT_MATCH(l)))]


# ---------------------------------------------------------------------------- __create_webentity
CW_DOM = z3.Const("created_dom", z3.ArraySort(INT, BOOL))
CW_VAL = z3.Const("created_val", z3.ArraySort(INT, INT))
CW_N = z3.Int("created_count")


class ExpandCallee(Contract):
    qual = "Traph.expand_prefix"

    def apply(self, ex, p, recv, args, kw, ln):
        q = p.fork()
        q.w["__expanded"] = to_z3(args[0])
        q.mut += 1
        return [(q, q.new_obj("list", {"len": fresh("n_variations", INT), "elem": lambda i: fresh("variation", BYTES), "__expanded_from": to_z3(args[0])}))]


class AddPrefixesCallee(Contract):
    qual = "Traph.__add_prefixes"

    def apply(self, ex, p, recv, args, kw, ln):
        q = p.fork()
        q.w["__addprefixes_n"] = z3.simplify(q.w["__addprefixes_n"] + 1)
        lst = args[0]
        q.w["__addprefixes_arg"] = lst
        q.w["__addprefixes_best"] = kw.get("use_best_case", args[1] if len(args) > 1 else True)
        q.mut += 1
        return [(q, (Opt(q.w["__noid"], q.w["__id"]), q.w["__valid"]))]


class CreateWebentity(Contract):
    """Traph.__create_webentity(prefix, expand, use_best_case): __add_prefixes is called
    exactly once, on the expansion of the prefix when asked to expand and on the prefix
    alone otherwise; the report counts no page and lists {id: attached prefixes} iff an
    id was issued."""

    qual = "Traph.__create_webentity"

    def setups(self, ex):
        for expand in (True, False):
            p = Path()
            p.w["__addprefixes_n"] = z3.IntVal(0)
            p.w["__noid"] = fresh("no_id", BOOL)
            p.w["__id"] = fresh("id", INT)
            p.assume(p.w["__id"] >= 1)
            p.w["__valid"] = fresh("valid_prefixes", INT)  # opaque handle of the list
            prefix = fresh("prefix", BYTES)
            p.w["__prefix"] = prefix
            best = fresh("use_best_case", BOOL)
            p.w["__best"] = best
            t = p.new_obj("Traph", {})
            yield p, t, [prefix], {"expand": expand, "use_best_case": best}, expand

    def check(self, ex, p0, res, expand):
        for p1, kind, val in res:
            if kind == "raise":
                ex.oblige(p1, "raises-nothing(%s)" % val[0], False, val[1])
                continue
            ex.oblige(p1, "attaches-exactly-once", p1.w["__addprefixes_n"] == 1, None)
            arg = p1.w.get("__addprefixes_arg")
            o = p1.obj(arg) if isinstance(arg, Ref) else None
            if expand:
                ok = o is not None and o.f.get("__expanded_from") is not None
                ex.oblige(p1, "expand:attaches-the-expansion-of-the-prefix", z3.BoolVal(bool(ok)) if not ok else o.f["__expanded_from"] == p0.w["__prefix"], None)
            else:
                ok = o is not None and "items" in o.f and len(o.f["items"]) == 1
                ex.oblige(p1, "no-expand:attaches-the-prefix-alone", z3.BoolVal(False) if not ok else to_z3(o.f["items"][0]) == p0.w["__prefix"], None)
            ex.oblige(p1, "passes-use_best_case-through", to_z3(ex.truth(p1.w["__addprefixes_best"], p1)) == p0.w["__best"], None)
            if not isinstance(val, Ref) or p1.obj(val).cls != "TraphWriteReport":
                ex.oblige(p1, "returns-a-report", False, None)
                continue
            r = p1.obj(val)
            cw = p1.obj(r.f["created_webentities"])
            issued = z3.Not(p0.w["__noid"])
            k = z3.Int("k")
            ex.oblige(p1, "report-counts-no-page", to_z3(r.f["nb_created_pages"]) == 0, None)
            ex.oblige(p1, "report-lists-the-id-iff-one-was-issued", z3.ForAll([k], z3.Select(cw.f["dom"], k) == z3.And(issued, k == p0.w["__id"])), None)
            ex.oblige(p1, "report-maps-the-id-to-the-attached-prefixes", z3.Implies(issued, z3.Select(cw.f["val"], p0.w["__id"]) == p0.w["__valid"]), None)

    def apply(self, ex, p, recv, args, kw, ln):
        q = p.fork()
        q.w["__created_n"] = z3.simplify(q.w["__created_n"] + 1)
        a0 = ex.unwrap(args[0], q, "prefix handed to __create_webentity", ln) if isinstance(args[0], Opt) or args[0] is None else args[0]
        q.w["__created_arg"] = to_z3(a0)
        q.w["__created_expand"] = kw.get("expand", args[1] if len(args) > 1 else True)
        cw = q.new_obj("dict", {"dom": CW_DOM, "val": CW_VAL, "n": CW_N})
        rep = q.new_obj("TraphWriteReport", {"created_webentities": cw, "nb_created_pages": 0})
        q.mut += 1
        return [(q, rep)]


# ---------------------------------------------------------------------------- the ladder
def ladder_inv(ex, p):
    idx = [k for k in p.env if k.startswith("__i")][0]
    i = to_z3(p.env[idx])
    L = p.env["longest_candidate_prefix"]
    cs0 = []
    if isinstance(L, Opt):
        cs0.append(("longest-so-far:is-not-None", z3.Not(to_z3(L.none))))
        L = L.val
    if isinstance(L, str):
        length, isbytes = z3.IntVal(len(L)), None
    else:
        length, isbytes = blen(to_z3(L)), to_z3(L)
    cs = cs0 + [("longest-so-far:length", length == LBEST(i))]
    if isbytes is not None:
        cs.append(("longest-so-far:is-the-first-longest-proposal", z3.Implies(BEST(i) >= 0, isbytes == cand(BEST(i)))))
    else:
        cs.append(("longest-so-far:is-the-first-longest-proposal", BEST(i) == -1))
    cs.append(("no-creation-inside-the-loop", z3.And(p.w["__created_n"] == 0, p.w["__default_n"] == 0)))
    return cs


def ladder_havoc(ex, p):
    p.env["longest_candidate_prefix"] = fresh("longest", BYTES)
    p.env["candidate_prefix"] = Opt(fresh("cand_none", BOOL), fresh("cand", BYTES))


class Ladder(Contract):
    qual = "Traph.__add_page"

    def setups(self, ex):
        p = Path()
        for ax in best_axioms():
            p.assume(ax)
        j = z3.Int("j")
        p.assume(NRULES >= 0)
        p.assume(z3.ForAll([j], z3.Implies(z3.And(j >= 0, j < NRULES), z3.And(RULEPOS(j) >= 0, RULEPOS(j) <= blen(HLRU)))))
        p.w["__E"] = fresh("E", INT)
        p.assume(p.w["__E"] >= -1)
        p.w["__PWC"] = fresh("page_was_created", BOOL)
        p.w["__created_n"] = z3.IntVal(0)
        p.w["__default_n"] = z3.IntVal(0)
        p.w["__refreshed_at"] = z3.IntVal(-1)
        p.w["__refreshed_node"] = ""
        p.w["__node"] = "?"
        p.w["__created_arg"] = fresh("nothing_created", BYTES)
        p.w["__default_arg"] = fresh("nothing_asked", BYTES)
        p.w["__created_expand"] = False
        p.w["__addpage_args"] = None
        crawled = fresh("crawled", BOOL)
        p.w["__crawled"] = crawled
        trie = p.new_obj("LRUTrie", {})
        t = p.new_obj("Traph", {"lru_trie": trie})
        yield p, t, [LRU], {"crawled": crawled}, "any"

    def check(self, ex, p0, res, tag):
        lemma_steps(ex)
        n = NRULES
        E = p0.w["__E"]
        klen = LBEST(n)
        dflt = z3.And(DEFAULT_MATCHES(LRU), blen(DEFAULT_MATCH(LRU)) > 0)
        k = z3.Int("k")
        for p1, kind, val in res:
            if kind == "raise":
                ex.oblige(p1, "raises-nothing(%s)" % val[0], False, val[1])
                continue
            created = p1.w["__created_n"]
            ex.oblige(p1, "created<=>K-longer-than-E(or-the-default-proposal-when-neither-exists)", created == z3.If(klen > E, z3.If(klen > 0, 1, z3.If(dflt, 1, 0)), 0), None)
            ex.oblige(p1, "created-from-K,the-first-longest-proposal", z3.Implies(z3.And(created == 1, klen > 0), z3.And(BEST(n) >= 0, p1.w["__created_arg"] == cand(BEST(n)))), None)
            ex.oblige(p1, "created-from-the-default-proposal-when-no-rule-proposes", z3.Implies(z3.And(created == 1, klen == 0), p1.w["__created_arg"] == DEFAULT_MATCH(LRU)), None)
            ex.oblige(p1, "default-rule-consulted<=>no-proposal-and-no-webentity", p1.w["__default_n"] == z3.If(z3.And(klen == 0, E < 0), 1, 0), None)
            ex.oblige(p1, "default-rule-applied-to-the-page-lru", z3.Implies(p1.w["__default_n"] == 1, p1.w["__default_arg"] == LRU), None)
            exp = p1.w["__created_expand"]
            ex.oblige(p1, "created-with-its-variations", z3.Implies(created >= 1, to_z3(ex.truth(exp, p1))), None)
            a = p1.w["__addpage_args"]
            ok = a is not None
            ex.oblige(p1, "page-added-with-the-given-lru-and-crawled-mark", z3.And(to_z3(a[0]) == LRU, to_z3(ex.truth(a[1], p1)) == p0.w["__crawled"]) if ok else z3.BoolVal(False), None)
            if not (isinstance(val, tuple) and len(val) == 2 and isinstance(val[0], Ref) and isinstance(val[1], Ref)):
                ex.oblige(p1, "returns-(node,report)", False, None)
                continue
            node, rep = val
            ex.oblige(p1, "returns-the-node-of-add_page", z3.BoolVal(node.oid == p1.w["__node"]), None)
            ex.oblige(p1, "node-refreshed-after-the-last-write", z3.And(z3.BoolVal(p1.w["__refreshed_node"] == node.oid), p1.w["__refreshed_at"] == created), None)
            r = p1.obj(rep)
            ex.oblige(p1, "report:one-new-page<=>page_was_created", to_z3(r.f["nb_created_pages"]) == z3.If(p0.w["__PWC"], 1, 0), None)
            cw = p1.obj(r.f["created_webentities"])
            ex.oblige(p1, "report:carries-exactly-the-created-webentities", z3.ForAll([k], z3.Select(cw.f["dom"], k) == z3.And(created == 1, z3.Select(CW_DOM, k))), None)
            ex.oblige(p1, "report:created-webentities-with-their-prefixes", z3.ForAll([k], z3.Implies(z3.And(created == 1, z3.Select(CW_DOM, k)), z3.Select(cw.f["val"], k) == z3.Select(CW_VAL, k))), None)


def install(lib):
    lib.loop_spec("Traph.__add_page::for#0", LoopSpec(ladder_inv, havoc=ladder_havoc))
    return [AddPageCallee(), RefreshCallee(), RuleCallee(), DefaultRuleCallee(), ExpandCallee(), AddPrefixesCallee(), CreateWebentity(), Ladder()]


GROUP = "ladder"


# ---------------------------------------------------------------------------- add_page / add_pages (C01: reports)
AP_NEW = z3.Function("AP_PAGE_WAS_NEW", INT, BOOL)  # outcome of the k-th __add_page call of a request
AP_CW_DOM = z3.Function("AP_CREATED_DOM", INT, z3.ArraySort(INT, BOOL))
AP_CW_VAL = z3.Function("AP_CREATED_VAL", INT, z3.ArraySort(INT, INT))
AP_CW_N = z3.Function("AP_CREATED_N", INT, INT)
NEWSUM = z3.Function("NEW_PAGES_AMONG_FIRST", INT, INT)
LRUS = z3.Function("SUBMITTED_LRU", INT, BYTES)


def newsum_axioms():
    j = z3.Int("j")
    return [NEWSUM(0) == 0, z3.ForAll([j], z3.Implies(j >= 0, NEWSUM(j + 1) == NEWSUM(j) + z3.If(AP_NEW(j), 1, 0)))]


def _ladder_apply(self, ex, p, recv, args, kw, ln):
    """__add_page as a callee (its verified report clauses): the k-th call of a request
    returns a node and a report counting one page iff that page was new"""
    q = p.fork()
    k = q.w["__ap_calls"]
    node = q.new_obj("LRUTrieNode", {"__abstract": True, "__call": k})
    cw = q.new_obj("dict", {"dom": AP_CW_DOM(k), "val": AP_CW_VAL(k), "n": AP_CW_N(k)})
    rep = q.new_obj("TraphWriteReport", {"created_webentities": cw, "nb_created_pages": z3.If(AP_NEW(k), 1, 0)})
    crawled = kw.get("crawled", args[1] if len(args) > 1 else False)
    q.w["__ap_lru"] = z3.Store(q.w["__ap_lru"], k, to_z3(args[0]))
    q.w["__ap_crawled"] = z3.Store(q.w["__ap_crawled"], k, to_z3(ex.truth(crawled, q)))
    q.w["__ap_calls"] = z3.simplify(k + 1)
    q.mut += 1
    return [(q, (node, rep))]


Ladder.apply = _ladder_apply


class FlagCrawledCallee(Contract):
    qual = "LRUTrieNode.flag_as_crawled"

    def apply(self, ex, p, recv, args, kw, ln):
        q = p.fork()
        k = q.obj(recv).f.get("__call")
        ex.oblige(q, "flags-the-node-of-the-current-page", z3.BoolVal(False) if k is None else k == q.w["__ap_calls"] - 1, ln, "post")
        q.w["__flag_n"] = z3.simplify(q.w["__flag_n"] + 1)
        q.mut += 1
        return [(q, None)]


class NodeWriteCallee(Contract):
    qual = "LRUTrieNode.write"

    def apply(self, ex, p, recv, args, kw, ln):
        q = p.fork()
        k = q.obj(recv).f.get("__call")
        ex.oblige(q, "writes-the-node-of-the-current-page", z3.BoolVal(False) if k is None else k == q.w["__ap_calls"] - 1, ln, "post")
        ex.oblige(q, "writes-after-flagging", q.w["__write_n"] + 1 == q.w["__flag_n"], ln, "post")
        q.w["__write_n"] = z3.simplify(q.w["__write_n"] + 1)
        q.mut += 1
        return [(q, None)]


def _ap_world(p):
    p.w["__ap_calls"] = z3.IntVal(0)
    p.w["__ap_lru"] = fresh("ap_lru", z3.ArraySort(INT, BYTES))
    p.w["__ap_crawled"] = fresh("ap_crawled", z3.ArraySort(INT, BOOL))
    p.w["__flag_n"] = z3.IntVal(0)
    p.w["__write_n"] = z3.IntVal(0)


AP_WORLD = ("__ap_calls", "__ap_lru", "__ap_crawled", "__flag_n", "__write_n")


def _calls_described(p, upto, crawled):
    j = z3.Int("j")
    return z3.ForAll([j], z3.Implies(z3.And(j >= 0, j < upto), z3.And(z3.Select(p.w["__ap_lru"], j) == LRUS(j), z3.Select(p.w["__ap_crawled"], j) == crawled)))


def add_pages_inv(ex, p):
    idx = [k for k in p.env if k.startswith("__i")][0]
    i = to_z3(p.env[idx])
    crawled = p.w["__crawled"]
    r = p.obj(p.env["report"])
    return [
        ("one-__add_page-call-per-submitted-lru-so-far", p.w["__ap_calls"] == i),
        ("calls-carry-the-submitted-lrus-and-the-crawled-mark", _calls_described(p, i, crawled)),
        ("report-counts-the-new-pages-so-far", to_z3(r.f["nb_created_pages"]) == NEWSUM(i)),
        ("crawled-mark-written-once-per-page-iff-asked", z3.And(p.w["__flag_n"] == z3.If(crawled, i, 0), p.w["__write_n"] == p.w["__flag_n"])),
    ]


def add_pages_havoc(ex, p):
    r = p.obj(p.env["report"])
    r.f["nb_created_pages"] = fresh("nb", INT)
    cw = p.obj(r.f["created_webentities"])
    cw.f["dom"], cw.f["val"], cw.f["n"] = fresh("cw_dom", z3.ArraySort(INT, BOOL)), fresh("cw_val", z3.ArraySort(INT, INT)), fresh("cw_n", INT)
    # `node` and `page_report` of the previous iteration are dead at the loop head
    if isinstance(p.env.get("node"), Ref):
        p.env["node"] = p.new_obj("LRUTrieNode", {"__abstract": True, "__call": fresh("stale_call", INT)})


class AddPages(Contract):
    """Traph.add_pages(lrus, crawled): one __add_page call per submitted LRU, in order,
    with the given crawled mark; the report counts exactly the pages that were new; the
    explicit crawled write happens once per page iff crawled was asked (D8)."""

    qual = "Traph.add_pages"

    def setups(self, ex):
        p = Path()
        for ax in newsum_axioms():
            p.assume(ax)
        _ap_world(p)
        n = fresh("n_lrus", INT)
        p.assume(n >= 0)
        p.w["__n"] = n
        crawled = fresh("crawled", BOOL)
        p.w["__crawled"] = crawled
        lrus = p.new_obj("list", {"len": n, "elem": lambda i: LRUS(i)})
        t = p.new_obj("Traph", {"encoding": "utf-8"})
        yield p, t, [lrus], {"crawled": crawled}, "any"

    def check(self, ex, p0, res, tag):
        n, crawled = p0.w["__n"], p0.w["__crawled"]
        for p1, kind, val in res:
            if kind == "raise":
                ex.oblige(p1, "raises-nothing(%s)" % val[0], False, val[1])
                continue
            ex.oblige(p1, "one-__add_page-call-per-submitted-lru", p1.w["__ap_calls"] == n, None)
            ex.oblige(p1, "calls-carry-the-submitted-lrus-and-the-crawled-mark", _calls_described(p1, n, crawled), None)
            if not isinstance(val, Ref) or p1.obj(val).cls != "TraphWriteReport":
                ex.oblige(p1, "returns-a-report", False, None)
                continue
            ex.oblige(p1, "report-counts-exactly-the-new-pages", to_z3(p1.obj(val).f["nb_created_pages"]) == NEWSUM(n), None)
            ex.oblige(p1, "crawled-mark-written-once-per-page-iff-asked", z3.And(p1.w["__flag_n"] == z3.If(crawled, n, 0), p1.w["__write_n"] == p1.w["__flag_n"]), None)


class AddPagePublic(Contract):
    """Traph.add_page(lru, crawled): exactly one __add_page call with the same LRU and
    crawled mark; its report is returned unchanged"""

    qual = "Traph.add_page"

    def setups(self, ex):
        p = Path()
        _ap_world(p)
        crawled = fresh("crawled", BOOL)
        p.w["__crawled"] = crawled
        t = p.new_obj("Traph", {"encoding": "utf-8"})
        yield p, t, [LRU], {"crawled": crawled}, "any"

    def check(self, ex, p0, res, tag):
        for p1, kind, val in res:
            if kind == "raise":
                ex.oblige(p1, "raises-nothing(%s)" % val[0], False, val[1])
                continue
            ex.oblige(p1, "exactly-one-__add_page-call", p1.w["__ap_calls"] == 1, None)
            ex.oblige(p1, "with-the-given-lru-and-crawled-mark", z3.And(z3.Select(p1.w["__ap_lru"], 0) == LRU, z3.Select(p1.w["__ap_crawled"], 0) == p0.w["__crawled"]), None)
            ok = isinstance(val, Ref) and p1.obj(val).cls == "TraphWriteReport"
            ex.oblige(p1, "returns-that-call's-report", z3.BoolVal(False) if not ok else to_z3(p1.obj(val).f["nb_created_pages"]) == z3.If(AP_NEW(0), 1, 0), None)
            ex.oblige(p1, "no-extra-write", z3.And(p1.w["__flag_n"] == 0, p1.w["__write_n"] == 0), None)


_install_l0 = install


def install(lib):
    lib.loop_spec("Traph.add_pages::for#0", LoopSpec(add_pages_inv, havoc=add_pages_havoc, world=AP_WORLD))
    return _install_l0(lib) + [FlagCrawledCallee(), NodeWriteCallee(), AddPages(), AddPagePublic()]


# ---------------------------------------------------------------------------- LinkStore.add_outlinks / add_inlinks (C03)
class AddLinksCallee(Contract):
    qual = "LinkStore.add_links"

    def apply(self, ex, p, recv, args, kw, ln):
        q = p.fork()
        q.w["__al_calls"] = q.w["__al_calls"] + 1
        q.w["__al_args"] = (args[0], args[1], kw.get("out", args[2] if len(args) > 2 else True))
        q.mut += 1
        return [(q, None)]


class LinkWrapper(Contract):
    """add_outlinks / add_inlinks: exactly one add_links call, on the same page node,
    with the very sequence of blocks given (nothing filtered, nothing added) and the
    direction the name says"""

    def __init__(self, name, out):
        self.qual = "LinkStore." + name
        self.out = out

    def setups(self, ex):
        p = Path()
        p.w["__al_calls"] = 0
        p.w["__al_args"] = None
        node = p.new_obj("LRUTrieNode", {"__abstract": True})
        blocks = p.new_obj("list", {"len": fresh("n_blocks", INT), "elem": lambda i: fresh("blk", INT)})
        store = p.new_obj("LinkStore", {})
        self.node, self.blocks = node, blocks
        yield p, store, [node, blocks], {}, "any"

    def check(self, ex, p0, res, tag):
        for p1, kind, val in res:
            if kind == "raise":
                ex.oblige(p1, "raises-nothing(%s)" % val[0], False, val[1])
                continue
            ex.oblige(p1, "exactly-one-add_links-call", z3.BoolVal(p1.w["__al_calls"] == 1), None)
            a = p1.w["__al_args"]
            ok = a is not None and isinstance(a[0], Ref) and a[0] == self.node
            ex.oblige(p1, "on-the-given-page-node", z3.BoolVal(bool(ok)), None)
            same = a is not None and isinstance(a[1], Ref) and a[1] == self.blocks and p1.obj(a[1]).f.get("len") is p0.obj(self.blocks).f.get("len")
            ex.oblige(p1, "with-the-very-blocks-given(nothing-filtered)", z3.BoolVal(bool(same)), None)
            ex.oblige(p1, "in-the-direction-the-name-says", z3.BoolVal(a is not None and (a[2] is self.out)), None)


_install_l1 = install


def install(lib):
    return _install_l1(lib) + [AddLinksCallee(), LinkWrapper("add_outlinks", True), LinkWrapper("add_inlinks", False)]


# ---------------------------------------------------------------------------- get_potential_prefix (C06: same max(E, K), nothing written)
EPRE = z3.Const("E_prefix", BYTES)


class FollowLruCallee(Contract):
    """LRUTrie.follow_lru as seen by get_potential_prefix: a walk history (contract in
    contracts/trie.py: deepest webentity, its prefix and position, the rule anchors)"""

    qual = "LRUTrie.follow_lru"

    def apply(self, ex, p, recv, args, kw, ln):
        q = p.fork()
        rules = q.new_obj("list", {"len": NRULES, "elem": lambda i: RULEPOS(i)})
        hist = q.new_obj("LRUTrieWalkHistory", {"lru": HLRU, "webentity_position": q.w["__E"], "webentity_prefix": EPRE, "page_was_created": False, "webentity_creation_rules": rules})
        q.w["__followed"] = to_z3(args[0])
        node = q.new_obj("LRUTrieNode", {"__abstract": True})
        q.mut += 1
        return [(q, (Opt(fresh("no_node", BOOL), node), hist))]


class PotentialPrefix(Contract):
    """Traph.get_potential_prefix(lru): with K, E as for the ladder - the existing prefix
    when len(K) <= E, else K when some rule proposes, else the default proposal, else
    False; no page is added, no webentity created, nothing refreshed or written (the
    only trie access is follow_lru)."""

    qual = "Traph.get_potential_prefix"

    def setups(self, ex):
        p = Path()
        for ax in best_axioms():
            p.assume(ax)
        j = z3.Int("j")
        p.assume(NRULES >= 0)
        p.assume(z3.ForAll([j], z3.Implies(z3.And(j >= 0, j < NRULES), z3.And(RULEPOS(j) >= 0, RULEPOS(j) <= blen(HLRU)))))
        p.w["__E"] = fresh("E", INT)
        p.assume(p.w["__E"] >= -1)
        p.w["__created_n"] = z3.IntVal(0)
        p.w["__default_n"] = z3.IntVal(0)
        p.w["__default_arg"] = fresh("nothing_asked", BYTES)
        p.w["__refreshed_at"] = z3.IntVal(-1)
        p.w["__refreshed_node"] = ""
        p.w["__followed"] = None
        trie = p.new_obj("LRUTrie", {})
        t = p.new_obj("Traph", {"lru_trie": trie, "encoding": "utf-8"})
        yield p, t, [LRU], {}, "any"

    def check(self, ex, p0, res, tag):
        n, E = NRULES, p0.w["__E"]
        klen = LBEST(n)
        dflt = z3.And(DEFAULT_MATCHES(LRU), blen(DEFAULT_MATCH(LRU)) > 0)
        for p1, kind, val in res:
            if kind == "raise":
                ex.oblige(p1, "raises-nothing(%s)" % val[0], False, val[1])
                continue
            ex.oblige(p1, "looks-the-lru-up-read-only", z3.BoolVal(p1.w["__followed"] is not None) if p1.w["__followed"] is None else p1.w["__followed"] == LRU, None)
            ex.oblige(p1, "creates-nothing-and-refreshes-nothing", z3.And(p1.w["__created_n"] == 0, p1.w["__refreshed_at"] == -1), None)
            ex.oblige(p1, "default-rule-consulted<=>no-proposal-and-no-webentity", p1.w["__default_n"] == z3.If(z3.And(klen == 0, E < 0), 1, 0), None)
            # the answer
            if isinstance(val, Opt):
                none, v = to_z3(val.none), val.val
            else:
                none, v = z3.BoolVal(val is None), val
            if v is False or v is None:
                ex.oblige(p1, "answers-False=>neither-webentity-nor-proposal-nor-default", z3.And(klen == 0, E < 0, z3.Not(dflt)), None)
                continue
            vz = to_z3(v)
            ex.oblige(p1, "answer-is-never-None", z3.Not(none), None)
            ex.oblige(p1, "answer==existing-prefix-when-K-is-not-longer", z3.Implies(klen <= E, vz == EPRE), None)
            ex.oblige(p1, "answer==K-when-K-is-longer", z3.Implies(z3.And(klen > E, klen > 0), z3.And(BEST(n) >= 0, vz == cand(BEST(n)))), None)
            ex.oblige(p1, "answer==default-proposal-when-nothing-else", z3.Implies(z3.And(klen > E, klen == 0), z3.And(dflt, vz == DEFAULT_MATCH(LRU))), None)


_install_l2 = install


def install(lib):
    lib.loop_spec("Traph.get_potential_prefix::for#0", LoopSpec(ladder_inv, havoc=ladder_havoc))
    return _install_l2(lib) + [FollowLruCallee(), PotentialPrefix()]


# ---------------------------------------------------------------------------- page degrees (C03: the degree figures are the corresponding sums)
N_PL = z3.Int("n_page_links")
PL_W = z3.Function("PAGE_LINK_WEIGHT", INT, INT)
SUMW = z3.Function("SUM_OF_THE_FIRST_WEIGHTS", INT, INT)


class PageLinksCallee(Contract):
    """Traph.get_page_links (contract in contracts/pagination.py) as seen by the degree
    helpers: the list of the links selected by the switches"""

    qual = "Traph.get_page_links"

    def apply(self, ex, p, recv, args, kw, ln):
        q = p.fork()
        q.w["__pl_calls"] = q.w["__pl_calls"] + 1
        q.w["__pl_lru"] = to_z3(args[0])
        q.w["__pl_switches"] = tuple(bool(kw.get(k, True)) if isinstance(kw.get(k, True), bool) else kw.get(k) for k in ("include_inbound", "include_internal", "include_outbound"))
        lst = q.new_obj("list", {"len": N_PL, "elem": lambda k: (fresh("s", BYTES), fresh("t", BYTES), PL_W(k))})
        q.mut += 1
        return [(q, lst)]


def degree_inv(ex, p):
    idx = [k for k in p.env if k.startswith("__i")][0]
    k = to_z3(p.env[idx])
    return [("total-is-the-sum-of-the-weights-so-far", z3.And(k >= 0, to_z3(p.env["total"]) == SUMW(k)))]


class Degree(Contract):
    """get_page_indegree / outdegree / degree: ONE get_page_links call on the given LRU
    with exactly the switches the name says; the number of links, or the sum of their
    weights when weighted"""

    def __init__(self, name, switches):
        self.qual = "Traph." + name
        self.switches = switches

    def setups(self, ex):
        for weighted in (True, False):
            p = Path()
            j = z3.Int("j")
            p.assume(N_PL >= 0)
            p.assume(SUMW(0) == 0)
            p.assume(z3.ForAll([j], z3.Implies(j >= 0, SUMW(j + 1) == SUMW(j) + PL_W(j))))
            p.w["__pl_calls"] = 0
            p.w["__pl_lru"] = None
            p.w["__pl_switches"] = None
            t = p.new_obj("Traph", {})
            yield p, t, [LRU], {"weighted": weighted}, weighted

    def check(self, ex, p0, res, weighted):
        for p1, kind, val in res:
            if kind == "raise":
                ex.oblige(p1, "raises-nothing(%s)" % val[0], False, val[1])
                continue
            ex.oblige(p1, "one-get_page_links-call-on-the-given-lru", z3.BoolVal(False) if p1.w["__pl_calls"] != 1 else p1.w["__pl_lru"] == LRU, None)
            ex.oblige(p1, "with-exactly-the-switches-the-name-says(inbound,internal,outbound)=%r" % (self.switches,), z3.BoolVal(p1.w["__pl_switches"] == self.switches), None)
            ex.oblige(p1, "result==sum-of-the-weights" if weighted else "result==number-of-links", to_z3(val) == (SUMW(N_PL) if weighted else N_PL), None)


_install_l3 = install


def install(lib):
    for nm in ("get_page_indegree", "get_page_outdegree", "get_page_degree"):
        lib.loop_spec("Traph.%s::for#0" % nm, LoopSpec(degree_inv))
    return _install_l3(lib) + [PageLinksCallee(), Degree("get_page_indegree", (True, False, False)), Degree("get_page_outdegree", (False, False, True)), Degree("get_page_degree", (True, True, True))]
