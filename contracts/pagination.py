"""
Contract for Traph.paginate_webentity_pages (C09), verified against the contracts of what
it calls, the trie being abstract:

  * LRUTrie.lru_node(prefix): found or not (PREFIX_STORED(i))
  * LRUTrie.webentity_inorder_iter(node, prefix, pagination_path=..): for prefix i an
    abstract finite sequence of items (node, lru, path) = ITEM(i, j), j < N_ITEMS(i);
    the node of item (i, j) is a page iff IS_PAGE(i, j), crawled iff IS_CRAWLED(i, j)
  * parse_pagination_token / build_pagination_token: opaque (TOKEN(i, path)); their
    round trip is exercised by the bounded stand-in

What is proved, for every page size, token, prefix list and crawled_only switch, over
ANY such sequences (clauses taken from the statement of C09):
  - every listed page is an item the traversal yielded, is a page, is crawled when
    crawled_only, with the LRU and the crawled mark of that item; within one prefix no
    qualifying item is skipped (the number listed so far in the prefix is the number of
    qualifying items met so far: spec function N_QUALIFYING);
  - `count` is the number of pages listed and `count_crawled` the number of crawled ones
    among them;
  - a non-final answer lists exactly `page_count` pages and its token is built from the
    prefix index and the traversal path of the LAST LISTED page; the final answer says
    done and carries no token;
  - the resume path of the token is handed to the traversal of the first prefix only;
  - the library's error is raised iff a prefix of the list is not stored.
Not proved here: that the traversal resumes right after the path (webentity_inorder_iter
is not under contract), order across calls: bounded.
"""
import z3

from pyvc.lib import Contract, LoopSpec, SeqView, GenVal
from pyvc.sym import BOOL, BYTES, INT, Opt, Path, Ref, Unsupported, fresh, to_z3

STORED = z3.Function("PREFIX_STORED", INT, BOOL)
N_ITEMS = z3.Function("N_ITEMS", INT, INT)
ITEM_LRU = z3.Function("ITEM_LRU", INT, INT, BYTES)
ITEM_PATH = z3.Function("ITEM_PATH", INT, INT, INT)
IS_PAGE = z3.Function("IS_PAGE", INT, INT, BOOL)
IS_CRAWLED = z3.Function("IS_CRAWLED", INT, INT, BOOL)
NQ = z3.Function("N_QUALIFYING", INT, INT, INT)  # qualifying items among the first j of prefix i
TOKEN = z3.Function("TOKEN", INT, INT, INT)
PFX = z3.Function("PREFIX", INT, BYTES)
NPFX = z3.Int("n_prefixes")
START = z3.Int("token_prefix_index")
PPATH = z3.Int("token_path")
CRAWLED_ONLY = z3.Bool("crawled_only")


def qual(i, j):
    return z3.And(IS_PAGE(i, j), z3.Or(z3.Not(CRAWLED_ONLY), IS_CRAWLED(i, j)))


def axioms():
    i, j = z3.Ints("i j")
    return [
        NPFX >= 0,
        START >= 0,
        z3.ForAll([i], N_ITEMS(i) >= 0),
        z3.ForAll([i], NQ(i, 0) == 0),
        z3.ForAll([i, j], z3.Implies(j >= 0, NQ(i, j + 1) == NQ(i, j) + z3.If(qual(i, j), 1, 0))),
        z3.ForAll([i, j], z3.Implies(j >= 0, z3.And(NQ(i, j) >= 0, NQ(i, j) <= j))),
    ]


def mk_world(p):
    p.w["__lookups"] = z3.IntVal(0)
    p.w["__cur_i"] = z3.IntVal(-1)  # prefix index of the running traversal
    p.w["__cur_j"] = z3.IntVal(-1)  # item being handled
    p.w["__listed"] = z3.IntVal(0)  # pages appended to the answer
    p.w["__listed_crawled"] = z3.IntVal(0)
    p.w["__last_i"] = z3.IntVal(-1)
    p.w["__last_j"] = z3.IntVal(-1)
    p.w["__n0"] = z3.IntVal(0)  # pages listed before the running traversal started
    p.w["__path_given"] = None


# ---------------------------------------------------------------------------- callee stubs
class ParseToken(Contract):
    qual = "parse_pagination_token"

    def apply(self, ex, p, recv, args, kw, ln):
        return [(p, (START, PPATH))]


class BuildToken(Contract):
    qual = "build_pagination_token"

    def apply(self, ex, p, recv, args, kw, ln):
        q = p.fork()
        a = ex.unwrap(args[0], q, "prefix index of the token", ln) if isinstance(args[0], Opt) or args[0] is None else args[0]
        b = ex.unwrap(args[1], q, "path of the token", ln) if isinstance(args[1], Opt) or args[1] is None else args[1]
        return [(q, TOKEN(to_z3(a), to_z3(b)))]


class LruNodeCallee(Contract):
    qual = "LRUTrie.lru_node"

    def apply(self, ex, p, recv, args, kw, ln):
        q = p.fork()
        i = q.w["__outer"]
        ex.oblige(q, "looks-up-the-prefix-of-the-current-index", to_z3(args[0]) == PFX(i), ln, "post")
        node = q.new_obj("LRUTrieNode", {"__abstract": True, "__start_of": i})
        q.w["__lookups"] = z3.simplify(q.w["__lookups"] + 1)
        q.mut += 1
        return [(q, Opt(z3.Not(STORED(i)), node))]


class InorderCallee(Contract):
    qual = "LRUTrie.webentity_inorder_iter"

    def seq(self, ex, p, recv, args, kw, ln):
        q = p.fork()
        i = q.w["__outer"]
        start = args[0]
        if isinstance(start, Opt) or start is None:
            start = ex.unwrap(start, q, "starting node of the traversal", ln)
        ok = isinstance(start, Ref) and q.obj(start).f.get("__start_of") is not None
        ex.oblige(q, "traversal-starts-at-the-node-of-the-current-prefix", z3.BoolVal(False) if not ok else q.obj(start).f["__start_of"] == i, ln, "post")
        ex.oblige(q, "traversal-is-given-the-current-prefix", to_z3(args[1]) == PFX(i), ln, "post")
        pp = kw.get("pagination_path", args[2] if len(args) > 2 else None)
        q.w["__path_given"] = pp
        # the resume path goes to the traversal of the first prefix of this call only
        if isinstance(pp, Opt):
            none, v = to_z3(pp.none), to_z3(pp.val)
        elif pp is None:
            none, v = z3.BoolVal(True), z3.IntVal(0)
        else:
            none, v = z3.BoolVal(False), to_z3(pp)
        tok = q.w["__has_token"]
        ex.oblige(q, "resume-path-handed-to-the-first-prefix-only", z3.And(z3.Implies(z3.And(tok, i == START), z3.And(z3.Not(none), v == PPATH)), z3.Implies(z3.Or(z3.Not(tok), i != START), none)), ln, "post")
        q.w["__cur_i"] = i
        q.w["__n0"] = q.w["__listed"]
        node = q.new_obj("LRUTrieNode", {"__abstract": True, "__item": True})
        jv = fresh("item_index", INT)
        q.w["__item_var"] = jv
        q.mut += 1
        return q, SeqView(N_ITEMS(i), lambda j: (node, ITEM_LRU(i, j), ITEM_PATH(i, j)), facts=lambda j: [jv == j])


def _item(p, recv):
    if not p.obj(recv).f.get("__item"):
        raise Unsupported("node that is not a traversal item")
    return p.w["__cur_i"], p.w["__item_var"]


class IsPage(Contract):
    qual = "LRUTrieNode.is_page"

    def apply(self, ex, p, recv, args, kw, ln):
        i, j = _item(p, recv)
        return [(p, IS_PAGE(i, j))]


class IsCrawled(Contract):
    qual = "LRUTrieNode.is_crawled"

    def apply(self, ex, p, recv, args, kw, ln):
        i, j = _item(p, recv)
        return [(p, IS_CRAWLED(i, j))]


def pages_append(ex, p, o, v):
    """pages.append({"lru": .., "crawled": ..}): the answer grows by the item in hand"""
    i, j = p.w["__cur_i"], p.w["__item_var"]
    rec = p.obj(v).f["items"] if isinstance(v, Ref) and p.obj(v).cls == "record" else None
    ok = rec is not None and set(rec) == {"lru", "crawled"}
    ex.oblige(p, "listed-page:is-a-record-of-lru-and-crawled", z3.BoolVal(bool(ok)), None, "post")
    if ok:
        ex.oblige(p, "listed-page:carries-the-lru-of-the-item-in-hand", to_z3(rec["lru"]) == ITEM_LRU(i, j), None, "post")
        ex.oblige(p, "listed-page:carries-the-crawled-mark-of-the-item", to_z3(ex.truth(rec["crawled"], p)) == IS_CRAWLED(i, j), None, "post")
    ex.oblige(p, "listed-page:qualifies(is-a-page,crawled-when-crawled_only)", qual(i, j), None, "post")
    ex.oblige(p, "listed-page:each-item-listed-at-most-once", z3.Or(p.w["__last_i"] != i, p.w["__last_j"] < j), None, "post")
    p.w["__listed"] = z3.simplify(p.w["__listed"] + 1)
    p.w["__listed_crawled"] = p.w["__listed_crawled"] + z3.If(IS_CRAWLED(i, j), 1, 0)
    p.w["__last_i"], p.w["__last_j"] = i, j
    o.f["len"] = o.f["len"] + 1


# ---------------------------------------------------------------------------- loop contracts
def _idx(p, which):
    ks = sorted([k for k in p.env if k.startswith("__i")], key=lambda k: int(k[3:]))
    return to_z3(p.env[ks[which]])


def _common(ex, p, k):
    n = to_z3(p.env["n"])
    c = to_z3(p.env["c"])
    cs = [
        ("n-is-the-number-of-pages-listed", n == p.w["__listed"]),
        ("c-is-the-number-of-crawled-pages-listed", c == p.w["__listed_crawled"]),
        ("answer-holds-the-pages-listed", _len(p, "pages") == p.w["__listed"]),
    ]
    if k is not None:
        cs.append(("page-size-not-reached-yet", n < to_z3(k)))
    lp, lpi = p.env["last_path"], p.env["last_path_i"]
    li, lj = p.w["__last_i"], p.w["__last_j"]

    def val(x):
        return (to_z3(x.none), to_z3(x.val)) if isinstance(x, Opt) else (z3.BoolVal(x is None), z3.IntVal(0) if x is None else to_z3(x))

    n1, v1 = val(lp)
    n2, v2 = val(lpi)
    cs.append(("token-fields-describe-the-last-listed-page", z3.Implies(p.w["__listed"] >= 1, z3.And(z3.Not(n1), z3.Not(n2), v2 == li, v1 == ITEM_PATH(li, lj), li >= 0, lj >= 0))))
    return cs


def _len(p, name):
    o = p.obj(p.env[name])
    return z3.IntVal(len(o.f["items"])) if "items" in o.f else o.f["len"]


def outer_inv(ex, p):
    k = p.env.get("k")
    io = _idx(p, 0)
    i = p.w["__start"] + io
    p.w["__outer"] = i
    cs = _common(ex, p, k)
    cs.append(("one-lookup-per-prefix-handled", p.w["__lookups"] == io))
    pp = p.env["pagination_path"]
    none = to_z3(pp.none) if isinstance(pp, Opt) else z3.BoolVal(pp is None)
    cs.append(("resume-path-pending-exactly-before-the-first-prefix-of-a-resumed-call", none == z3.Not(z3.And(p.w["__has_token"], io == 0))))
    if isinstance(pp, Opt):
        cs.append(("resume-path-is-the-token's", z3.Implies(z3.Not(none), z3.And(p.w["__has_token"], to_z3(pp.val) == PPATH, io == 0))))
    cs.append(("last-listed-page-belongs-to-an-earlier-prefix", p.w["__last_i"] < i))
    return cs


def inner_inv(ex, p):
    k = p.env.get("k")
    j = _idx(p, 1)
    i = p.w["__cur_i"]
    cs = _common(ex, p, k)
    cs.append(("running-traversal-is-the-current-prefix's", i == p.w["__outer"]))
    cs.append(("no-qualifying-item-skipped-in-this-prefix", p.w["__listed"] - p.w["__n0"] == NQ(i, j)))
    cs.append(("last-listed-page-precedes-the-item-in-hand", z3.Or(p.w["__last_i"] < i, z3.And(p.w["__last_i"] == i, p.w["__last_j"] < j))))
    return cs


def havoc_common(ex, p):
    o = p.obj(p.env["pages"])
    p.env["pages"] = p.new_obj("list", {"len": fresh("n_pages", INT), "elem": lambda i: fresh("page", INT), "on_append": pages_append})
    p.env["last_path"] = Opt(fresh("lp_none", BOOL), fresh("lp", INT))
    p.env["last_path_i"] = Opt(fresh("lpi_none", BOOL), fresh("lpi", INT))
    for nm in ("starting_node", "node"):
        if nm in p.env:
            p.env.pop(nm)
    p.env.pop("generator", None)
    p.env.pop("crawled", None)


def havoc_outer(ex, p):
    havoc_common(ex, p)
    p.env["pagination_path"] = Opt(fresh("pp_none", BOOL), fresh("pp", INT))


OUTER_WORLD = ("__lookups", "__listed", "__listed_crawled", "__last_i", "__last_j", "__n0", "__cur_i")
INNER_WORLD = ("__listed", "__listed_crawled", "__last_i", "__last_j")


class PaginatePages(Contract):
    qual = "Traph.paginate_webentity_pages"

    def setups(self, ex):
        for sized in (True, False):
            for with_token in (True, False):
                p = Path()
                for ax in axioms():
                    p.assume(ax)
                mk_world(p)
                p.w["__has_token"] = z3.BoolVal(with_token)
                p.w["__start"] = START if with_token else z3.IntVal(0)
                p.w["__outer"] = p.w["__start"]
                prefixes = p.new_obj("list", {"len": NPFX, "elem": lambda i: PFX(i)})
                trie = p.new_obj("LRUTrie", {})
                t = p.new_obj("Traph", {"lru_trie": trie, "encoding": "utf-8"})
                kw = {"crawled_only": CRAWLED_ONLY}
                if sized:
                    pc = fresh("page_count", INT)
                    p.assume(pc >= 1)  # the function asserts page_count > 0
                    p.w["__pc"] = pc
                    kw["page_count"] = pc
                if with_token:
                    kw["pagination_token"] = "a-token"
                yield p, t, [fresh("weid", INT), prefixes], kw, (sized, with_token)

    def check(self, ex, p0, res, tag):
        sized, with_token = tag
        for p1, kind, val in res:
            if kind == "raise":
                if val[0] != "TraphException":
                    ex.oblige(p1, "raises-only-the-library's-error(%s)" % val[0], False, val[1])
                    continue
                ex.oblige(p1, "fails=>the-prefix-just-looked-up-is-not-stored", z3.Not(STORED(p1.w["__outer"])), val[1])
                continue
            if not (isinstance(val, Ref) and p1.obj(val).cls == "record"):
                ex.oblige(p1, "returns-a-record", False, None)
                continue
            r = p1.obj(val).f["items"]
            listed, lc = p1.w["__listed"], p1.w["__listed_crawled"]
            pages = r.get("pages")
            plen = None
            if isinstance(pages, Ref):
                o = p1.obj(pages)
                plen = z3.IntVal(len(o.f["items"])) if "items" in o.f else o.f["len"]
            ex.oblige(p1, "answer-lists-exactly-the-pages-gathered", z3.BoolVal(False) if plen is None else plen == listed, None)
            ex.oblige(p1, "count==number-of-pages-listed", to_z3(r.get("count")) == listed, None)
            ex.oblige(p1, "count_crawled==number-of-crawled-pages-listed", to_z3(r.get("count_crawled")) == lc, None)
            done = r.get("done")
            if done is True:
                ex.oblige(p1, "final-answer-carries-no-token", z3.BoolVal("token" not in r), None)
                if sized:
                    ex.oblige(p1, "final-answer-holds-at-most-the-requested-count", listed <= p0.w["__pc"], None)
            elif done is False:
                ex.oblige(p1, "non-final-answer-only-when-a-page-size-was-given", z3.BoolVal(sized), None)
                if sized:
                    ex.oblige(p1, "non-final-answer-holds-exactly-the-requested-count", listed == p0.w["__pc"], None)
                tok = r.get("token")
                ex.oblige(p1, "token-built-from-the-last-listed-page", z3.BoolVal(False) if tok is None else to_z3(tok) == TOKEN(p1.w["__last_i"], ITEM_PATH(p1.w["__last_i"], p1.w["__last_j"])), None)
            else:
                ex.oblige(p1, "done-is-a-boolean-constant", False, None)


# ============================================================================ paginate_webentity_pagelinks (C10)
HAS_OUT = z3.Function("HAS_OUTLINKS", INT, INT, BOOL)
OUTL = z3.Function("OUTLINKS_HEAD", INT, INT, INT)
N_LINKS = z3.Function("N_LINKS", INT, INT, INT)
TARGET = z3.Function("LINK_TARGET", INT, INT, INT, INT)
WEIGHT = z3.Function("LINK_WEIGHT", INT, INT, INT, INT)
T_NONE = z3.Function("TARGET_HAS_NO_WEBENTITY", INT, INT, INT, BOOL)
T_WE = z3.Function("TARGET_WEBENTITY", INT, INT, INT, INT)
T_LRU = z3.Function("LRU_OF_BLOCK", INT, BYTES)
NK = z3.Function("N_KEPT_LINKS", INT, INT, INT, INT)  # kept links among the first l of item (i, j)
LASTPAGE = z3.Function("LAST_PAGE_ITEM_BEFORE", INT, INT, INT)  # last j' < j with IS_PAGE(i, j'), -1 if none
WEID = z3.Int("weid")
INC_INT = z3.Bool("include_internal")
INC_OUT = z3.Bool("include_outbound")


def keep(i, j, l):
    same = z3.And(z3.Not(T_NONE(i, j, l)), T_WE(i, j, l) == WEID)
    return z3.Or(z3.And(INC_OUT, z3.Not(same)), z3.And(INC_INT, same))


def link_axioms():
    i, j, l = z3.Ints("i j l")
    return [
        z3.ForAll([i, j], N_LINKS(i, j) >= 0),
        z3.ForAll([i, j], NK(i, j, 0) == 0),
        z3.ForAll([i, j, l], z3.Implies(l >= 0, NK(i, j, l + 1) == NK(i, j, l) + z3.If(keep(i, j, l), 1, 0))),
        z3.ForAll([i, j, l], z3.Implies(l >= 0, z3.And(NK(i, j, l) >= 0, NK(i, j, l) <= l))),
        z3.ForAll([i], LASTPAGE(i, 0) == -1),
        z3.ForAll([i, j], z3.Implies(j >= 0, LASTPAGE(i, j + 1) == z3.If(IS_PAGE(i, j), j, LASTPAGE(i, j)))),
        z3.ForAll([i, j], z3.Implies(j >= 0, z3.And(LASTPAGE(i, j) >= -1, LASTPAGE(i, j) < j))),
    ]


class TrieNodeCallee(Contract):
    qual = "LRUTrie.node"

    def apply(self, ex, p, recv, args, kw, ln):
        q = p.fork()
        return [(q, q.new_obj("LRUTrieNode", {"__abstract": True, "__scratch": True, "block": None}))]


class HasOutlinks(Contract):
    qual = "LRUTrieNode.has_outlinks"

    def apply(self, ex, p, recv, args, kw, ln):
        i, j = _item(p, recv)
        return [(p, HAS_OUT(i, j))]


class Outlinks(Contract):
    qual = "LRUTrieNode.outlinks"

    def apply(self, ex, p, recv, args, kw, ln):
        i, j = _item(p, recv)
        return [(p, OUTL(i, j))]


class WeightedCallee(Contract):
    qual = "LinkStore.weighted_link_nodes_iter"

    def seq(self, ex, p, recv, args, kw, ln):
        q = p.fork()
        i, j = q.w["__cur_i"], q.w["__item_var"]
        ex.oblige(q, "walks-the-outlinks-of-the-item-in-hand", z3.And(HAS_OUT(i, j), to_z3(args[0]) == OUTL(i, j)), ln, "post")
        lv = fresh("link_index", INT)
        q.w["__link_var"] = lv
        q.w["__read_l"] = z3.IntVal(-1)
        q.mut += 1
        return q, SeqView(N_LINKS(i, j), lambda l: (TARGET(i, j, l), WEIGHT(i, j, l)), facts=lambda l: [lv == l])


class NodeRead(Contract):
    qual = "LRUTrieNode.read"

    def apply(self, ex, p, recv, args, kw, ln):
        q = p.fork()
        o = q.obj(recv)
        if not o.f.get("__scratch"):
            raise Unsupported("read of a node that is not the scratch target node")
        i, j, l = q.w["__cur_i"], q.w["__item_var"], q.w["__link_var"]
        ex.oblige(q, "reads-the-target-of-the-link-in-hand", to_z3(args[0]) == TARGET(i, j, l), ln, "post")
        o.f["block"] = TARGET(i, j, l)
        q.w["__read_l"] = l
        q.mut += 1
        return [(q, None)]


class WindupWe(Contract):
    qual = "LRUTrie.windup_lru_for_webentity"

    def apply(self, ex, p, recv, args, kw, ln):
        i, j, l = p.w["__cur_i"], p.w["__item_var"], p.w["__link_var"]
        ok = isinstance(args[0], Ref) and p.obj(args[0]).f.get("__scratch")
        ex.oblige(p, "resolves-the-target-just-read", z3.BoolVal(False) if not ok else p.w["__read_l"] == l, ln, "post")
        return [(p, Opt(T_NONE(i, j, l), T_WE(i, j, l)))]


class WindupLru(Contract):
    qual = "LRUTrie.windup_lru"

    def apply(self, ex, p, recv, args, kw, ln):
        return [(p, T_LRU(to_z3(args[0])))]


def newlinks_append(ex, p, o, v):
    i, j, l = p.w["__cur_i"], p.w["__item_var"], p.w["__link_var"]
    items = p.obj(v).f.get("items") if isinstance(v, Ref) and p.obj(v).cls == "list" else None
    ok = items is not None and len(items) == 3
    ex.oblige(p, "kept-link:is-[source,target,weight]", z3.BoolVal(bool(ok)), None, "post")
    if ok:
        ex.oblige(p, "kept-link:source-is-the-lru-of-the-item-in-hand", to_z3(items[0]) == ITEM_LRU(i, j), None, "post")
        ex.oblige(p, "kept-link:target-is-the-lru-of-the-link's-target", to_z3(items[1]) == T_LRU(TARGET(i, j, l)), None, "post")
        ex.oblige(p, "kept-link:weight-is-the-link's-weight", to_z3(items[2]) == WEIGHT(i, j, l), None, "post")
    ex.oblige(p, "kept-link:passes-the-switches", keep(i, j, l), None, "post")
    o.f["len"] = o.f["len"] + 1


def list_concat(ex, p, op, l, r, ln):
    """pagelinks += newlinks : the answer grows by the links of one more source page"""
    import ast as _ast

    if not (isinstance(op, _ast.Add) and isinstance(l, Ref) and isinstance(r, Ref) and p.obj(l).cls == "list" and p.obj(r).cls == "list"):
        raise Unsupported("operator on objects line %s" % ln)

    def ln_(o):
        return z3.IntVal(len(o.f["items"])) if "items" in o.f else o.f["len"]

    a, b = p.obj(l), p.obj(r)
    p.w["__nlinks"] = p.w["__nlinks"] + ln_(b)
    p.w["__srcs"] = z3.simplify(p.w["__srcs"] + 1)
    p.w["__last_src"] = (p.w["__cur_i"], p.w["__item_var"])
    return p.new_obj("list", {"len": ln_(a) + ln_(b), "elem": lambda i: fresh("link", INT)})


def _optval(x):
    return (to_z3(x.none), to_z3(x.val)) if isinstance(x, Opt) else (z3.BoolVal(x is None), z3.IntVal(0) if x is None else to_z3(x))


def _pl_common(ex, p, i):
    n = to_z3(p.env["n"])
    cs = [
        ("n-is-the-number-of-source-pages-listed", n == p.w["__srcs"]),
        ("answer-holds-the-links-gathered", _len(p, "pagelinks") == p.w["__nlinks"]),
    ]
    spc = p.env.get("source_page_count")
    if spc is not None:
        cs.append(("page-size-not-exceeded-yet", n <= to_z3(spc)))
    n1, v1 = _optval(p.env["last_path"])
    n2, v2 = _optval(p.env["last_path_i"])
    cs.append(("token-fields-go-together", n1 == n2))
    cs.append(("a-listed-source-page-leaves-token-fields", z3.Implies(n >= 1, z3.Not(n1))))
    return cs, (n1, v1, n2, v2)


def pl_outer_inv(ex, p):
    io = _idx(p, 0)
    i = p.w["__start"] + io
    p.w["__outer"] = i
    cs, (n1, v1, n2, v2) = _pl_common(ex, p, i)
    t = z3.Int("t")
    cs.append(("one-lookup-per-prefix-handled", p.w["__lookups"] == io))
    pp = p.env["pagination_path"]
    none = to_z3(pp.none) if isinstance(pp, Opt) else z3.BoolVal(pp is None)
    cs.append(("resume-path-pending-exactly-before-the-first-prefix-of-a-resumed-call", none == z3.Not(z3.And(p.w["__has_token"], io == 0))))
    if isinstance(pp, Opt):
        cs.append(("resume-path-is-the-token's", z3.Implies(z3.Not(none), z3.And(p.w["__has_token"], to_z3(pp.val) == PPATH, io == 0))))
    # the token fields name the last page item consumed so far: the last page item of
    # prefix last_path_i, no later prefix handled so far holding any page item
    lpj = LASTPAGE(v2, N_ITEMS(v2))
    cs.append(("token-fields-name-the-last-page-item-consumed", z3.Implies(z3.Not(n1), z3.And(v2 >= p.w["__start"], v2 < i, lpj >= 0, v1 == ITEM_PATH(v2, lpj), z3.ForAll([t], z3.Implies(z3.And(t > v2, t < i), LASTPAGE(t, N_ITEMS(t)) == -1))))))
    cs.append(("no-token-fields=>no-page-item-consumed", z3.Implies(n1, z3.ForAll([t], z3.Implies(z3.And(t >= p.w["__start"], t < i), LASTPAGE(t, N_ITEMS(t)) == -1)))))
    return cs


def pl_inner_inv(ex, p):
    j = _idx(p, 1)
    i = p.w["__cur_i"]
    cs, (n1, v1, n2, v2) = _pl_common(ex, p, i)
    cs.append(("running-traversal-is-the-current-prefix's", i == p.w["__outer"]))
    m1, w1 = _optval(p.w["__lp0"])
    m2, w2 = _optval(p.w["__lpi0"])
    lp = LASTPAGE(i, j)
    cs.append(("token-fields-name-the-last-page-item-consumed", z3.If(lp >= 0, z3.And(z3.Not(n1), v2 == i, v1 == ITEM_PATH(i, lp)), z3.And(n1 == m1, n2 == m2, z3.Implies(z3.Not(n1), z3.And(v1 == w1, v2 == w2))))))
    return cs


def pl_links_inv(ex, p):
    l = _idx(p, 2)
    i, j = p.w["__cur_i"], p.w["__item_var"]
    return [("kept-links-of-this-page-so-far", _len(p, "newlinks") == NK(i, j, l))]


def pl_havoc_common(ex, p):
    p.env["pagelinks"] = p.new_obj("list", {"len": fresh("n_links", INT), "elem": lambda i: fresh("link", INT)})
    p.env["last_path"] = Opt(fresh("lp_none", BOOL), fresh("lp", INT))
    p.env["last_path_i"] = Opt(fresh("lpi_none", BOOL), fresh("lpi", INT))
    for nm in ("starting_node", "node", "generator", "newlinks", "links_block", "target", "weight", "target_webentity", "target_lru"):
        p.env.pop(nm, None)


def pl_havoc_outer(ex, p):
    pl_havoc_common(ex, p)
    p.env["pagination_path"] = Opt(fresh("pp_none", BOOL), fresh("pp", INT))


def pl_havoc_links(ex, p):
    p.env["newlinks"] = p.new_obj("list", {"len": fresh("n_new", INT), "elem": lambda i: fresh("link", INT), "on_append": newlinks_append})
    for nm in ("target", "weight", "target_webentity", "target_lru"):
        p.env.pop(nm, None)


class InorderCalleePL(InorderCallee):
    """the same traversal stub; it also remembers the token fields at the start of the
    prefix (the inner loop contract refers to them)"""

    def seq(self, ex, p, recv, args, kw, ln):
        q, view = InorderCallee.seq(self, ex, p, recv, args, kw, ln)
        q.w["__lp0"] = q.env.get("last_path")
        q.w["__lpi0"] = q.env.get("last_path_i")
        return q, view


class PaginatePagelinks(Contract):
    """Traph.paginate_webentity_pagelinks, over ANY traversal / link sequences:
      - every listed link is [lru of a page item, lru of one of its link targets, its
        weight], passes the include switches against the target's resolved webentity,
        and no such link of a handled page is skipped (N_KEPT_LINKS);
      - count_pagelinks is the number of links listed; count_sourcepages the number of
        page items that contributed links; a non-final answer covers exactly
        source_page_count of them and is produced only when one more is found;
      - the token names the LAST PAGE ITEM CONSUMED before the look-ahead page - link-less
        pages included (D3) -, carried over from an earlier prefix when the current one
        has had no page item yet; the final answer says done and has no token;
      - the library's error iff both switches are off or a prefix is not stored."""

    qual = "Traph.paginate_webentity_pagelinks"

    def setups(self, ex):
        for sized in (True, False):
            for with_token in (True, False):
                p = Path()
                for ax in axioms() + link_axioms():
                    p.assume(ax)
                mk_world(p)
                p.w["__srcs"] = z3.IntVal(0)
                p.w["__nlinks"] = z3.IntVal(0)
                p.w["__lp0"] = None
                p.w["__lpi0"] = None
                p.w["__link_var"] = z3.IntVal(-1)
                p.w["__item_var"] = z3.IntVal(-1)
                p.w["__read_l"] = z3.IntVal(-1)
                p.w["__has_token"] = z3.BoolVal(with_token)
                p.w["__start"] = START if with_token else z3.IntVal(0)
                p.w["__outer"] = p.w["__start"]
                prefixes = p.new_obj("list", {"len": NPFX, "elem": lambda i: PFX(i)})
                trie = p.new_obj("LRUTrie", {})
                ls = p.new_obj("LinkStore", {})
                t = p.new_obj("Traph", {"lru_trie": trie, "link_store": ls, "encoding": "utf-8"})
                kw = {"include_internal": INC_INT, "include_outbound": INC_OUT}
                if sized:
                    pc = fresh("source_page_count", INT)
                    p.assume(pc >= 1)
                    p.w["__pc"] = pc
                    kw["source_page_count"] = pc
                if with_token:
                    kw["pagination_token"] = "a-token"
                yield p, t, [WEID, prefixes], kw, (sized, with_token)

    def check(self, ex, p0, res, tag):
        sized, with_token = tag
        for p1, kind, val in res:
            if kind == "raise":
                if val[0] != "TraphException":
                    ex.oblige(p1, "raises-only-the-library's-error(%s)" % val[0], False, val[1])
                    continue
                ex.oblige(p1, "fails=>both-switches-off-or-a-prefix-is-not-stored", z3.Or(z3.And(z3.Not(INC_INT), z3.Not(INC_OUT)), z3.Not(STORED(p1.w["__outer"]))), val[1])
                continue
            if not (isinstance(val, Ref) and p1.obj(val).cls == "record"):
                ex.oblige(p1, "returns-a-record", False, None)
                continue
            r = p1.obj(val).f["items"]
            srcs, nl = p1.w["__srcs"], p1.w["__nlinks"]
            pl = r.get("pagelinks")
            plen = None
            if isinstance(pl, Ref):
                o = p1.obj(pl)
                plen = z3.IntVal(len(o.f["items"])) if "items" in o.f else o.f["len"]
            ex.oblige(p1, "answer-lists-exactly-the-links-gathered", z3.BoolVal(False) if plen is None else plen == nl, None)
            ex.oblige(p1, "count_pagelinks==number-of-links-listed", to_z3(r.get("count_pagelinks")) == nl, None)
            ex.oblige(p1, "count_sourcepages==number-of-pages-that-contributed-links", to_z3(r.get("count_sourcepages")) == srcs, None)
            done = r.get("done")
            if done is True:
                ex.oblige(p1, "final-answer-carries-no-token", z3.BoolVal("token" not in r), None)
                if sized:
                    ex.oblige(p1, "final-answer-covers-at-most-the-requested-number-of-source-pages", srcs <= p0.w["__pc"], None)
            elif done is False:
                ex.oblige(p1, "non-final-answer-only-when-a-page-size-was-given", z3.BoolVal(sized), None)
                if sized:
                    ex.oblige(p1, "non-final-answer-covers-exactly-the-requested-number-of-source-pages", srcs == p0.w["__pc"], None)
                # produced at the look-ahead page (i, j): the token names the last page item before it
                i, j = p1.w["__cur_i"], p1.w["__item_var"]
                lp = LASTPAGE(i, j)
                m1, w1 = _optval(p1.w["__lp0"])
                m2, w2 = _optval(p1.w["__lpi0"])
                tok = r.get("token")
                exp = z3.If(lp >= 0, TOKEN(i, ITEM_PATH(i, lp)), TOKEN(w2, w1))
                ex.oblige(p1, "token-names-the-last-page-item-consumed-before-the-look-ahead-page", z3.BoolVal(False) if tok is None else z3.And(to_z3(tok) == exp, z3.Or(lp >= 0, z3.Not(m1))), None)
                ex.oblige(p1, "look-ahead-page-contributes-links-and-is-not-listed", z3.And(IS_PAGE(i, j), HAS_OUT(i, j), NK(i, j, N_LINKS(i, j)) > 0), None)
            else:
                ex.oblige(p1, "done-is-a-boolean-constant", False, None)


def install(lib):
    lib.obj_binop = list_concat
    lib.loop_spec("Traph.paginate_webentity_pagelinks::for#0", LoopSpec(pl_outer_inv, havoc=pl_havoc_outer, locals_=("n",), world=("__lookups", "__srcs", "__nlinks", "__cur_i", "__n0", "__listed", "__listed_crawled", "__last_i", "__last_j")))
    lib.loop_spec("Traph.paginate_webentity_pagelinks::for#1", LoopSpec(pl_inner_inv, havoc=pl_havoc_common, locals_=("n",), world=("__srcs", "__nlinks")))
    lib.loop_spec("Traph.paginate_webentity_pagelinks::for#2", LoopSpec(pl_links_inv, havoc=pl_havoc_links, world=("__read_l",)))
    lib.loop_spec("Traph.paginate_webentity_pages::for#0", LoopSpec(outer_inv, havoc=havoc_outer, locals_=("n", "c"), world=OUTER_WORLD))
    lib.loop_spec("Traph.paginate_webentity_pages::for#1", LoopSpec(inner_inv, havoc=havoc_common, locals_=("n", "c"), world=INNER_WORLD))
    return [ParseToken(), BuildToken(), LruNodeCallee(), InorderCalleePL(), IsPage(), IsCrawled(), PaginatePages(), TrieNodeCallee(), HasOutlinks(), Outlinks(), WeightedCallee(), NodeRead(), WindupWe(), WindupLru(), PaginatePagelinks()]


GROUP = "pagination"


# ============================================================================ get_webentity_pagelinks_iter (C08)
IN_HAS = z3.Function("HAS_INLINKS", INT, INT, BOOL)
INL = z3.Function("INLINKS_HEAD", INT, INT, INT)
N_IN = z3.Function("N_INLINKS", INT, INT, INT)
SRC = z3.Function("INLINK_SOURCE", INT, INT, INT, INT)
IN_W = z3.Function("INLINK_WEIGHT", INT, INT, INT, INT)
S_NONE = z3.Function("SOURCE_HAS_NO_WEBENTITY", INT, INT, INT, BOOL)
S_WE = z3.Function("SOURCE_WEBENTITY", INT, INT, INT, INT)
NKI = z3.Function("N_KEPT_INLINKS", INT, INT, INT, INT)
INC_IN = z3.Bool("include_inbound")


def keep_in(i, j, l):
    return z3.Not(z3.And(z3.Not(S_NONE(i, j, l)), S_WE(i, j, l) == WEID))


def inlink_axioms():
    i, j, l = z3.Ints("i j l")
    return [
        z3.ForAll([i, j], N_IN(i, j) >= 0),
        z3.ForAll([i, j], NKI(i, j, 0) == 0),
        z3.ForAll([i, j, l], z3.Implies(l >= 0, NKI(i, j, l + 1) == NKI(i, j, l) + z3.If(keep_in(i, j, l), 1, 0))),
        z3.ForAll([i, j, l], z3.Implies(l >= 0, z3.And(NKI(i, j, l) >= 0, NKI(i, j, l) <= l))),
    ]


class HasInlinks(Contract):
    qual = "LRUTrieNode.has_inlinks"

    def apply(self, ex, p, recv, args, kw, ln):
        i, j = _item(p, recv)
        return [(p, IN_HAS(i, j))]


class Inlinks(Contract):
    qual = "LRUTrieNode.inlinks"

    def apply(self, ex, p, recv, args, kw, ln):
        i, j = _item(p, recv)
        return [(p, INL(i, j))]


class RealmCallee(Contract):
    """LRUTrie.webentity_dfs_iter(node, prefix): for prefix i an abstract sequence of
    items (node, lru) (contract in contracts/trie.py: every item belongs to the realm)"""

    qual = "LRUTrie.webentity_dfs_iter"

    def seq(self, ex, p, recv, args, kw, ln):
        q = p.fork()
        i = q.w["__outer"]
        start = args[0]
        if isinstance(start, Opt) or start is None:
            start = ex.unwrap(start, q, "starting node of the traversal", ln)
        ok = isinstance(start, Ref) and q.obj(start).f.get("__start_of") is not None
        ex.oblige(q, "traversal-starts-at-the-node-of-the-current-prefix", z3.BoolVal(False) if not ok else q.obj(start).f["__start_of"] == i, ln, "post")
        ex.oblige(q, "traversal-is-given-the-current-prefix", to_z3(args[1]) == PFX(i), ln, "post")
        q.w["__cur_i"] = i
        node = q.new_obj("LRUTrieNode", {"__abstract": True, "__item": True})
        jv = fresh("item_index", INT)
        q.w["__item_var"] = jv
        q.mut += 1
        return q, SeqView(N_ITEMS(i), lambda j: (node, ITEM_LRU(i, j)), facts=lambda j: [jv == j])


class WeightedBoth(WeightedCallee):
    def seq(self, ex, p, recv, args, kw, ln):
        i, j = p.w["__cur_i"], p.w["__item_var"]
        blk = to_z3(args[0])
        if blk.eq(INL(i, j)):
            q = p.fork()
            ex.oblige(q, "walks-the-inlinks-of-the-item-in-hand", IN_HAS(i, j), ln, "post")
            lv = fresh("link_index", INT)
            q.w["__link_var"] = lv
            q.w["__read_l"] = z3.IntVal(-1)
            q.w["__side"] = "in"
            q.w["__len0"] = _len(q, "pagelinks")
            q.assume(NKI(i, j, 0) == 0)  # (instance of the defining equation)
            q.mut += 1
            return q, SeqView(N_IN(i, j), lambda l: (SRC(i, j, l), IN_W(i, j, l)), facts=lambda l: [lv == l])
        q, view = WeightedCallee.seq(self, ex, p, recv, args, kw, ln)
        q.w["__side"] = "out"
        if "pagelinks" in q.env and "newlinks" not in q.env:
            q.w["__len0"] = _len(q, "pagelinks")
        return q, view


class NodeReadBoth(NodeRead):
    def apply(self, ex, p, recv, args, kw, ln):
        if p.w.get("__side") != "in":
            return NodeRead.apply(self, ex, p, recv, args, kw, ln)
        q = p.fork()
        o = q.obj(recv)
        if not o.f.get("__scratch"):
            raise Unsupported("read of a node that is not a scratch node")
        i, j, l = q.w["__cur_i"], q.w["__item_var"], q.w["__link_var"]
        ex.oblige(q, "reads-the-source-of-the-inlink-in-hand", to_z3(args[0]) == SRC(i, j, l), ln, "post")
        o.f["block"] = SRC(i, j, l)
        q.w["__read_l"] = l
        q.mut += 1
        return [(q, None)]


class WindupWeBoth(WindupWe):
    def apply(self, ex, p, recv, args, kw, ln):
        if p.w.get("__side") != "in":
            return WindupWe.apply(self, ex, p, recv, args, kw, ln)
        i, j, l = p.w["__cur_i"], p.w["__item_var"], p.w["__link_var"]
        ok = isinstance(args[0], Ref) and p.obj(args[0]).f.get("__scratch")
        ex.oblige(p, "resolves-the-source-just-read", z3.BoolVal(False) if not ok else p.w["__read_l"] == l, ln, "post")
        return [(p, Opt(S_NONE(i, j, l), S_WE(i, j, l)))]


def all_links_append(ex, p, o, v):
    i, j, l = p.w["__cur_i"], p.w["__item_var"], p.w["__link_var"]
    items = p.obj(v).f.get("items") if isinstance(v, Ref) and p.obj(v).cls == "list" else None
    ok = items is not None and len(items) == 3
    ex.oblige(p, "listed-link:is-[source,target,weight]", z3.BoolVal(bool(ok)), None, "post")
    side = p.w.get("__side")
    if ok and side == "out":
        ex.oblige(p, "outlink:source-is-the-page-in-hand", to_z3(items[0]) == ITEM_LRU(i, j), None, "post")
        ex.oblige(p, "outlink:target-is-the-lru-of-the-link's-target", to_z3(items[1]) == T_LRU(TARGET(i, j, l)), None, "post")
        ex.oblige(p, "outlink:weight", to_z3(items[2]) == WEIGHT(i, j, l), None, "post")
        ex.oblige(p, "outlink:classified-by-the-target's-resolved-webentity", keep(i, j, l), None, "post")
    elif ok and side == "in":
        ex.oblige(p, "inlink:source-is-the-lru-of-the-link's-source", to_z3(items[0]) == T_LRU(SRC(i, j, l)), None, "post")
        ex.oblige(p, "inlink:target-is-the-page-in-hand", to_z3(items[1]) == ITEM_LRU(i, j), None, "post")
        ex.oblige(p, "inlink:weight", to_z3(items[2]) == IN_W(i, j, l), None, "post")
        ex.oblige(p, "inlink:listed-only-when-the-source-is-outside-the-webentity(and-inbound-asked)", z3.And(INC_IN, keep_in(i, j, l)), None, "post")
    else:
        ex.oblige(p, "listed-link:inside-a-link-walk", False, None, "post")
    o.f["len"] = o.f["len"] + 1


def wl_havoc(ex, p):
    p.env["pagelinks"] = p.new_obj("list", {"len": fresh("n_links", INT), "elem": lambda i: fresh("link", INT), "on_append": all_links_append})
    st = p.env.get("state")
    if isinstance(st, Ref):
        p.obj(st).f["n_iterations"] = fresh("n_iterations", INT)


def wl_outer_inv(ex, p):
    io = _idx(p, 0)
    p.w["__outer"] = io
    return [("one-lookup-per-prefix-handled", p.w["__lookups"] == io), ("answer-length-non-negative", _len(p, "pagelinks") >= 0)]


def wl_item_inv(ex, p):
    return [("running-traversal-is-the-current-prefix's", p.w["__cur_i"] == p.w["__outer"]), ("answer-length-non-negative", _len(p, "pagelinks") >= 0)]


def wl_out_inv(ex, p):
    l = _idx(p, 2)
    i, j = p.w["__cur_i"], p.w["__item_var"]
    return [("no-outlink-of-this-page-skipped-or-repeated", _len(p, "pagelinks") - p.w["__len0"] == NK(i, j, l))]


def wl_in_inv(ex, p):
    l = _idx(p, -1)  # the innermost loop entered last (the out-link walk may have run before)
    i, j = p.w["__cur_i"], p.w["__item_var"]
    return [("defining-equation-at-the-link-in-hand", z3.And(l >= 0, NKI(i, j, l + 1) == NKI(i, j, l) + z3.If(keep_in(i, j, l), 1, 0), NKI(i, j, l) >= 0)), ("no-inlink-of-this-page-skipped-or-repeated", _len(p, "pagelinks") - p.w["__len0"] == NKI(i, j, l))]


class WebentityPagelinks(Contract):
    """Traph.get_webentity_pagelinks_iter over ANY realm / link sequences: every listed
    link is [page of the realm, target, weight] of an out-link kept by the
    internal/outbound switches against the target's resolved webentity, or [source, page,
    weight] of an in-link whose source resolves outside the webentity (inbound asked);
    within each page's link list none is skipped or repeated; out-links are walked only
    when internal or outbound is asked, in-links only when inbound is asked; the
    library's error iff all switches are off or a prefix is not stored."""

    qual = "Traph.get_webentity_pagelinks_iter"

    def setups(self, ex):
        p = Path()
        for ax in axioms() + link_axioms() + inlink_axioms():
            p.assume(ax)
        mk_world(p)
        for k_ in ("__link_var", "__item_var", "__read_l"):
            p.w[k_] = z3.IntVal(-1)
        p.w["__side"] = None
        p.w["__len0"] = z3.IntVal(0)
        p.w["__result"] = None
        p.w["__outer"] = z3.IntVal(0)
        p.w["__start"] = z3.IntVal(0)
        prefixes = p.new_obj("list", {"len": NPFX, "elem": lambda i: PFX(i)})
        trie = p.new_obj("LRUTrie", {})
        ls = p.new_obj("LinkStore", {})
        t = p.new_obj("Traph", {"lru_trie": trie, "link_store": ls, "encoding": "utf-8"})
        yield p, t, [WEID, prefixes], {"include_inbound": INC_IN, "include_internal": INC_INT, "include_outbound": INC_OUT}, "any"

    def on_yield(self, ex, p, v, ln, tag):
        if isinstance(v, Ref) and p.obj(v).f.get("done") is True:
            p.w["__result"] = p.obj(v).f.get("result")
        return [(p, "normal", None)]

    def check(self, ex, p0, res, tag):
        for p1, kind, val in res:
            if kind == "raise":
                if val[0] != "TraphException":
                    ex.oblige(p1, "raises-only-the-library's-error(%s)" % val[0], False, val[1])
                    continue
                ex.oblige(p1, "fails=>all-switches-off-or-a-prefix-is-not-stored", z3.Or(z3.And(z3.Not(INC_INT), z3.Not(INC_OUT), z3.Not(INC_IN)), z3.Not(STORED(p1.w["__outer"]))), val[1])
                continue
            r = p1.w.get("__result")
            ex.oblige(p1, "finishes-with-the-list-of-links-gathered", z3.BoolVal(isinstance(r, Ref) and isinstance(p1.env.get("pagelinks"), Ref) and r == p1.env["pagelinks"]), None)


_install_p0 = install


def install(lib):
    cs = _install_p0(lib)
    key = "Traph.get_webentity_pagelinks_iter::for#%d"
    lib.loop_spec(key % 0, LoopSpec(wl_outer_inv, havoc=wl_havoc, world=("__lookups", "__cur_i")))
    lib.loop_spec(key % 1, LoopSpec(wl_item_inv, havoc=wl_havoc))
    lib.loop_spec(key % 2, LoopSpec(wl_out_inv, havoc=wl_havoc, world=("__read_l",)))
    lib.loop_spec(key % 3, LoopSpec(wl_in_inv, havoc=wl_havoc, world=("__read_l",)))
    cs = [c for c in cs if c.qual not in ("LinkStore.weighted_link_nodes_iter", "LRUTrieNode.read", "LRUTrie.windup_lru_for_webentity")]
    return cs + [HasInlinks(), Inlinks(), RealmCallee(), WeightedBoth(), NodeReadBoth(), WindupWeBoth(), WebentityPagelinks()]


# ============================================================================ get_page_links (C03)
LRU0 = z3.Const("page_lru", BYTES)
NKP = z3.Function("N_KEPT_OUTLINKS_OF_THE_PAGE", INT, INT)
NKPI = z3.Function("N_KEPT_INLINKS_OF_THE_PAGE", INT, INT)
ZERO = z3.IntVal(0)


def pl_keep_out(l):
    t = T_LRU(TARGET(ZERO, ZERO, l))
    return z3.Or(z3.And(INC_OUT, t != LRU0), z3.And(INC_INT, t == LRU0))


def pl_keep_in(l):
    return T_LRU(SRC(ZERO, ZERO, l)) != LRU0


def page_axioms():
    l = z3.Int("l")
    return [
        N_LINKS(ZERO, ZERO) >= 0,
        N_IN(ZERO, ZERO) >= 0,
        NKP(0) == 0,
        NKPI(0) == 0,
        z3.ForAll([l], z3.Implies(l >= 0, z3.And(NKP(l + 1) == NKP(l) + z3.If(pl_keep_out(l), 1, 0), NKP(l) >= 0))),
        z3.ForAll([l], z3.Implies(l >= 0, z3.And(NKPI(l + 1) == NKPI(l) + z3.If(pl_keep_in(l), 1, 0), NKPI(l) >= 0))),
    ]


class PageLookup(Contract):
    qual = "LRUTrie.lru_node"

    def apply(self, ex, p, recv, args, kw, ln):
        q = p.fork()
        ex.oblige(q, "looks-up-the-given-lru", to_z3(args[0]) == LRU0, ln, "post")
        node = q.new_obj("LRUTrieNode", {"__abstract": True, "__item": True})
        q.w["__cur_i"] = ZERO
        q.w["__item_var"] = ZERO
        q.w["__lookups"] = z3.simplify(q.w["__lookups"] + 1)
        q.mut += 1
        return [(q, Opt(z3.Not(STORED(ZERO)), node))]


def page_links_append(ex, p, o, v):
    l = p.w["__link_var"]
    items = p.obj(v).f.get("items") if isinstance(v, Ref) and p.obj(v).cls == "list" else None
    ok = items is not None and len(items) == 3
    ex.oblige(p, "listed-link:is-[source,target,weight]", z3.BoolVal(bool(ok)), None, "post")
    side = p.w.get("__side")
    if ok and side == "out":
        ex.oblige(p, "outlink:[the-page,lru-of-the-target,weight]", z3.And(to_z3(items[0]) == LRU0, to_z3(items[1]) == T_LRU(TARGET(ZERO, ZERO, l)), to_z3(items[2]) == WEIGHT(ZERO, ZERO, l)), None, "post")
        ex.oblige(p, "outlink:kept-by-the-switches(a-self-link-is-internal)", pl_keep_out(l), None, "post")
        p.w["__out_listed"] = z3.simplify(p.w["__out_listed"] + 1)
    elif ok and side == "in":
        ex.oblige(p, "inlink:[lru-of-the-source,the-page,weight]", z3.And(to_z3(items[0]) == T_LRU(SRC(ZERO, ZERO, l)), to_z3(items[1]) == LRU0, to_z3(items[2]) == IN_W(ZERO, ZERO, l)), None, "post")
        ex.oblige(p, "inlink:listed-only-from-another-page-and-when-inbound-is-asked", z3.And(INC_IN, pl_keep_in(l)), None, "post")
        p.w["__in_listed"] = z3.simplify(p.w["__in_listed"] + 1)
    else:
        ex.oblige(p, "listed-link:inside-a-link-walk", False, None, "post")
    o.f["len"] = o.f["len"] + 1


def gl_havoc(ex, p):
    p.env["pagelinks"] = p.new_obj("list", {"len": fresh("n_links", INT), "elem": lambda i: fresh("link", INT), "on_append": page_links_append})


def gl_out_inv(ex, p):
    l = _idx(p, -1)
    return [("no-outlink-skipped-or-repeated", z3.And(l >= 0, p.w["__out_listed"] == NKP(l), p.w["__in_listed"] == 0)), ("answer-holds-the-links-listed", _len(p, "pagelinks") == p.w["__out_listed"] + p.w["__in_listed"])]


def gl_in_inv(ex, p):
    l = _idx(p, -1)
    return [("no-inlink-skipped-or-repeated", z3.And(l >= 0, p.w["__in_listed"] == NKPI(l))), ("answer-holds-the-links-listed", _len(p, "pagelinks") == p.w["__out_listed"] + p.w["__in_listed"]), ("out-walk-result-kept", p.w["__out_listed"] == p.w["__out_total"])]


class WeightedPage(WeightedBoth):
    def seq(self, ex, p, recv, args, kw, ln):
        q, view = WeightedBoth.seq(self, ex, p, recv, args, kw, ln)
        if q.w.get("__side") == "in":
            q.w["__out_total"] = q.w["__out_listed"]
            q.w["__in_walked"] = True
        else:
            q.w["__out_walked"] = True
        return q, view


class PageLinks(Contract):
    """Traph.get_page_links(lru, switches) over ANY link sequences of the page: [] when
    the LRU is not stored or not a page; otherwise the out-links kept by the
    outbound/internal switches (a link to the page itself is internal) followed by the
    in-links from other pages when inbound is asked - each with its weight, none skipped
    or repeated; the out-list is walked iff the page has out-links and outbound or
    internal is asked, the in-list iff it has in-links and inbound is asked (a page
    without out-links still reports its in-links)."""

    qual = "Traph.get_page_links"

    def setups(self, ex):
        p = Path()
        for ax in axioms() + link_axioms() + inlink_axioms() + page_axioms():
            p.assume(ax)
        mk_world(p)
        for k_ in ("__link_var", "__item_var", "__read_l"):
            p.w[k_] = z3.IntVal(-1)
        p.w["__side"] = None
        p.w["__len0"] = z3.IntVal(0)
        p.w["__out_listed"] = z3.IntVal(0)
        p.w["__in_listed"] = z3.IntVal(0)
        p.w["__out_total"] = z3.IntVal(0)
        p.w["__out_walked"] = False
        p.w["__in_walked"] = False
        trie = p.new_obj("LRUTrie", {})
        ls = p.new_obj("LinkStore", {})
        t = p.new_obj("Traph", {"lru_trie": trie, "link_store": ls, "encoding": "utf-8"})
        yield p, t, [LRU0], {"include_inbound": INC_IN, "include_internal": INC_INT, "include_outbound": INC_OUT}, "any"

    def check(self, ex, p0, res, tag):
        for p1, kind, val in res:
            if kind == "raise":
                ex.oblige(p1, "raises-nothing(%s)" % val[0], False, val[1])
                continue
            ok = isinstance(val, Ref) and p1.obj(val).cls == "list"
            if not ok:
                ex.oblige(p1, "returns-a-list", False, None)
                continue
            o = p1.obj(val)
            n = z3.IntVal(len(o.f["items"])) if "items" in o.f else o.f["len"]
            is_page = z3.And(STORED(ZERO), IS_PAGE(ZERO, ZERO))
            want_out = z3.And(is_page, HAS_OUT(ZERO, ZERO), z3.Or(INC_OUT, INC_INT))
            want_in = z3.And(is_page, IN_HAS(ZERO, ZERO), INC_IN)
            ex.oblige(p1, "out-list-walked<=>the-page-has-out-links-and-outbound-or-internal-is-asked", z3.BoolVal(bool(p1.w["__out_walked"])) == want_out, None)
            ex.oblige(p1, "in-list-walked<=>the-page-has-in-links-and-inbound-is-asked", z3.BoolVal(bool(p1.w["__in_walked"])) == want_in, None)
            ex.oblige(p1, "every-kept-out-link-listed-once", z3.Implies(want_out, p1.w["__out_listed"] == NKP(N_LINKS(ZERO, ZERO))), None)
            ex.oblige(p1, "every-in-link-from-another-page-listed-once", z3.Implies(want_in, p1.w["__in_listed"] == NKPI(N_IN(ZERO, ZERO))), None)
            ex.oblige(p1, "answer-is-exactly-the-links-listed", n == p1.w["__out_listed"] + p1.w["__in_listed"], None)


class HasLinks(Contract):
    qual = "LRUTrieNode.has_links"

    def apply(self, ex, p, recv, args, kw, ln):
        i, j = _item(p, recv)
        out = kw.get("out", args[0] if args else True)
        o = to_z3(ex.truth(out, p))
        return [(p, z3.If(o, HAS_OUT(i, j), IN_HAS(i, j)))]


def install_page_links(lib):
    cs = install(lib) + [HasLinks()]
    lib.loop_spec("Traph.get_page_links::for#0", LoopSpec(gl_out_inv, havoc=gl_havoc, world=("__read_l", "__out_listed")))
    lib.loop_spec("Traph.get_page_links::for#1", LoopSpec(gl_in_inv, havoc=gl_havoc, world=("__read_l", "__in_listed")))
    cs = [c for c in cs if c.qual not in ("LRUTrie.lru_node", "LinkStore.weighted_link_nodes_iter")]
    return cs + [PageLookup(), WeightedPage(), PageLinks()]
