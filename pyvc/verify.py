"""
pyvc.verify — per-function verification driver: builds the symbolic initial state from
the function's sidecar contract, runs the real body, collects and discharges the
obligations.  One function = one task (run in a process pool by vcheck).
"""
import time
import traceback

import z3

from . import smt
from .extract import Program
from .sym import DeadPath, Executor, FCtx, Func, Ob, Unsupported


def verify_function(program, lib, qual, timeout_ms=10000, only=None, shard=None, max_fail=0):
    """-> dict(function, hash, status, obligations=[...], error=None)"""
    t0 = time.time()
    fi = program.fn(qual)
    c = lib.lookup(qual)
    out = {"function": qual, "hash": fi.hash, "obligations": [], "error": None, "paths": 0, "vacuity": None, "contracts_used": [], "inlined": []}
    ex = Executor(program, lib, qual)
    ex._raises = []
    ex.write_hooks = []
    ex.node_write_hooks = []
    if hasattr(c, "prepare"):
        c.prepare(ex)
    try:
        n_setups = 0
        for p0, recv, args, kw, tag in c.setups(ex):
            n_setups += 1
            # vacuity guard: the precondition must be satisfiable
            vac = smt.satisfiable(p0.pc)
            if vac == z3.unsat:
                out["vacuity"] = "precondition of setup %r is unsatisfiable" % (tag,)
                out["error"] = out["vacuity"]
                return out
            f = Func(fi.qual, fi.node, fi.module, cls=fi.cls, recv=recv)
            q = p0.fork()
            q.env = ex.bind(f, args, kw, q)
            fctx = FCtx(qual, fi.module, fi.cls, on_yield=(lambda e, p, v, ln, c=c, tag=tag: c.on_yield(e, p, v, ln, tag)) if c.on_yield else None)
            res = ex.block(fi.node.body, q, fctx)
            out["paths"] += len(res)
            c.check(ex, p0, res, tag)
        if n_setups == 0:
            out["error"] = "contract has no setup"
            return out
    except Unsupported as u:
        out["error"] = "unsupported: %s" % u
        out["undecided"] = True
        return out
    except Exception:
        out["error"] = "engine: " + traceback.format_exc(limit=-8)
        out["crash"] = True
        return out
    out["contracts_used"] = sorted(ex.stats["contracts_used"])
    out["inlined"] = sorted(ex.stats["inlined"])
    out["gen_s"] = round(time.time() - t0, 3)
    # discharge, one conjunct per query
    seen = {}
    index = -1
    nfail = 0
    out["generated"] = 0
    for ob in ex.obs:
        goals = smt.split_goal(ob.goal)
        for gi, g in enumerate(goals):
            name = ob.name if len(goals) == 1 else "%s/%d" % (ob.name, gi)
            ident = "%s::%s" % (qual, name)
            k = seen.get(ident, 0)
            seen[ident] = k + 1
            ident_k = ident if k == 0 else "%s#%d" % (ident, k)
            index += 1
            out["generated"] += 1
            if only and not any(pat in ident_k for pat in only.split("|")):
                continue
            if shard and index % shard[1] != shard[0]:
                continue
            if max_fail and nfail >= max_fail:
                out["obligations"].append(dict(id=ident_k, kind=ob.kind, line=ob.lineno, status="skipped", time_s=0))
                continue
            r = smt.discharge(ob.premises, g, timeout_ms, hint_arrays=getattr(ob, "hint_arrays", None))
            if r["status"] != "proved":
                nfail += 1
            r.update(id=ident_k, kind=ob.kind, line=ob.lineno)
            r["time_s"] = round(r["time_s"], 4)
            out["obligations"].append(r)
    # obligations already reduced to True by z3's simplifier when they were generated
    if not only:
        for j, (name, lineno, kind) in enumerate(ex.trivial):
            if shard and j % shard[1] != shard[0]:
                continue
            out["obligations"].append(dict(id="%s::%s~%d" % (qual, name, j), kind=kind, line=lineno, status="proved", stage="s", backend="z3-simplify", time_s=0))
    out["generated"] += len(ex.trivial)
    out["wall_s"] = round(time.time() - t0, 3)
    return out
