"""
pyvc.crosscheck — translation validation of the symbolic executor against CPython
(DESIGN section 8): the same functions are run natively and by pyvc.sym on *concrete*
arguments (the executor constant-folds concrete values, so its result is concrete or a
closed z3 term), and results, raised exceptions and object states are compared.
Run by the thorough tier; a disagreement is a checker error (exit 3), never a violation.
"""
import random

import z3

from .extract import Program
from .lib import Lib, GenVal
from .sym import DeadPath, Executor, FCtx, Func, Obj, Opt, Path, Raw, Ref, Unsupported, is_z3


def concretise(v, p):
    """executor value -> python value"""
    if isinstance(v, Opt):
        n = v.none if isinstance(v.none, bool) else z3.is_true(z3.simplify(v.none))
        return None if n else concretise(v.val, p)
    if is_z3(v):
        s = z3.simplify(v)
        if z3.is_int_value(s):
            return s.as_long()
        if z3.is_true(s):
            return True
        if z3.is_false(s):
            return False
        if z3.is_bv_value(s):
            return s.as_long()
        if z3.is_string_value(s):
            return s.as_string().encode("latin-1") if not s.as_string().startswith("\\") else _unescape(s.as_string())
        raise ValueError("not closed: %s" % s)
    if isinstance(v, tuple):
        return tuple(concretise(x, p) for x in v)
    if isinstance(v, Ref):
        o = p.obj(v)
        if o.cls == "list":
            return [concretise(x, p) for x in o.f["items"]]
        return ("obj", o.cls)
    return v


def _unescape(s):
    import re

    return re.sub(r"\\u\{([0-9a-fA-F]+)\}", lambda m: chr(int(m.group(1), 16)), s).encode("latin-1")


def run_symbolic(prog, qual, recv_builder, args):
    lib = Lib(prog)  # no contracts, no loop specs: everything inlined / unrolled
    ex = Executor(prog, lib, qual)
    ex._raises = []
    fi = prog.fn(qual)
    p = Path()
    recv = recv_builder(p) if recv_builder else None
    f = Func(fi.qual, fi.node, fi.module, cls=fi.cls, recv=recv)
    p.env = ex.bind(f, list(args), {}, p)
    outs = []

    def on_yield(e, q, v, ln):
        q.out.append(v)
        return [(q, "normal", None)]

    fctx = FCtx(qual, fi.module, fi.cls, on_yield=on_yield)
    res = ex.block(fi.node.body, p, fctx)
    live = [(q, k, v) for q, k, v in res]
    if ex.obs:
        # a safety obligation on concrete data is decided by simplification
        for ob in ex.obs:
            g = z3.simplify(ob.goal)
            if not z3.is_true(g):
                return ("raise", ob.name), None, None
    if len(live) != 1:
        raise Unsupported("%d paths on concrete input" % len(live))
    q, kind, val = live[0]
    if kind == "raise":
        return ("raise", val[0]), q, recv
    if q.out:
        return ("yield", [concretise(v, q) for v in q.out]), q, recv
    return ("ok", concretise(val, q)), q, recv


def checks(repo):
    prog = Program(repo)
    import traph.helpers as H
    import traph.lru_trie.node as N

    r = random.Random(7)
    n = 0
    bad = []

    def cmp(name, native, sym):
        nonlocal n
        n += 1
        if native != sym:
            bad.append((name, repr(native)[:200], repr(sym)[:200]))

    # helpers.detailed_chunks_iter / base4_append / https_variation
    for _ in range(60):
        size = r.choice([1, 2, 3, 5, 74])
        s = bytes(r.randrange(256) for _ in range(r.choice([0, 1, size - 1 if size > 1 else 0, size, size + 1, 2 * size, 2 * size + 1, r.randrange(0, 40)])))
        nat = ("yield", [tuple(x) for x in H.detailed_chunks_iter(size, s)])
        sym, _, _ = run_symbolic(prog, "detailed_chunks_iter", None, [size, s])
        cmp("detailed_chunks_iter(%d,%r)" % (size, s), nat, sym)
    for _ in range(40):
        a, b = r.randrange(0, 10 ** 6), r.randrange(1, 4)
        cmp("base4_append", ("ok", H.base4_append(a, b)), run_symbolic(prog, "base4_append", None, [a, b])[0])
    for s in [b"s:http|h:com|", b"s:https|h:com|p:s:http|", b"s:ftp|h:x|", b"", b"s:http|", b"xs:http|"]:
        cmp("https_variation(%r)" % s, ("ok", H.https_variation(s)), run_symbolic(prog, "https_variation", None, [s])[0])
    # node flag helpers on a data list
    for _ in range(60):
        flags = r.randrange(256)
        pos = r.randrange(8)
        for fn in ("flag", "unflag", "test"):
            data = [b"x", flags] + [0] * 7
            nd = list(data)
            native = getattr(N, fn)(nd, 1, pos)

            def build(p, data=data):
                return None

            lib_p = Path()
            res = run_symbolic_fn(prog, fn, [list(data), 1, pos])
            cmp("%s(%d,%d)" % (fn, flags, pos), (native, nd[1]), res)
    # LRUTrieNode.set_stem / stem on a default node
    for ln in [0, 1, 73, 74, 75, 80, 148, 149, 230]:
        stem = bytes(65 + (i % 26) for i in range(ln))
        node = N.LRUTrieNode(None, stem=stem)
        nat = (node.data[0], node.tail, node.data[1], node.stem())

        def build(p):
            lst = p.new_obj("list", {"items": [b"", 128] + [0] * 7})
            return p.new_obj("LRUTrieNode", {"storage": None, "block": None, "exists": False, "tail": b"", "data": lst})

        (k, v), q, recv = run_symbolic(prog, "LRUTrieNode.set_stem", build, [stem])
        o = q.obj(recv)
        d = [concretise(x, q) for x in q.obj(o.f["data"]).f["items"]]
        t = concretise(o.f["tail"], q)
        cmp("set_stem(len %d)" % ln, nat[:3], (d[0], t, d[1]))
    return n, bad


def run_symbolic_fn(prog, name, args):
    """module-level function of node.py mutating its list argument: returns (result, data[1])"""
    lib = Lib(prog)
    ex = Executor(prog, lib, name)
    ex._raises = []
    fi = prog.fns["traph.lru_trie.node." + name]
    p = Path()
    lst = p.new_obj("list", {"items": list(args[0])})
    f = Func(fi.qual, fi.node, fi.module)
    p.env = ex.bind(f, [lst] + list(args[1:]), {}, p)
    res = ex.block(fi.node.body, p, FCtx(name, fi.module, None))
    (q, kind, val), = res
    return (concretise(val, q) if kind == "return" else None, concretise(q.obj(lst).f["items"][1], q))


def main(repo="/repo"):
    n, bad = checks(repo)
    return n, bad


if __name__ == "__main__":
    import sys

    n, bad = main(sys.argv[1] if len(sys.argv) > 1 else "/repo")
    print("crosscheck: %d comparisons, %d disagreements" % (n, len(bad)))
    for b in bad[:10]:
        print("  ", b)
    sys.exit(3 if bad else 0)
