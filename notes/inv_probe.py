# Probe: does Inv (DESIGN 3.3) as formulated hold on real stores? Ghost state is *recomputed* from the bytes.
import sys, struct, math, random, tempfile, shutil
sys.path.insert(0,'/tmp/x')
import e3
from e3 import *
FMT="75pBI6Q"
def check_inv(t, m):
    if t.in_memory: tb=bytes(t.lru_trie_storage.array); lb=bytes(t.links_store_storage.array)
    else:
        t.lru_trie_file.flush(); t.link_store_file.flush()
        tb=open(t.lru_trie_path,'rb').read(); lb=open(t.link_store_path,'rb').read()
    assert len(tb)%128==0 and len(tb)>=128 and len(lb)%16==0 and len(lb)>=16      # I0
    B={a:struct.unpack(FMT,tb[a:a+128]) for a in range(128,len(tb),128)}
    fl=lambda a,k:(B[a][1]>>k)&1
    PAGE,CRAWLED,LINKED,DELETED,RULE,HAS_TAIL,IS_TAIL,NOCHILD=range(8)
    heads=[a for a in B if not fl(a,IS_TAIL)]
    key={}
    for a in B:                                                                   # I1
        st,flags,we,l,r,c,p,o,i=B[a]
        if fl(a,HAS_TAIL): assert a+128 in B and fl(a+128,IS_TAIL) and len(st)==74,('I1a',a)
        if fl(a,IS_TAIL):
            assert a-128 in B and fl(a-128,HAS_TAIL),('I1b',a)
            assert (we,l,r,c,p,o,i)==(0,)*7 and not fl(a,PAGE) and not fl(a,CRAWLED) and not fl(a,RULE),('I1c',a)
            assert len(st)>=1
    for a in heads:
        k=B[a][0]; b=a
        while fl(b,HAS_TAIL): b+=128; k+=B[b][0]
        key[a]=k
        assert k.endswith(b'|') and k.count(b'|')==1 and len(k)>=1,('I7wf',k)
    hs=set(heads)
    refs={}
    for a in heads:                                                               # I2,I3,I5
        st,flags,we,l,r,c,p,o,i=B[a]
        for nm,x in (('L',l),('R',r),('C',c)):
            assert x==0 or (x in hs and x>a),('I2',a,nm,x)
            if x:
                assert x not in refs,('I5 double ref',x); refs[x]=(a,nm)
        assert p==0 or (p in hs and p<a),('I2p',a)
        if c: assert B[c][6]==a,('I3c',a)
        if l: assert B[l][6]==p
        if r: assert B[r][6]==p
    if heads: assert 128 in hs and B[128][6]==0
    assert set(refs)==hs-{128},('I5 unreferenced',hs-{128}-set(refs))
    # I4 / I6 via computed bounds
    lo={};hi={}
    NEG,POS=None,None
    def lt(x,y):  # x<y with None sentinels: lo None=-inf, hi None=+inf handled by caller
        return x<y
    roots=[128]+[B[a][5] for a in heads if B[a][5]] if heads else []
    for rt in roots:
        lo[rt]=None;hi[rt]=None
        st=[rt]
        while st:
            a=st.pop(); l,r=B[a][3],B[a][4]
            assert (lo[a] is None or lo[a]<key[a]) and (hi[a] is None or key[a]<hi[a]),('I4',a)
            if l: lo[l]=lo[a];hi[l]=key[a];st.append(l)
            if r: lo[r]=key[a];hi[r]=hi[a];st.append(r)
    assert set(lo)==hs
    groups={}
    for a in heads: groups.setdefault(B[a][6],[]).append(a)
    def inside(k,l_,h_): return (l_ is None or l_<k) and (h_ is None or k<h_)
    for g,ms in groups.items():
        ks=[key[a] for a in ms]; assert len(ks)==len(set(ks)),'I6 distinct'
        for a in ms:
            for b in ms:
                if a==b: continue
                if inside(key[b],lo[a],key[a]): assert B[a][3]!=0,('GAP-L',a,b)
                if inside(key[b],key[a],hi[a]): assert B[a][4]!=0,('GAP-R',a,b)
    # I7 view
    lru={}
    for a in sorted(heads):
        p=B[a][6]; lru[a]=(lru[p] if p else b'')+key[a]
    assert len(set(lru.values()))==len(lru) and set(lru.values())==m.stored,('I7',set(lru.values())^m.stored)
    # I8
    for a in heads:
        assert bool(fl(a,PAGE))==(lru[a] in m.pages),('I8p',lru[a])
        assert bool(fl(a,CRAWLED))==bool(m.pages.get(lru[a],False)),('I8c',lru[a])
        assert B[a][2]==m.pref.get(lru[a],0),('I8w',lru[a])
    # I9
    for a in heads:
        p=B[a][6]
        if p and (B[a][2]!=0 or not fl(a,NOCHILD)): assert not fl(p,NOCHILD),('I9',lru[a])
    # I10
    S={b:struct.unpack('QQ',lb[b:b+16]) for b in range(16,len(lb),16)}
    def chain(b):
        out=[]
        while b: 
            assert b in S; tg,pv=S[b]; assert pv==0 or (pv in S and pv<b),('I10 prev',b); out.append(tg); b=pv
        return out
    M=Counter(); Min=Counter()
    for a in heads:
        o,i=B[a][7],B[a][8]
        if o or i: assert fl(a,PAGE)
        for tg in chain(o): assert tg in hs and fl(tg,PAGE); M[(lru[a],lru[tg])]+=1
        for sg in chain(i): Min[(lru[sg],lru[a])]+=1
    assert M==m.links and Min==m.links,('I10',M,Min,m.links)
    assert len(lb)==16*(1+2*sum(m.links.values()))
    # I11
    assert len(tb)//128==1+sum(max(1,math.ceil(len(stems(l)[-1])/74)) for l in m.stored),'I11'
    return len(heads)
e3.check=lambda t,m,r: check_inv(t,m)
import e5
e5.check=e3.check
if __name__=='__main__':
    bad=0
    for s in range(int(sys.argv[1]),int(sys.argv[2])):
        if not e5.run(s,nops=25): bad+=1
        if bad>=3: break
    print('done',bad)
