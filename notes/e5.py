import sys, tempfile, shutil, warnings, random, os
sys.path.insert(0,'/tmp/x')
import e3
from e3 import *
LONG=(b"a",b"b",b"c",b"ab",b"}",b"\x00",b"\xff", b"L"*73, b"M"*74, b"N"*75, b"O"*147,b"P"*148, b"Q"*150)
def snap(t):
    if t.in_memory: return bytes(t.lru_trie_storage.array), bytes(t.links_store_storage.array)
    t.lru_trie_file.flush(); t.link_store_file.flush()
    return open(t.lru_trie_path,'rb').read(), open(t.link_store_path,'rb').read()
def run(seed,nops=20):
    r=random.Random(seed)
    d=tempfile.mkdtemp()
    kw=dict(default_webentity_creation_rule=NOMATCH, webentity_creation_rules={})
    t=Traph(folder=d, **kw); mt=Traph(folder=None, **kw)
    m=Model(); hist=[]; maxid=0
    alpha=LONG if seed%2 else None
    def rl(depth=(1,4)):
        return rand_lru(r,depth,alpha) if alpha else rand_lru(r,depth)
    try:
        for i in range(nops):
            op=r.choice(['page','page','links','batch','create','addp','rmp','del','move','reopen'])
            def both(f):
                a=f(t); b=f(mt); return a,b
            if op=='reopen':
                hist.append((op,)); t.close(); t=Traph(folder=d,**kw)
            elif op=='page':
                l=rl(); c=r.random()<.4; hist.append((op,l,c))
                a,b=both(lambda x:x.add_page(l,crawled=c)); new=m.add_page(l,c); assert a.nb_created_pages==b.nb_created_pages==int(new)
            elif op=='links':
                ls=[(rl(),rl()) for _ in range(r.randint(0,4))]
                if ls and r.random()<.3: ls.append(ls[0])
                hist.append((op,ls))
                a,b=both(lambda x:x.add_links(ls))
                for s_,t_ in ls: m.add_page(s_); m.add_page(t_); m.links[(s_,t_)]+=1
                assert a.nb_created_pages==b.nb_created_pages
            elif op=='batch':
                data={rl():[rl() for _ in range(r.randint(0,3))] for _ in range(r.randint(1,3))}
                hist.append((op,data))
                a,b=both(lambda x:x.index_batch_crawl(data))
                for s_,bs in data.items():
                    m.add_page(s_,True)
                    for b_ in bs: m.add_page(b_); m.links[(s_,b_)]+=1
            elif op=='create':
                ps=list(set(rl((1,3)) for _ in range(r.randint(1,2)))); hist.append((op,ps))
                try:
                    a=t.create_webentity(ps); b=mt.create_webentity(ps)
                    assert a.created_webentities==b.created_webentities
                    (w,pp),=a.created_webentities.items(); assert w>maxid,(w,maxid); maxid=w
                    for p in ps: m.pref[p]=w
                except TraphException:
                    assert any(p in m.pref for p in ps)
                    try: mt.create_webentity(ps); assert 0
                    except TraphException: pass
                for p in ps: m.store(p)
            elif op=='addp' and m.pref:
                p=rl((1,3)); w=r.choice(list(m.pref.values())); hist.append((op,p,w))
                for x in (t,mt):
                    try: x.add_prefix_to_webentity(p,w); ok=True
                    except TraphException: ok=False
                assert ok==(p not in m.pref)
                if ok: m.pref[p]=w
                m.store(p)
            elif op=='rmp' and m.pref:
                p=r.choice(list(m.pref)); hist.append((op,p))
                both(lambda x:x.remove_prefix_from_webentity(p,m.pref[p])); del m.pref[p]
            elif op=='del' and m.pref:
                w=r.choice(list(m.pref.values())); ps=[p for p,x in m.pref.items() if x==w]; hist.append((op,w,ps))
                both(lambda x:x.delete_webentity(w,ps))
                for p in ps: del m.pref[p]
            elif op=='move' and len(set(m.pref.values()))>1:
                p=r.choice(list(m.pref)); w=r.choice([x for x in m.pref.values() if x!=m.pref[p]]); hist.append((op,p,w))
                both(lambda x:x.move_prefix_to_webentity(p,w,m.pref[p])); m.pref[p]=w
            s1=snap(t); s2=snap(mt)
            assert s1==s2,'C15 stores differ'
            assert len(s1[0])%128==0 and len(s1[1])%16==0
            st=random.getstate()
            check(t,m,random.Random(seed*1000+i)); 
            assert snap(t)==s1,'C14 file changed by queries'
            check(mt,m,random.Random(seed*1000+i)); assert snap(mt)==s2,'C14 mem'
            # C19 accounting
            import math
            exp=1+sum(max(1,math.ceil(len(stems(l)[-1])/74)) for l in m.stored)
            assert len(s1[0])//128==exp,('C19',len(s1[0])//128,exp)
            assert len(s1[1])//16==1+2*sum(m.links.values())
    except Exception as e:
        print('SEED',seed,'FAIL',type(e).__name__,str(e)[:400]); 
        for h in hist[-6:]: print('   ',str(h)[:300])
        traceback.print_exc(limit=4)
        return False
    finally:
        t.close(); shutil.rmtree(d)
    return True
if __name__=='__main__':
    a,b=int(sys.argv[1]),int(sys.argv[2]); bad=0
    for s in range(a,b):
        if not run(s): bad+=1
        if bad>=3: break
    print('done',bad)
