import sys, tempfile, shutil, warnings
sys.path.insert(0,'/tmp/x/repo')
from traph import Traph, TraphException
from traph.helpers import *
print(list(detailed_chunks_iter(74, b'a'*10)))
print([ (a,len(b)) for a,b in detailed_chunks_iter(74, b'a'*74)])
print([ (a,len(b)) for a,b in detailed_chunks_iter(74, b'a'*75)])
print([ (a,len(b)) for a,b in detailed_chunks_iter(74, b'')])
RULE=b"(s:[a-zA-Z]+\\|(t:[0-9]+\\|)?(h:[^\\|]+\\|(h:[^\\|]+\\|)|h:(localhost|(\\d{1,3}\\.){3}\\d{1,3}|\\[[\\da-f]*:[\\da-f:]*\\])\\|))"
d=tempfile.mkdtemp()
t=Traph(folder=d, default_webentity_creation_rule=RULE, webentity_creation_rules={})
for n in (74,75,100,148,149,222,223):
    before=len(t.lru_trie_storage)//128
    lru=b"s:http|h:com|h:x|p:"+b"a"*(n-3)+bytes([65+n%20])+b"|"
    assert len(lru.split(b'|')[-2])+1==n+0 or True
    stem=list(lru_iter(lru))[-1]
    t.add_page(lru)
    after=len(t.lru_trie_storage)//128
    print('stemlen',len(stem),'blocks added',after-before, 'found', t.lru_trie.lru_node(lru) is not None and t.lru_trie.lru_node(lru).stem()==stem)
print(t.count_pages(), [l for n,l in t.pages_iter()]==sorted([l for n,l in t.pages_iter()]))
print(t.lru_trie.metrics())
t.close()
# memory backend
m=Traph(folder=None, default_webentity_creation_rule=RULE, webentity_creation_rules={})
m.add_page(b"s:http|h:com|h:x|p:short|")
try:
    m.add_page(b"s:http|h:com|h:x|p:"+b"a"*100+b"|")
    m.add_page(b"s:http|h:com|h:x|p:"+b"a"*100+b"|")
    print('mem long ok', m.count_pages())
except Exception as e:
    print('MEM long stem fails:', type(e), e)
shutil.rmtree(d)
