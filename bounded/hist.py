"""
History executor for the bounded stand-in: applies JSON-serialisable operations to
the real Traph (file, memory, or both) and to the reference model, comparing the
write reports on the way (C01 counts, C06 creations, C12 ids).
"""
import os
import random
import shutil
import tempfile

from .common import (
    NOMATCH,
    RX,
    Failure,
    expect,
    open_traph,
    snap,
    rand_lru,
    rand_web_lru,
    SHORT,
    LONG,
    stems_of,
)
from .model import Model


def _TE():
    from traph import TraphException

    return TraphException


class Run(object):
    """cfg: backend file|memory|twin ; default: rule bytes ; rules: dict"""

    def __init__(self, cfg):
        from traph.helpers import lru_variations

        self.cfg = cfg
        self.backend = cfg.get("backend", "file")
        self.default = cfg.get("default", NOMATCH)
        self.rules = dict(cfg.get("rules", {}))
        self.dir = None
        self.ts = []  # implementations under test; ts[0] is the primary
        if self.backend in ("file", "twin"):
            self.dir = tempfile.mkdtemp(prefix="vb_")
            self.ts.append(open_traph(self.dir, self.default, self.rules))
        if self.backend in ("memory", "twin"):
            self.ts.append(open_traph(None, self.default, self.rules))
        self.m = Model(self.default, self.rules, variations=lru_variations)
        self.issued = []  # every id ever issued since creation / last clear (C12)
        self.known_notes = []

    @property
    def t(self):
        return self.ts[0]

    def close(self):
        for t in self.ts:
            try:
                t.close()
            except Exception:
                pass
        if self.dir:
            shutil.rmtree(self.dir, ignore_errors=True)

    # ------------------------------------------------------------------ helpers
    def _all(self, f):
        """run f on every implementation; outcomes (value or exception class name)
        must agree (C15)"""
        outs = []
        for t in self.ts:
            try:
                outs.append(("ok", f(t)))
            except _TE() as e:
                outs.append(("TraphException", None))
        kinds = set(o[0] for o in outs)
        expect(len(kinds) == 1, "the on-disk index and its in-memory twin disagree on success/failure", [o[0] for o in outs])
        return outs

    def _reports_equal(self, outs):
        if len(outs) < 2 or outs[0][0] != "ok":
            return
        a, b = outs[0][1], outs[1][1]
        if hasattr(a, "nb_created_pages"):
            expect(
                a.nb_created_pages == b.nb_created_pages
                and a.created_webentities == b.created_webentities,
                "reports differ between the on-disk index and its in-memory twin (C11: reopened vs never closed; C15: file vs memory)",
                [repr(a), repr(b)],
            )
        else:
            expect(a == b, "results differ between the on-disk index and its in-memory twin", [repr(a), repr(b)])

    def _check_creations(self, rep, expected):
        """expected: list of (K, attach-list) in creation order"""
        got = sorted(rep.created_webentities.items())
        expect(
            len(got) == len(expected),
            "C06: number of created webentities",
            {"reported": repr(got), "expected": repr(expected)},
        )
        for (w, ps), (K, attach) in zip(got, expected):
            expect(
                set(ps) == set(attach) and len(ps) == len(set(ps)),
                "C06: created webentity does not own exactly K and its free variations",
                {"reported": repr(ps), "expected": repr(attach), "K": repr(K)},
            )
            self._fresh_id(w)
            self.m.commit_creation(w, attach)

    def _fresh_id(self, w):
        expect(
            isinstance(w, int) and all(w > x for x in self.issued),
            "C12: id not strictly greater than every id issued before",
            {"id": w, "issued": self.issued[-5:]},
        )
        self.issued.append(w)

    def _add_pages_model(self, seq):
        """seq: list of (lru, crawled) in the order the API must insert them.
        returns (nb_new, creations)"""
        nn = 0
        creations = []
        for lru, crawled in seq:
            new, create, attach = self.m.add_page(lru, crawled)
            nn += int(new)
            if create:
                creations.append((create, attach))
                # ids are not known yet; reserve by attaching a placeholder so that
                # later pages of the same request see the prefix as owned
                for p in attach:
                    self.m.pref[p] = -1
                    self.m.store(p)
        return nn, creations

    # ------------------------------------------------------------------ ops
    def apply(self, op):
        k = op[0]
        m = self.m
        if k == "page":
            _, lru, crawled = op
            outs = self._all(lambda t: t.add_page(lru, crawled=crawled))
            self._reports_equal(outs)
            nn, cre = self._add_pages_model([(lru, crawled)])
            rep = outs[0][1]
            expect(rep.nb_created_pages == nn, "C01: report counts new pages", [rep.nb_created_pages, nn])
            self._check_creations(rep, cre)
        elif k == "pages":
            _, lrus, crawled = op
            outs = self._all(lambda t: t.add_pages(lrus, crawled=crawled))
            self._reports_equal(outs)
            nn, cre = self._add_pages_model([(l, crawled) for l in lrus])
            rep = outs[0][1]
            expect(rep.nb_created_pages == nn, "C01: report counts new pages", [rep.nb_created_pages, nn])
            self._check_creations(rep, cre)
        elif k == "links":
            _, pairs = op
            pairs = [tuple(p) for p in pairs]
            outs = self._all(lambda t: t.add_links(pairs))
            self._reports_equal(outs)
            seq = []
            seen = set()
            for s, t_ in pairs:
                for x in (s, t_):
                    if x not in seen:
                        seen.add(x)
                        seq.append((x, False))
            nn, cre = self._add_pages_model(seq)
            for s, t_ in pairs:
                m.links[(s, t_)] += 1
            rep = outs[0][1]
            expect(rep.nb_created_pages == nn, "C01: report counts new pages", [rep.nb_created_pages, nn])
            self._check_creations(rep, cre)
        elif k == "batch":
            _, items = op  # list of [source, [targets]] (dict order)
            data = {}
            for s, ts_ in items:
                data[s] = list(ts_)
            outs = self._all(lambda t: t.index_batch_crawl(dict(data)))
            self._reports_equal(outs)
            seq = []
            seen = set()
            extra_crawled = []
            for s, ts_ in data.items():
                if s not in seen:
                    seen.add(s)
                    seq.append((s, True))
                else:
                    extra_crawled.append(s)
                for x in ts_:
                    if x not in seen:
                        seen.add(x)
                        seq.append((x, False))
            nn, cre = self._add_pages_model(seq)
            for s in extra_crawled:
                m.pages[s] = True
            for s, ts_ in data.items():
                for x in ts_:
                    m.links[(s, x)] += 1
            rep = outs[0][1]
            expect(rep.nb_created_pages == nn, "C01: report counts new pages", [rep.nb_created_pages, nn])
            self._check_creations(rep, cre)
        elif k == "create":
            _, ps = op
            outs = self._all(lambda t: t.create_webentity(ps))
            self._reports_equal(outs)
            owned = any(p in m.pref for p in ps)
            if outs[0][0] == "ok":
                expect(not owned, "C04: attaching an already attached prefix was not refused", repr(ps))
                rep = outs[0][1]
                expect(len(rep.created_webentities) == 1, "C12: one creation request, one id", repr(rep))
                ((w, pp),) = rep.created_webentities.items()
                expect(set(pp) == set(ps), "C12: one id shared by all the prefixes", [repr(pp), repr(ps)])
                self._fresh_id(w)
                m.commit_creation(w, ps)
            else:
                expect(owned, "C04: creation refused although no prefix was attached", repr(ps))
            for p in ps:
                m.store(p)
        elif k == "addp":
            _, p, w = op
            outs = self._all(lambda t: t.add_prefix_to_webentity(p, w))
            ok = outs[0][0] == "ok"
            expect(ok == (p not in m.pref), "C04: add_prefix refusal iff already attached", [repr(p), ok])
            if ok:
                m.pref[p] = w
            m.store(p)
        elif k == "rmp":
            _, p, w = op
            outs = self._all(lambda t: t.remove_prefix_from_webentity(p, w))
            cur = m.pref.get(p)
            should_ok = (not w) or cur == w
            expect((outs[0][0] == "ok") == should_ok, "C04: remove_prefix outcome", [repr(p), w, cur])
            if should_ok and p in m.pref:
                del m.pref[p]
            m.store(p)
        elif k == "del":
            _, w, ps = op
            outs = self._all(lambda t: t.delete_webentity(w, ps))
            expect(outs[0][0] == "ok", "C04: delete_webentity of own prefixes failed", [w, repr(ps)])
            for p in ps:
                m.pref.pop(p, None)
        elif k == "move":
            _, p, wt, ws = op
            outs = self._all(lambda t: t.move_prefix_to_webentity(p, wt, ws))
            expect(outs[0][0] == "ok", "C04: move_prefix failed", [repr(p), wt, ws])
            m.pref[p] = wt
            m.store(p)
        elif k == "rule":
            _, anchor, name = op
            pat = RX[name]
            before_pages = sorted(l for l in m.pages if l.startswith(anchor))
            outs = self._all(lambda t: t.add_webentity_creation_rule(anchor, pat))
            self._reports_equal(outs)
            rep = outs[0][1]
            m.set_rule(anchor, pat)
            self.rules[anchor] = pat
            # same effect as re-inserting, in some order, every page beneath the anchor:
            # follow the order of the issued ids
            for w, ps in sorted(rep.created_webentities.items()):
                found = None
                for l in before_pages:
                    E, K, create = m.decide(l)
                    if create:
                        attach = list(dict.fromkeys(v for v in m.variations(create) if v not in m.pref))
                        if set(attach) == set(ps):
                            found = (create, attach)
                            break
                expect(
                    found is not None,
                    "C06: rule installation created a webentity no re-insertion would create",
                    {"id": w, "prefixes": repr(ps)},
                )
                self._fresh_id(w)
                m.commit_creation(w, found[1])
            for l in before_pages:
                E, K, create = m.decide(l)
                expect(create is None, "C06: rule installation is not a fixpoint of re-insertion", repr(l))
            expect(rep.nb_created_pages == 0, "C01: rule installation reported new pages", rep.nb_created_pages)
        elif k == "rmrule":
            _, anchor = op
            self._all(lambda t: t.remove_webentity_creation_rule(anchor))
            m.rules.pop(anchor, None)
            m.crx.pop(anchor, None)
            self.rules.pop(anchor, None)
        elif k == "reopen":
            if self.dir is None:
                return
            self.ts[0].close()
            self.ts[0] = open_traph(self.dir, self.default, self.rules)
        elif k == "clear":
            # the clear request is given the initial configuration's rules
            rules = dict(self.cfg.get("rules", {}))
            for t in self.ts:
                t.clear(
                    default_webentity_creation_rule=self.default,
                    webentity_creation_rules=dict(rules),
                )
            self.m = Model(self.default, rules, variations=m.variations)
            self.rules = rules
            self.issued = []
        else:
            raise ValueError(op)
        # placeholders must all be resolved
        assert -1 not in self.m.pref.values(), "harness: unresolved creation placeholder"


# ---------------------------------------------------------------------- generators
def gen_history(seed, nops, alpha="short", mode="plain", kinds=None, reopen=False, clear=False):
    """seeded random history; ops reference only data available in the model at
    generation time (a shadow model tracks prefixes/ids optimistically: ids are
    assigned 1,2,3... as the implementation is required to)"""
    r = random.Random(seed)
    A = {"short": SHORT, "long": LONG, "tiny": (b"a", b"b"), "sameblock": (b"S" * 80 + b"c", b"S" * 80 + b"f", b"S" * 80 + b"m", b"S" * 74 + b"z", b"S" * 74, b"a")}[alpha] if isinstance(alpha, str) else alpha
    web = mode == "rules"

    def rl(depth=(1, 4)):
        if web:
            return rand_web_lru(r)
        return rand_lru(r, depth, A)

    kinds = list(
        kinds
        or ["page", "page", "pages", "links", "batch", "create", "createpage", "addp", "rmp", "del", "move"]
    )
    if reopen:
        kinds.append("reopen")
    if clear:
        kinds.append("clear")
    ops = []
    # shadow of prefixes -> id to generate meaningful edits.  In rules mode ids are
    # unpredictable (automatic creations), so edits there use ids discovered at run
    # time: encoded symbolically as ("@", k) = "k-th currently attached prefix".
    for _ in range(nops):
        k = r.choice(kinds)
        if k == "page":
            ops.append(["page", rl(), r.random() < 0.4])
        elif k == "pages":
            ops.append(["pages", [rl() for _ in range(r.randint(0, 3))], r.random() < 0.5])
        elif k == "links":
            ls = [[rl(), rl()] for _ in range(r.randint(0, 4))]
            if ls and r.random() < 0.4:
                ls.append(list(ls[0]))
            if r.random() < 0.3:
                x = rl()
                ls.append([x, x])
            if ls and r.random() < 0.3:
                ls.append([ls[0][1], ls[0][0]])
            ops.append(["links", ls])
        elif k == "batch":
            items = []
            seen = set()
            for _ in range(r.randint(1, 3)):
                s = rl()
                if s in seen:
                    continue
                seen.add(s)
                tg = [rl() for _ in range(r.randint(0, 3))]
                if tg and r.random() < 0.3:
                    tg.append(tg[0])
                if r.random() < 0.2:
                    tg.append(s)
                items.append([s, tg])
            if len(items) > 1 and r.random() < 0.4:
                items[0][1].append(items[1][0])  # a page both source and target
            ops.append(["batch", items])
        elif k == "create":
            ps = list(dict.fromkeys(rl((1, 3)) for _ in range(r.randint(1, 2))))
            ops.append(["create", ps])
        elif k.lstrip("@") in ("addp", "rmp", "del", "move", "createpage"):
            ops.append(["@" + k.lstrip("@"), rl((1, 3)), r.randint(0, 7), r.randint(0, 7)])
        elif k == "rule":
            a = rand_web_lru(r)
            a = b"".join(stems_of(a)[: r.randint(2, 4)])
            ops.append(["rule", a, r.choice(["path1", "path2", "subdomain", "lowerpath1"])])
        elif k == "reopen":
            ops.append(["reopen"])
        elif k == "clear":
            ops.append(["clear"])
        else:
            raise ValueError("unknown operation kind %r in a history plan" % (k,))
    return ops


def resolve_op(op, m):
    """turn a symbolic '@' op into a concrete one against the current model; returns
    None when not applicable in the current state"""
    k = op[0]
    if not k.startswith("@"):
        return op
    _, lru, i, j = op
    prefs = sorted(m.pref)
    ids = sorted(set(m.pref.values()))
    if k == "@createpage":
        # a webentity whose prefix is itself an indexed page (possibly nested)
        cands = [l for l in sorted(m.pages) if l not in m.pref]
        if not cands:
            return None
        return ["create", [cands[i % len(cands)]]]
    if k == "@addp":
        if not ids:
            return None
        return ["addp", lru if i % 3 else (prefs[i % len(prefs)]), ids[j % len(ids)]]
    if k == "@rmp":
        if not prefs:
            return None
        p = prefs[i % len(prefs)]
        return ["rmp", p, m.pref[p] if j % 4 else False]
    if k == "@del":
        if not ids:
            return None
        w = ids[i % len(ids)]
        return ["del", w, [p for p in prefs if m.pref[p] == w]]
    if k == "@move":
        if not ids:
            return None
        if i % 3 == 0:
            # moving an LRU that is not (or not known to be) a prefix, source unchecked
            return ["move", lru, ids[j % len(ids)], False]
        if len(ids) < 2:
            return None
        p = prefs[i % len(prefs)]
        others = [x for x in ids if x != m.pref[p]]
        return ["move", p, others[j % len(others)], m.pref[p]]
    raise ValueError(op)
