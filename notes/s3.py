# Spike: address-induction lemma L-REACH + worklist loop step, in z3.
from z3 import *
import time
A=IntSort()
left,right,child=[Function(n,A,A) for n in ('left','right','child')]
ref=Function('ref',A,A); slot=Function('slot',A,IntSort())
V=Function('V',A,BoolSort())
size=Int('size'); a,b=Ints('a b')
H=lambda x: And(x>=1,x<size)   # heads (block index model)
inv=[ForAll([a],Implies(H(a),And(Or(left(a)==0,And(H(left(a)),left(a)>a)),Or(right(a)==0,And(H(right(a)),right(a)>a)),Or(child(a)==0,And(H(child(a)),child(a)>a))))),
     ForAll([a],Implies(And(H(a),a!=1),And(H(ref(a)),ref(a)<a,Or(And(slot(a)==0,left(ref(a))==a),And(slot(a)==1,right(ref(a))==a),And(slot(a)==2,child(ref(a))==a)))))]
closed=ForAll([a],Implies(And(H(a),V(a)),And(Or(left(a)==0,V(left(a))),Or(right(a)==0,V(right(a))),Or(child(a)==0,V(child(a))))))
x=Int('x')
s=Solver(); s.set('timeout',30000)
s.add(inv+[closed,V(1),size>1,H(x),ForAll([b],Implies(And(H(b),b<x),V(b))),Not(V(x))])
t=time.time(); print('L-REACH step',s.check(),round(time.time()-t,3))
# worklist step: pop n from stack (Seq), mark visited, push successors; invariant: for all visited a, each succ is visited or in stack
St=SeqSort(A)
stack=Const('stack',St); n=Int('n')
V2=Function('V2',A,BoolSort())
inS=lambda st,y: Contains(st,Unit(y))
invW=lambda Vf,st: ForAll([a],Implies(And(H(a),Vf(a)),And(*[Or(f(a)==0,Vf(f(a)),inS(st,f(a))) for f in (left,right,child)])))
rest=Const('rest',St)
st2=Concat(rest, If(right(n)!=0,Unit(right(n)),Empty(St)), If(left(n)!=0,Unit(left(n)),Empty(St)), If(child(n)!=0,Unit(child(n)),Empty(St)))
s=Solver(); s.set('timeout',60000)
s.add(inv+[invW(V,stack), stack==Concat(rest,Unit(n)), H(n), ForAll([a],V2(a)==Or(V(a),a==n)), Not(invW(V2,st2))])
t=time.time(); print('worklist step (seq stack)',s.check(),round(time.time()-t,3))
# same with stack as a set (Array A Bool) abstraction
InSt=Function('InSt',A,BoolSort()); InSt2=Function('InSt2',A,BoolSort())
invW2=lambda Vf,S_: ForAll([a],Implies(And(H(a),Vf(a)),And(*[Or(f(a)==0,Vf(f(a)),S_(f(a))) for f in (left,right,child)])))
s=Solver(); s.set('timeout',60000)
s.add(inv+[invW2(V,InSt), InSt(n), H(n), ForAll([a],V2(a)==Or(V(a),a==n)),
           ForAll([a],InSt2(a)==Or(And(InSt(a),a!=n),And(a!=0,Or(a==left(n),a==right(n),a==child(n))))), Not(invW2(V2,InSt2))])
t=time.time(); print('worklist step (set stack)',s.check(),round(time.time()-t,3))
# L-REACH with explicit ground instances (hints): ref-axiom at x, IH at ref(x), closed at ref(x)
def inst(q,*ts): return substitute_vars(q.body(),*reversed(ts))
r=ref(x)
s=Solver(); s.set('timeout',30000)
IH=ForAll([b],Implies(And(H(b),b<x),V(b)))
s.add([inst(inv[1],x), inst(IH,r), inst(closed,r), V(1), size>1, H(x), Not(V(x))])
t=time.time(); print('L-REACH step with hints',s.check(),round(time.time()-t,3))
# and with patterns instead of hints
s=Solver(); s.set('timeout',30000); s.set('auto_config',False); s.set('smt.mbqi',False)
s.add(inv+[closed,V(1),size>1,H(x),IH,Not(V(x))])
t=time.time(); print('L-REACH e-matching only',s.check(),round(time.time()-t,3))
