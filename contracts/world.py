"""
The formal vocabulary of DESIGN section 3, as z3 terms over a Path's world `p.w`:

  trie store T   T.stem (payload, bytes)  T.flags (8 bits)  T.we T.left T.right T.child
                 T.parent T.outl T.inl (integers), T.size (bytes), T.hid (header: last id)
  link store L   L.target L.prev, L.size
  ghost      G   G.rest[a]   the tail string that block a's successors spell (so that
                             key(a) = T.stem[a] ++ G.rest[a] for a head a)
                 G.lo/G.hi   open key interval of a head inside its sibling BST (reals
                             through the order embedding ORD)
                 G.lru[a]    the LRU (bytes) spelled by the stems root..a
Addresses are integers with an alignment predicate AL (no `mod`, decision E1).

The abstract `Store` object (cls "Store") is what node / header / trie code is
verified against; contracts/storage.py proves that the three back-ends implement it at
byte level, and the struct codec (A2) connects bytes to fields.
"""
import z3

from pyvc.sym import bcat, blen, BOOL, BV8, BYTES, INT, REAL, ORD, DeadPath, Obj, Opt, Path, Raw, Ref, Unsupported, fresh, is_z3, to_z3

NODE_FMT = "75pBI6Q"
LINK_FMT = "QQ"
THDR_FMT = "I12p112x"
LHDR_FMT = "12p4x"

FIELDS = ["stem", "flags", "we", "left", "right", "child", "parent", "outl", "inl"]
SORTS = [BYTES, BV8, INT, INT, INT, INT, INT, INT, INT]
LFIELDS = ["target", "prev"]

PAGE, CRAWLED, LINKED, DELETED, RULE, HAS_TAIL, IS_TAIL, NOCHILD = range(8)

AL = z3.Function("AL", INT, BOOL)  # 128-aligned
AL16 = z3.Function("AL16", INT, BOOL)  # 16-aligned


# number of 74-byte tail blocks a tail of x bytes needs: ceil(x/74), through on-demand
# linear facts instead of integer division
TB = z3.Function("TB", INT, INT)


def _tb_axioms(terms):
    out = []
    for t in terms:
        if z3.is_app(t) and t.decl().name() == "TB":
            x = t.arg(0)
            out.append(z3.Implies(x <= 0, t == 0))
            out.append(z3.Implies(x > 0, z3.And(74 * (t - 1) < x, x <= 74 * t)))
    return out


def _install_tb():
    from pyvc import smt

    if _tb_axioms not in smt.TERM_AXIOMS:
        smt.TERM_AXIOMS.append(_tb_axioms)
    smt.GLOBAL_SYMBOLS.add("TB")
    smt.TERM_FUNCS.add("TB")


def bit(flags, k):
    return z3.Extract(k, k, flags) == 1


_install_tb()


def al_axioms():
    a, b = z3.Ints("a b")
    return [
        AL(0),
        AL(128),
        z3.ForAll([a], AL(a) == AL(a + 128)),
        z3.ForAll([a, b], z3.Implies(z3.And(AL(a), AL(b), a < b), a + 128 <= b)),
    ]


def al16_axioms():
    a, b = z3.Ints("a b")
    return [
        AL16(0),
        AL16(16),
        z3.ForAll([a], AL16(a) == AL16(a + 16)),
        z3.ForAll([a, b], z3.Implies(z3.And(AL16(a), AL16(b), a < b), a + 16 <= b)),
    ]


class W(object):
    """accessor sugar over a path's world"""

    def __init__(self, p):
        self.p = p

    def __getattr__(self, k):
        return self.p.w[k.replace("_", ".", 1)]

    def f(self, name, a):
        return z3.Select(self.p.w["T." + name], a)

    def l(self, name, a):
        return z3.Select(self.p.w["L." + name], a)

    def rest(self, a):
        return z3.Select(self.p.w["G.rest"], a)

    def key(self, a):
        return bcat(self.f("stem", a), self.rest(a))

    def blk(self, a):
        return z3.And(AL(a), a >= 128, a < self.p.w["T.size"])

    def head(self, a):
        return z3.And(self.blk(a), z3.Not(bit(self.f("flags", a), IS_TAIL)))

    def stub(self, b):
        return z3.And(AL16(b), b >= 16, b < self.p.w["L.size"])

    def flag(self, a, k):
        return bit(self.f("flags", a), k)


def mk_world(p, trie=True, links=False, ghost=True, tag=""):
    if trie:
        for f, s in zip(FIELDS, SORTS):
            p.w["T." + f] = fresh("T_" + f + tag, z3.ArraySort(INT, s))
        p.w["T.size"] = fresh("T_size" + tag, INT)
        p.w["T.hid"] = fresh("T_hid" + tag, INT)
        p.w["T.hver"] = fresh("T_hver" + tag, BYTES)
        p.assume(blen(p.w["T.hver"]) <= 11)  # codec range of the header's version field (A2)
        for ax in al_axioms():
            p.assume(ax)
        p.assume(AL(p.w["T.size"]))
        p.assume(p.w["T.size"] >= 0)
        if ghost:
            p.w["G.rest"] = fresh("G_rest" + tag, z3.ArraySort(INT, BYTES))
    if links:
        for f in LFIELDS:
            p.w["L." + f] = fresh("L_" + f + tag, z3.ArraySort(INT, INT))
        p.w["L.size"] = fresh("L_size" + tag, INT)
        p.w["L.hver"] = fresh("L_hver" + tag, BYTES)
        for ax in al16_axioms():
            p.assume(ax)
        p.assume(AL16(p.w["L.size"]))
        p.assume(p.w["L.size"] >= 0)
    return W(p)


def assume_A1(p):
    """assumption A1: machine integers are treated as unbounded up to the struct
    limits -- store sizes (hence every block address) stay far below 2**64"""
    for k in ("T.size", "L.size"):
        if k in p.w:
            f = p.w[k] < 2 ** 62
            if not any(c.eq(f) for c in p.pc):
                p.assume(f)


def _world_syms(f):
    from pyvc import smt

    return set(x for x in smt.symbols(f) if x[:2] in ("T_", "T.", "G_", "G.", "L_", "L."))


def prune_dead_world_facts(p):
    """drop quantified premises that speak only about world versions no longer
    reachable (neither the current world nor the `old:` snapshot): removing premises is
    always sound, and keeps the solver's instantiation work proportional to one state
    transition instead of the whole history of the path"""
    from pyvc.sym import _has_quant

    live = set()
    for v in p.w.values():
        if is_z3(v):
            live |= _world_syms(v)
    keep = []
    for c in p.pc:
        if _has_quant(c):
            ws = _world_syms(c)
            if ws and not (ws & live):
                continue
        keep.append(c)
    p.pc = keep


def snapshot(p):
    return dict(p.w)


class Old(W):
    """view of a saved world"""

    def __init__(self, w):
        self.p = type("P", (), {"w": w})()


# ---------------------------------------------------------------------------- Store object
def mk_store(p, world):
    return p.new_obj("Store", {"block_size": 128 if world == "T" else 16, "world": world})


def _coerce(v, sort):
    vz = to_z3(v)
    if vz.sort() == sort:
        return vz
    if sort == BV8 and vz.sort() == INT:
        if z3.is_int_value(vz):
            return z3.BitVecVal(vz.as_long(), 8)
        return z3.Int2BV(vz, 8)
    if sort == INT and z3.is_bv_sort(vz.sort()):
        return z3.BV2Int(vz)
    if sort == INT and vz.sort() == BOOL:
        return z3.If(vz, 1, 0)
    raise Unsupported("field sort %s into %s" % (vz.sort(), sort))


def raw_at(p, world, a):
    if world == "T":
        return Raw(NODE_FMT, [z3.Select(p.w["T." + f], a) for f in FIELDS])
    return Raw(LINK_FMT, [z3.Select(p.w["L." + f], a) for f in LFIELDS])


def store_read(ex, p, recv, args, kw, ln):
    o = p.obj(recv)
    world, bs = o.f["world"], o.f["block_size"]
    al = AL if world == "T" else AL16
    if not args and "block" not in kw:
        # C15 call shape: MemoryStorage.read / MemMapStorage.read require the block
        ex.oblige(p, "call-shape:storage.read()-needs-a-block-on-every-back-end", False, ln, "safety")
        raise DeadPath()
    b = args[0] if args else kw["block"]
    b = ex.unwrap(b, p, "storage.read block", ln) if (isinstance(b, Opt) or b is None) else b
    size = p.w[world + ".size"]
    if isinstance(b, int) and b == 0:
        if world == "T":
            raw = Raw(THDR_FMT, [p.w["T.hid"], p.w["T.hver"]])
        else:
            raw = Raw(LHDR_FMT, [p.w["L.hver"]])
        return [(p, Opt(z3.simplify(size <= 0), raw))]
    bz = to_z3(b)
    ex.oblige(p, "storage.read:block-aligned", al(bz), ln, "pre")
    ex.oblige(p, "storage.read:data-block(not-the-header)", bz >= bs, ln, "pre")
    return [(p, Opt(bz >= size, raw_at(p, world, bz)))]


def store_write(ex, p, recv, args, kw, ln):
    o = p.obj(recv)
    world, bs = o.f["world"], o.f["block_size"]
    al = AL if world == "T" else AL16
    raw = args[0]
    b = args[1] if len(args) > 1 else kw.get("block")
    assume_A1(p)
    if not isinstance(raw, Raw):
        raise Unsupported("storage.write of a non-block value")
    out = []
    if isinstance(b, Opt):
        branches = []
        for q, c in ex.branch(p, b.none):
            branches.append((q, None if c else b.val))
    else:
        branches = [(p, b)]
    for q, bb in branches:
        q = q.fork()
        size = q.w[world + ".size"]
        if bb is None:
            addr = size
            appended = True
            q.w[world + ".size"] = size + bs
        else:
            addr = to_z3(bb)
            appended = False
            if isinstance(bb, int) and bb == 0:
                # header block: created on an empty store, or rewritten in place
                if world == "T":
                    if raw.fmt != THDR_FMT:
                        ex.oblige(q, "storage.write:header-format", False, ln, "pre")
                        raise DeadPath()
                    created = z3.simplify(size <= 0)
                    q.w["T.hid"], q.w["T.hver"] = to_z3(raw.fields[0]), raw.fields[1]
                else:
                    if raw.fmt != LHDR_FMT:
                        ex.oblige(q, "storage.write:header-format", False, ln, "pre")
                        raise DeadPath()
                    created = z3.simplify(size <= 0)
                    q.w["L.hver"] = raw.fields[0]
                q.w[world + ".size"] = z3.If(created, z3.IntVal(bs), size)
                q.mut += 1
                for h in getattr(ex, "write_hooks", []):
                    h(ex, q, world, z3.IntVal(0), raw, False, ln)
                out.append((q, 0))
                continue
            ex.oblige(q, "storage.write:block-aligned", al(addr), ln, "pre")
            ex.oblige(q, "storage.write:existing-data-block", z3.And(addr >= bs, addr < size), ln, "pre")
        fmt = NODE_FMT if world == "T" else LINK_FMT
        if raw.fmt != fmt:
            ex.oblige(q, "storage.write:block-format", False, ln, "pre")
            raise DeadPath()
        names = FIELDS if world == "T" else LFIELDS
        sorts = SORTS if world == "T" else [INT, INT]
        for f, s, v in zip(names, sorts, raw.fields):
            q.w[world + "." + f] = z3.Store(q.w[world + "." + f], addr, _coerce(v, s))
        q.mut += 1
        for h in getattr(ex, "write_hooks", []):
            h(ex, q, world, addr, raw, appended, ln)
        out.append((q, addr))
    return out


def store_len(ex, p, recv, args, kw, ln):
    o = p.obj(recv)
    return [(p, p.w[o.f["world"] + ".size"])]


def store_count_blocks(ex, p, recv, args, kw, ln):
    o = p.obj(recv)
    return [(p, z3.ToReal(p.w[o.f["world"] + ".size"]) / o.f["block_size"])]


def install_store(lib):
    lib.methods[("Store", "read")] = store_read
    lib.methods[("Store", "write")] = store_write
    lib.methods[("Store", "__len__")] = store_len
    lib.methods[("Store", "count_blocks")] = store_count_blocks


# ---------------------------------------------------------------------------- node objects
def sym_node(p, store, name="node"):
    """a node object with arbitrary contents"""
    data = [fresh(name + "_stem", BYTES), fresh(name + "_flags", BV8)] + [fresh(name + "_d%d" % i, INT) for i in range(2, 9)]
    lst = p.new_obj("list", {"items": data})
    return p.new_obj(
        "LRUTrieNode",
        {"storage": store, "block": Opt(fresh(name + "_noblock", BOOL), fresh(name + "_block", INT)), "exists": fresh(name + "_exists", BOOL), "tail": fresh(name + "_tail", BYTES), "data": lst},
    )


def node_data(p, ref):
    return p.obj(p.obj(ref).f["data"]).f["items"]


def node_block(p, ref):
    b = p.obj(ref).f["block"]
    return b


def in_range(data):
    """struct field ranges of a node's RAM copy (what unpack always yields)"""
    cs = [blen(data[0]) <= 74]
    for i, w in ((2, 32), (3, 64), (4, 64), (5, 64), (6, 64), (7, 64), (8, 64)):
        cs.append(z3.And(data[i] >= 0, data[i] < 2 ** w))
    return cs


def fields_in_range(w):
    """what the codec guarantees of every stored block (A2)"""
    a = z3.Int("a")
    cs = [z3.ForAll([a], blen(w.f("stem", a)) <= 74)]
    for f, wd in (("we", 32), ("left", 64), ("right", 64), ("child", 64), ("parent", 64), ("outl", 64), ("inl", 64)):
        cs.append(z3.ForAll([a], z3.And(w.f(f, a) >= 0, w.f(f, a) < 2 ** wd)))
    return cs


def links_in_range(w):
    b = z3.Int("b")
    return [z3.ForAll([b], z3.And(w.l(f, b) >= 0, w.l(f, b) < 2 ** 64)) for f in LFIELDS]
