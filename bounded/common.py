"""
Bounded stand-in, shared plumbing (DESIGN 2.5).

Everything here runs the REAL code of /repo (or of $VERIF_REPO, for the mutation
self-test and for replays against a scratch copy).  Nothing in this package is ever
counted as proved: every evidence file labels these runs `bounded`.
"""
import os
import sys
import warnings

REPO = os.environ.get("VERIF_REPO", "/repo")
if REPO not in sys.path:
    sys.path.insert(0, REPO)
warnings.simplefilter("ignore")

# Hyphe's rule family (copied from the crawler's configuration: domain, subdomain,
# path-N).  Every match starts at offset 0 and ends on a stem boundary, which is the
# configuration precondition of C06.
_HOST = (
    b"(h:[^\\|]+\\|(h:[^\\|]+\\|)%s|h:(localhost|(\\d{1,3}\\.){3}\\d{1,3}|"
    b"\\[[\\da-f]*:[\\da-f:]*\\])\\|)"
)
_HEAD = b"(s:[a-zA-Z]+\\|(t:[0-9]+\\|)?"
RX = {
    "domain": _HEAD + (_HOST % b"") + b")",
    "subdomain": _HEAD + (_HOST % b"+") + b")",
    "path1": _HEAD + (_HOST % b"+") + b"(p:[^\\|]+\\|){1})",
    "path2": _HEAD + (_HOST % b"+") + b"(p:[^\\|]+\\|){2})",
    "path3": _HEAD + (_HOST % b"+") + b"(p:[^\\|]+\\|){3})",
    # a rule of the same shape whose outcome depends on the re.I flag the API compiles
    # every rule with (lower-case classes, mixed-case pages)
    "lowerpath1": _HEAD + (_HOST % b"+") + b"(p:[a-z0-9_]+\\|){1})",
}
NOMATCH = b"$^"  # never matches a non-empty LRU


def b2s(b):
    """bytes -> JSON-safe str (latin-1 is a bijection on 0..255)."""
    return b.decode("latin-1")


def s2b(s):
    return s.encode("latin-1")


def enc(x):
    """recursively make an op JSON-serialisable."""
    if isinstance(x, bytes):
        return {"b": b2s(x)}
    if isinstance(x, (list, tuple)):
        return [enc(y) for y in x]
    if isinstance(x, dict):
        return {"d": [[enc(k), enc(v)] for k, v in x.items()]}
    return x


def dec(x):
    if isinstance(x, dict):
        if "b" in x:
            return s2b(x["b"])
        return {dec(k): dec(v) for k, v in x["d"]}
    if isinstance(x, list):
        return [dec(y) for y in x]
    return x


def stems_of(lru):
    out = []
    last = 0
    for i in range(len(lru)):
        if lru[i : i + 1] == b"|":
            out.append(lru[last : i + 1])
            last = i + 1
    return out


def prefixes_of(lru):
    s = stems_of(lru)
    return [b"".join(s[:i]) for i in range(1, len(s) + 1)]


SHORT = (b"a", b"b", b"c", b"ab", b"}", b"\x00", b"\xff")
LONG = (
    b"a",
    b"b",
    b"ab",
    b"}",
    b"\x00",
    b"\xff",
    b"L" * 72,
    b"M" * 73,
    b"N" * 74,
    b"O" * 146,
    b"P" * 147,
    b"Q" * 148,
    b"R" * 222,
    # long stems that agree on their whole first block (and beyond)
    b"S" * 80 + b"c",
    b"S" * 80 + b"f",
    b"S" * 80 + b"m",
    b"S" * 74 + b"z",
    b"S" * 74,
)
# stems are alphabet entries + b"|": lengths 73,74,75,147,148,149,223 for the long ones


def rand_lru(r, depth=(1, 4), alpha=SHORT):
    n = r.randint(*depth)
    return b"".join(r.choice(alpha) + b"|" for _ in range(n))


def rand_web_lru(r):
    sch = r.choice([b"s:http|", b"s:https|"])
    port = r.choice([b"", b"", b"t:80|"])
    hosts = [r.choice([b"h:com|", b"h:fr|"])] + [
        b"h:" + r.choice([b"a", b"b", b"www"]) + b"|" for _ in range(r.randint(0, 2))
    ]
    path = [b"p:" + r.choice([b"x", b"y", b"z", b"Yz", b"X"]) + b"|" for _ in range(r.randint(0, 3))]
    return sch + port + b"".join(hosts) + b"".join(path)


def open_traph(folder, default=NOMATCH, rules=None, **kw):
    from traph import Traph

    return Traph(
        folder=folder,
        default_webentity_creation_rule=default,
        webentity_creation_rules=dict(rules or {}),
        **kw
    )


def snap(t):
    """raw bytes of both stores"""
    if t.in_memory:
        return bytes(t.lru_trie_storage.array), bytes(t.links_store_storage.array)
    t.lru_trie_file.flush()
    t.link_store_file.flush()
    with open(t.lru_trie_path, "rb") as f:
        a = f.read()
    with open(t.link_store_path, "rb") as f:
        b = f.read()
    return a, b


class Failure(Exception):
    """an oracle disagreement (a violation candidate), as opposed to a harness bug"""

    def __init__(self, what, detail=None):
        Exception.__init__(self, what)
        self.what = what
        self.detail = detail


def expect(cond, what, detail=None):
    if not cond:
        raise Failure(what, detail)
