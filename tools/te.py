import sys, os
sys.path.insert(0,'/verif')
from pyvc.extract import Program
from static.effects import Effects
e=Effects(Program(os.environ.get('VERIF_REPO','/repo')))
for name in ('fr_ro','fr_shape','fr_state','fr_id'):
    obs=getattr(e,name)()
    bad=[o for o in obs if not o['ok']]
    print(name,len(obs),'bad',len(bad))
    for o in bad[:10]: print('   ',o)
from static.typestate import TS
obs=TS(e.program,e).check_class('Traph')
bad=[o for o in obs if not o['ok']]
print('typestate',len(obs),'bad',len(bad))
for o in obs: print('   ',o['ok'],o['id'])
