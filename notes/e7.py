import sys, tempfile, shutil, warnings, random, os, itertools, traceback
sys.path.insert(0,'/tmp/x')
from e3 import *
import traph.traph_iterator_state as tis
# force every should_yield to yield
tis.TraphIteratorState.should_yield=lambda self,f=1000: True
def final(t):
    pages=sorted((l,n.is_crawled()) for n,l in t.pages_iter())
    out=Counter(); inn=Counter()
    for l,_ in pages:
        for a,b,w in t.get_page_links(l,include_inbound=False): out[(a,b)]+=w
        for a,b,w in t.get_page_links(l,include_outbound=False,include_internal=False): inn[(a,b)]+=w
    return pages,out,inn
def run(seed):
    r=random.Random(seed)
    alpha=(b"a",b"b",b"c")
    batches=[{rand_lru(r,(1,3),alpha):[rand_lru(r,(1,3),alpha) for _ in range(r.randint(0,3))] for _ in range(r.randint(1,2))} for _ in range(2)]
    # sequential reference
    d=tempfile.mkdtemp(); t=Traph(folder=d, default_webentity_creation_rule=NOMATCH, webentity_creation_rules={})
    for b in batches: t.index_batch_crawl(b)
    ref=final(t); t.close(); shutil.rmtree(d)
    selfl=Counter({k:v for k,v in ref[1].items() if k[0]==k[1]})
    # random schedules
    for sch in range(30):
        d=tempfile.mkdtemp(); t=Traph(folder=d, default_webentity_creation_rule=NOMATCH, webentity_creation_rules={})
        try:
            gens=[t.index_batch_crawl_iter(b,1) for b in batches]
            if r.random()<.5: gens.append(t.get_webentities_links_iter())
            if r.random()<.5: gens.append(t.add_webentity_creation_rule_iter(b"a|",b"a\\|b\\|"))
            live=list(range(len(gens))); order=[]
            while live:
                g=r.choice(live); order.append(g)
                try: st=next(gens[g])
                except StopIteration: live.remove(g)
            got=final(t)
            assert got[0]==ref[0],('pages',got[0],ref[0])
            assert got[1]==ref[1],('out',got[1],ref[1])
            assert got[2]+selfl==got[1],('sym',got[2],got[1])
        except Exception as e:
            print('SEED',seed,'FAIL',type(e).__name__,str(e)[:500]); print(batches); print(order); traceback.print_exc(limit=4); return False
        finally:
            t.close(); shutil.rmtree(d)
    return True
bad=0
for s in range(int(sys.argv[1]),int(sys.argv[2])):
    if not run(s): bad+=1
    if bad>=3: break
print('done',bad)
