"""
pyvc.sym — symbolic executor over the Python subset of DESIGN 2.2.

It runs the REAL function bodies, parsed from /repo's working tree on every run
(pyvc.extract), over symbolic values, cutting loops at sidecar invariants and
replacing calls to contract-bearing functions by their contracts.  It produces proof
obligations (premises |- goal); pyvc.smt discharges them.

Values
  concrete Python values (int, bool, None, bytes, str, tuple) are kept concrete;
  z3 Int / Bool / BitVec(8) / String(=bytes) / Real expressions are symbolic scalars;
  Opt(none, val)      a value that may be None            (encoding decision E4)
  Raw(fmt, fields)    one storage block seen through the struct codec (assumption A2)
  Ref(oid)            reference to a heap object (instances, lists, dicts, sets ...)
"""
import ast
import itertools

import z3

import os as _os

# Byte strings: z3 sequences by default; with PYVC_BYTES=abstract (set before import, one
# process per mode) an uninterpreted sort with uninterpreted concatenation and length,
# whose few needed laws are supplied as term axioms (pyvc.smt.TERM_AXIOMS).  The
# abstract mode is used where code only compares, concatenates and measures stems
# (lru_trie.py, traph.py); it keeps z3's unstable sequence solver out of those queries.
ABSTRACT_BYTES = _os.environ.get("PYVC_BYTES") == "abstract"
INT = z3.IntSort()
if ABSTRACT_BYTES:
    BYTES = z3.DeclareSort("Bytes")
    CAT = z3.Function("cat", BYTES, BYTES, BYTES)
    BLEN = z3.Function("blen", BYTES, INT)
    BSLICE = z3.Function("bslice", BYTES, INT, INT, BYTES)
else:
    BYTES = z3.StringSort()
BOOL = z3.BoolSort()
BV8 = z3.BitVecSort(8)
REAL = z3.RealSort()

ORD = z3.Function("ord", BYTES, REAL)  # order embedding of byte strings (A3)


class Unsupported(Exception):
    """construct outside the verified subset: the function is *undecided*, never a
    violation"""


class Opt(object):
    __slots__ = ("none", "val")

    def __init__(self, none, val):
        self.none = none
        self.val = val

    def __repr__(self):
        return "Opt(%s,%s)" % (self.none, self.val)


class Raw(object):
    __slots__ = ("fmt", "fields")

    def __init__(self, fmt, fields):
        self.fmt = fmt
        self.fields = tuple(fields)


class Ref(object):
    __slots__ = ("oid",)

    def __init__(self, oid):
        self.oid = oid

    def __repr__(self):
        return "Ref(%s)" % self.oid

    def __eq__(self, o):
        return isinstance(o, Ref) and o.oid == self.oid

    def __hash__(self):
        return hash(self.oid)


class Obj(object):
    def __init__(self, cls, fields):
        self.cls = cls
        self.f = fields

    def copy(self):
        nf = {}
        for k, v in self.f.items():
            nf[k] = list(v) if isinstance(v, list) else (dict(v) if isinstance(v, dict) else v)
        return Obj(self.cls, nf)


class Func(object):
    """a function value (module-level def or bound method)"""

    def __init__(self, qual, node, module, cls=None, recv=None):
        self.qual, self.node, self.module, self.cls, self.recv = qual, node, module, cls, recv


_ctr = itertools.count()


def fresh(name, sort):
    return z3.Const("%s!%d" % (name, next(_ctr)), sort)


def is_z3(v):
    return isinstance(v, z3.ExprRef)


def is_sym_int(v):
    return is_z3(v) and v.sort() == INT


def bytes_val(b):
    if ABSTRACT_BYTES:
        return z3.Const("lit_" + b.hex(), BYTES)
    return z3.StringVal(b.decode("latin-1"))


def bcat(*xs):
    xs = [to_z3(x) for x in xs]
    if not ABSTRACT_BYTES:
        return z3.Concat(*xs) if len(xs) > 1 else xs[0]
    acc = xs[0]
    for x in xs[1:]:
        acc = CAT(acc, x)
    return acc


def blen(x):
    x = to_z3(x)
    return BLEN(x) if ABSTRACT_BYTES else z3.Length(x)


def to_z3(v):
    if is_z3(v):
        return v
    if isinstance(v, bool):
        return z3.BoolVal(v)
    if isinstance(v, int):
        return z3.IntVal(v)
    if isinstance(v, bytes):
        return bytes_val(v)
    from fractions import Fraction

    if isinstance(v, Fraction):
        return z3.Q(v.numerator, v.denominator)
    raise Unsupported("to_z3(%r)" % (v,))


def list_elem(o):
    """element function of an abstract list object: a z3 array field `arr` (mergeable
    across branches) or a python callable `elem`"""
    if "arr" in o.f:
        arr = o.f["arr"]
        return lambda i, arr=arr: z3.Select(arr, to_z3(i))
    return o.f["elem"]


def zand(*cs):
    cs = [c for c in cs if not (isinstance(c, bool) and c)]
    if any(isinstance(c, bool) and not c for c in cs):
        return z3.BoolVal(False)
    if not cs:
        return z3.BoolVal(True)
    return z3.And(*cs) if len(cs) > 1 else cs[0]


def znot(c):
    if isinstance(c, bool):
        return not c
    return z3.Not(c)


class Path(object):
    def __init__(self):
        self.env = {}
        self.heap = {}
        self.pc = []
        self.w = {}  # world: named z3 state components (stores, ghost)
        self.out = []  # yields of the generator under verification
        self.mut = 0
        self.notes = []

    def fork(self):
        p = Path.__new__(Path)
        p.env = dict(self.env)
        p.heap = {k: o.copy() for k, o in self.heap.items()}
        p.pc = list(self.pc)
        p.w = dict(self.w)
        p.out = list(self.out)
        p.mut = self.mut
        p.notes = list(self.notes)
        return p

    def assume(self, c):
        if isinstance(c, bool):
            if not c:
                self.pc.append(z3.BoolVal(False))
            return
        self.pc.append(c)

    def new_obj(self, cls, fields):
        oid = "%s@%d" % (cls, next(_ctr))
        self.heap[oid] = Obj(cls, fields)
        self.mut += 1
        return Ref(oid)

    def obj(self, ref):
        return self.heap[ref.oid]


class Ob(object):
    """proof obligation"""

    def __init__(self, fn, name, premises, goal, lineno=None, kind="post"):
        self.fn, self.name, self.premises, self.goal, self.lineno, self.kind = fn, name, premises, goal, lineno, kind

    def ident(self):
        return "%s::%s" % (self.fn, self.name)


class Executor(object):
    def __init__(self, program, contracts, fn_qual, consts=None):
        self.program = program  # pyvc.extract.Program
        self.contracts = contracts  # registry: qualname -> contract object
        self.fn = fn_qual
        self.obs = []
        self.inline_depth = 0
        self.loop_specs = {}
        self.feas_cache = {}
        self.stats = {"paths": 0, "forks": 0, "inlined": set(), "contracts_used": set()}
        self.seen_ob = set()
        self.trivial = []  # obligations the term simplifier reduces to True

    # ------------------------------------------------------------------ obligations
    def oblige(self, path, name, goal, lineno=None, kind="post"):
        if isinstance(goal, bool):
            if goal:
                return
            goal = z3.BoolVal(False)
        if z3.is_true(goal):
            self.trivial.append((name, lineno, kind))
            return
        if not _has_quant(goal):
            g2 = z3.simplify(goal)
            if z3.is_true(g2):
                self.trivial.append((name, lineno, kind))
                return
        for c in path.pc:
            if c.eq(goal):
                return
        ob = Ob(self.fn, name, list(path.pc), goal, lineno, kind)
        hf = getattr(self, "hint_arrays_fn", None)
        ob.hint_arrays = hf(path) if hf else []
        self.obs.append(ob)

    def feasible(self, path):
        """decided on the ground part of the path condition only (E2)"""
        ground = [c for c in path.pc if not _has_quant(c)]
        key = tuple(c.get_id() for c in ground)
        if key in self.feas_cache:
            return self.feas_cache[key]
        s = z3.Solver()
        s.set("timeout", 400)
        s.add(ground)
        r = s.check() != z3.unsat
        self.feas_cache[key] = r
        return r

    # ------------------------------------------------------------------ truthiness
    def truth(self, v, path):
        """-> python bool or z3 Bool"""
        if isinstance(v, bool):
            return v
        if v is None:
            return False
        if isinstance(v, (int, bytes, str, tuple)):
            return bool(v)
        if isinstance(v, Opt):
            t = self.truth(v.val, path)
            return zand(znot(v.none), t)
        if isinstance(v, Raw):
            return True
        if isinstance(v, Ref):
            o = path.obj(v)
            if o.cls == "list":
                return self.truth(self.list_len(o), path)
            if o.cls in ("dict", "set", "Counter"):
                return self.truth(o.f["n"], path) if "n" in o.f else len(o.f["items"]) > 0
            if o.cls == "bytearray":
                return blen(o.f["content"]) > 0
            return True
        if isinstance(v, Func):
            return True
        if is_z3(v):
            s = v.sort()
            if s == BOOL:
                return v
            if s == INT or s == REAL:
                return v != 0
            if s == BYTES:
                return blen(v) > 0
            if z3.is_bv_sort(s):
                return v != 0
        raise Unsupported("truth(%r)" % (v,))

    def unwrap(self, v, path, what, lineno=None):
        """use of a possibly-None value where a value is required: obligation"""
        if isinstance(v, Opt):
            self.oblige(path, "not-None:%s" % what, znot(v.none) if not isinstance(v.none, bool) else (not v.none), lineno, "safety")
            return v.val
        if v is None:
            self.oblige(path, "not-None:%s" % what, False, lineno, "safety")
            raise DeadPath()
        return v

    # ------------------------------------------------------------------ lists
    def list_len(self, o):
        if "items" in o.f:
            return len(o.f["items"])
        return o.f["len"]

    # ------------------------------------------------------------------ branching helper
    def branch(self, path, cond):
        """-> [(path, bool)] feasible branches"""
        if isinstance(cond, bool):
            return [(path, cond)]
        cond = z3.simplify(cond)
        if z3.is_true(cond):
            return [(path, True)]
        if z3.is_false(cond):
            return [(path, False)]
        out = []
        pt = path.fork()
        pt.assume(cond)
        if self.feasible(pt):
            out.append((pt, True))
        pf = path.fork()
        pf.assume(z3.Not(cond))
        if self.feasible(pf):
            out.append((pf, False))
        self.stats["forks"] += 1
        return out

    # ------------------------------------------------------------------ statements
    def block(self, stmts, path, fctx):
        paths = [(path, "normal", None)]
        for st in stmts:
            nxt = []
            for p1, kind, val in paths:
                if kind != "normal":
                    nxt.append((p1, kind, val))
                    continue
                try:
                    nxt += self.stmt(st, p1, fctx)
                except DeadPath:
                    pass
            paths = nxt
            if len(paths) > 4000:
                raise Unsupported("path explosion at line %d" % st.lineno)
        return paths

    def stmt(self, st, p, fctx):
        ln = getattr(st, "lineno", None)
        if isinstance(st, ast.Expr):
            if isinstance(st.value, ast.Constant):
                return [(p, "normal", None)]
            if isinstance(st.value, (ast.Yield,)):
                out = []
                for p1, v in self.ev(st.value.value, p, fctx) if st.value.value is not None else [(p, None)]:
                    p1 = p1.fork()
                    out += fctx.on_yield(self, p1, v, ln)
                return out
            if _is_warn(st.value):
                return [(p, "normal", None)]  # A8: warnings.warn dropped
            return [(p1, "normal", None) for p1, _ in self.ev(st.value, p, fctx)]
        if isinstance(st, ast.Assign):
            out = []
            for p1, v in self.ev(st.value, p, fctx):
                p1 = p1.fork()
                for t in st.targets:
                    p1 = self.assign(t, v, p1, fctx, ln)
                out.append((p1, "normal", None))
            return out
        if isinstance(st, ast.AugAssign):
            load = _as_load(st.target)
            if isinstance(st.op, ast.Add) and isinstance(st.target, ast.Name) and isinstance(p.env.get(st.target.id), Ref):
                # x += y on an object with __iadd__: x = x.__iadd__(y)
                lref = p.env[st.target.id]
                fn = self.program.find_method(p.obj(lref).cls, "__iadd__")
                if fn is not None:
                    out = []
                    for p1, rv in self.ev(st.value, p, fctx):
                        for p2, v in self.call_func(Func(fn.qual, fn.node, fn.module, cls=fn.cls, recv=lref), [rv], {}, p1, ln):
                            p2 = p2.fork()
                            p2 = self.assign(st.target, v, p2, fctx, ln)
                            out.append((p2, "normal", None))
                    return out
            binop = ast.BinOp(left=load, op=st.op, right=st.value)
            ast.copy_location(binop, st)
            ast.fix_missing_locations(binop)
            out = []
            for p1, v in self.ev(binop, p, fctx):
                p1 = p1.fork()
                # in-place list += list mutates the list object
                p1 = self.assign(st.target, v, p1, fctx, ln)
                out.append((p1, "normal", None))
            return out
        if isinstance(st, ast.Return):
            if st.value is None:
                return [(p, "return", None)]
            return [(p1, "return", v) for p1, v in self.ev(st.value, p, fctx)]
        if isinstance(st, ast.Raise):
            name = _exc_name(st.exc)
            return [(p, "raise", (name, ln))]
        if isinstance(st, ast.Pass):
            return [(p, "normal", None)]
        if isinstance(st, ast.Break):
            return [(p, "break", None)]
        if isinstance(st, ast.Continue):
            return [(p, "continue", None)]
        if isinstance(st, ast.If):
            out = []
            for p1, c in self.ev_cond(st.test, p, fctx):
                if c:
                    out += self.block(st.body, p1, fctx)
                else:
                    out += self.block(st.orelse, p1, fctx) if st.orelse else [(p1, "normal", None)]
            return self.merge_states(p, out)
        if isinstance(st, (ast.While, ast.For)):
            return self.loop(st, p, fctx)
        if isinstance(st, ast.Assert):
            out = []
            for p1, c in self.ev_cond(st.test, p, fctx):
                if c:
                    out.append((p1, "normal", None))
                else:
                    out.append((p1, "raise", ("AssertionError", ln)))
            return out
        if isinstance(st, ast.Try):
            return self.try_stmt(st, p, fctx)
        if isinstance(st, ast.FunctionDef):
            p = p.fork()
            p.env[st.name] = Func(fctx.qual + "." + st.name, st, fctx.module, closure=None) if False else _closure(fctx, st, p)
            return [(p, "normal", None)]
        if isinstance(st, ast.Delete):
            # `del x[k]` on a container that has a sidecar model
            if len(st.targets) == 1 and isinstance(st.targets[0], ast.Subscript) and not isinstance(st.targets[0].slice, ast.Slice):
                ((p1, base),) = self.ev(st.targets[0].value, p, fctx)
                ((p1, idx),) = self.ev(st.targets[0].slice, p1, fctx)
                cls = p1.obj(base).cls if isinstance(base, Ref) else type(base).__name__
                h = self.contracts.methods.get((cls, "__delitem__"))
                if h:
                    p1 = p1.fork()
                    return [(h(self, p1, base, idx, ln), "normal", None)]
            raise Unsupported("del at line %s" % ln)
        raise Unsupported("statement %s at line %s" % (type(st).__name__, ln))

    def try_stmt(self, st, p, fctx):
        if st.finalbody or st.orelse:
            raise Unsupported("try/finally at line %d" % st.lineno)
        res = self.block(st.body, p, fctx)
        out = []
        for p1, kind, val in res:
            if kind != "raise":
                out.append((p1, kind, val))
                continue
            handled = False
            for h in st.handlers:
                hn = None if h.type is None else _exc_name(h.type)
                if hn is None or hn == val[0]:
                    if len(h.body) == 1 and isinstance(h.body[0], ast.Raise) and h.body[0].exc is None:
                        out.append((p1, kind, val))
                    else:
                        out += self.block(h.body, p1, fctx)
                    handled = True
                    break
            if not handled:
                out.append((p1, kind, val))
        return out

    # ------------------------------------------------------------------ assignment
    def assign(self, t, v, p, fctx, ln):
        if isinstance(t, ast.Name):
            p.env[t.id] = v
            return p
        if isinstance(t, (ast.Tuple, ast.List)):
            vals = self.as_tuple(v, p, len(t.elts))
            for te, ve in zip(t.elts, vals):
                p = self.assign(te, ve, p, fctx, ln)
            return p
        if isinstance(t, ast.Attribute):
            ((p, o),) = self.ev(t.value, p, fctx)
            if not isinstance(o, Ref):
                raise Unsupported("attribute store on %r line %s" % (o, ln))
            name = _mangle(t.attr, fctx)
            p.obj(o).f[name] = v
            p.mut += 1
            return p
        if isinstance(t, ast.Subscript):
            ((p, base),) = self.ev(t.value, p, fctx)
            if isinstance(t.slice, ast.Slice):
                return self.store_slice(base, t.slice, v, p, fctx, ln)
            ((p, idx),) = self.ev(t.slice, p, fctx)
            return self.store_item(base, idx, v, p, ln)
        raise Unsupported("assign target %s" % type(t).__name__)

    def as_tuple(self, v, p, n):
        if isinstance(v, tuple):
            if len(v) != n:
                raise Unsupported("tuple arity")
            return v
        if isinstance(v, Ref) and p.obj(v).cls == "list" and "items" in p.obj(v).f:
            it = p.obj(v).f["items"]
            if len(it) != n:
                raise Unsupported("list unpack arity")
            return tuple(it)
        raise Unsupported("unpack of %r" % (v,))

    def store_item(self, base, idx, v, p, ln):
        if isinstance(base, Ref):
            o = p.obj(base)
            if o.cls == "list" and "items" in o.f and isinstance(idx, int):
                if not (-len(o.f["items"]) <= idx < len(o.f["items"])):
                    self.oblige(p, "index-in-range", False, ln, "safety")
                    raise DeadPath()
                o.f["items"][idx] = v
                p.mut += 1
                return p
            if o.cls in ("Counter", "dict"):
                return self.contracts.map_store(self, p, base, idx, v, ln)
            h = self.contracts.methods.get((o.cls, "__setitem__"))
            if h:
                return h(self, p, base, idx, v, ln)
        if not isinstance(base, Ref):
            h = self.contracts.methods.get((type(base).__name__, "__setitem__"))
            if h:
                return h(self, p, base, idx, v, ln)
        raise Unsupported("item store on %r[%r] line %s" % (base, idx, ln))

    def store_slice(self, base, sl, v, p, fctx, ln):
        if isinstance(base, Ref) and p.obj(base).cls == "bytearray":
            ((p, lo),) = self.ev(sl.lower, p, fctx) if sl.lower is not None else [(p, 0)]
            ((p, hi),) = self.ev(sl.upper, p, fctx) if sl.upper is not None else [(p, None)]
            o = p.obj(base)
            c = o.f["content"]
            n = z3.Length(c)
            lo = to_z3(self.unwrap(lo, p, "slice", ln))
            hi = n if hi is None else to_z3(self.unwrap(hi, p, "slice", ln))
            # bytearray slice assignment, non-negative bounds (obligation)
            self.oblige(p, "slice-bounds-nonneg", z3.And(lo >= 0, hi >= 0), ln, "safety")
            lo2 = z3.If(lo > n, n, lo)
            hi2 = z3.If(hi > n, n, hi)
            hi2 = z3.If(hi2 < lo2, lo2, hi2)
            data = self.bytes_of(v, p)
            o.f["content"] = z3.Concat(z3.Extract(c, 0, lo2), data, z3.Extract(c, hi2, n - hi2))
            p.mut += 1
            return p
        raise Unsupported("slice store line %s" % ln)

    def bytes_of(self, v, p):
        if isinstance(v, bytes):
            return bytes_val(v)
        if is_z3(v) and v.sort() == BYTES:
            return v
        if isinstance(v, Ref) and p.obj(v).cls == "bytearray":
            return p.obj(v).f["content"]
        raise Unsupported("bytes_of(%r)" % (v,))

    # ------------------------------------------------------------------ conditions
    def ev_cond(self, e, p, fctx):
        """-> [(path, bool)]"""
        if isinstance(e, ast.BoolOp):
            # short-circuit, left to right
            if isinstance(e.op, ast.And):
                out = []
                todo = [(p, 0)]
                while todo:
                    p1, i = todo.pop()
                    if i == len(e.values):
                        out.append((p1, True))
                        continue
                    for p2, c in self.ev_cond(e.values[i], p1, fctx):
                        if c:
                            todo.append((p2, i + 1))
                        else:
                            out.append((p2, False))
                return out
            else:
                out = []
                todo = [(p, 0)]
                while todo:
                    p1, i = todo.pop()
                    if i == len(e.values):
                        out.append((p1, False))
                        continue
                    for p2, c in self.ev_cond(e.values[i], p1, fctx):
                        if c:
                            out.append((p2, True))
                        else:
                            todo.append((p2, i + 1))
                return out
        if isinstance(e, ast.UnaryOp) and isinstance(e.op, ast.Not):
            return [(p1, not c) for p1, c in self.ev_cond(e.operand, p, fctx)]
        out = []
        for p1, v in self.ev(e, p, fctx):
            t = self.truth(v, p1)
            out += self.branch(p1, t)
        return out

    # ------------------------------------------------------------------ expressions
    def ev(self, e, p, fctx):
        """-> [(path, value)]"""
        m = getattr(self, "ev_" + type(e).__name__, None)
        if m is None:
            raise Unsupported("expression %s line %s" % (type(e).__name__, getattr(e, "lineno", "?")))
        return m(e, p, fctx)

    def ev_Constant(self, e, p, fctx):
        return [(p, e.value)]

    def ev_Name(self, e, p, fctx):
        if e.id in p.env:
            return [(p, p.env[e.id])]
        if fctx.closure is not None and e.id in fctx.closure:
            return [(p, fctx.closure[e.id])]
        v = self.program.global_value(fctx.module, e.id)
        if v is not NotImplemented:
            return [(p, v)]
        if e.id in ("bytes", "str", "dict", "list", "int", "bool", "tuple", "set"):
            return [(p, ClassVal(e.id, "builtins." + e.id))]
        raise Unsupported("unbound name %s (line %s)" % (e.id, e.lineno))

    def ev_Tuple(self, e, p, fctx):
        outs = [(p, [])]
        for el in e.elts:
            nxt = []
            for p1, acc in outs:
                for p2, v in self.ev(el, p1, fctx):
                    nxt.append((p2, acc + [v]))
            outs = nxt
        return [(p1, tuple(acc)) for p1, acc in outs]

    def ev_List(self, e, p, fctx):
        res = []
        for p1, tup in self.ev_Tuple(e, p, fctx):
            p1 = p1.fork()
            res.append((p1, p1.new_obj("list", {"items": list(tup)})))
        return res

    def ev_Dict(self, e, p, fctx):
        if e.keys:
            # small literal dicts (e.g. result records): kept as concrete-key dict
            outs = [(p, {})]
            for k, v in zip(e.keys, e.values):
                nxt = []
                for p1, acc in outs:
                    for p2, kv in self.ev(k, p1, fctx):
                        for p3, vv in self.ev(v, p2, fctx):
                            a2 = dict(acc)
                            a2[kv] = vv
                            nxt.append((p3, a2))
                outs = nxt
            res = []
            for p1, acc in outs:
                p1 = p1.fork()
                res.append((p1, p1.new_obj("record", {"items": acc})))
            return res
        p = p.fork()
        return [(p, self.contracts.new_map(self, p, "dict"))]

    def ev_Attribute(self, e, p, fctx):
        out = []
        for p1, o in self.ev(e.value, p, fctx):
            out.append((p1, self.getattr(o, e.attr, p1, fctx, e.lineno)))
        return out

    def getattr(self, o, attr, p, fctx, ln=None):
        if isinstance(o, Ref):
            ob = p.obj(o)
            name = _mangle(attr, fctx)
            if name in ob.f:
                return ob.f[name]
            # bound method
            fn = self.program.find_method(ob.cls, name)
            if fn is not None:
                return Func(fn.qual, fn.node, fn.module, cls=fn.cls, recv=o)
            return BoundBuiltin(o, attr)
        if isinstance(o, ModuleVal):
            v = self.program.global_value(o.name, attr)
            if v is NotImplemented:
                return BoundBuiltin(o, attr)
            return v
        if isinstance(o, Opt):
            o2 = self.unwrap(o, p, "attribute .%s" % attr, ln)
            return self.getattr(o2, attr, p, fctx, ln)
        if o is None:
            self.oblige(p, "not-None:attribute .%s" % attr, False, ln, "safety")
            raise DeadPath()
        return BoundBuiltin(o, attr)

    def ev_Subscript(self, e, p, fctx):
        out = []
        for p1, base in self.ev(e.value, p, fctx):
            if isinstance(e.slice, ast.Slice):
                lo_l = self.ev(e.slice.lower, p1, fctx) if e.slice.lower is not None else [(p1, None)]
                for p2, lo in lo_l:
                    hi_l = self.ev(e.slice.upper, p2, fctx) if e.slice.upper is not None else [(p2, None)]
                    for p3, hi in hi_l:
                        if e.slice.step is not None:
                            raise Unsupported("slice step")
                        out.append((p3, self.get_slice(base, lo, hi, p3, e.lineno)))
            else:
                for p2, idx in self.ev(e.slice, p1, fctx):
                    out.append((p2, self.get_item(base, idx, p2, e.lineno)))
        return out

    def get_item(self, base, idx, p, ln):
        if isinstance(base, Opt):
            base = self.unwrap(base, p, "subscript", ln)
        if isinstance(base, tuple) and isinstance(idx, int):
            if not (-len(base) <= idx < len(base)):
                self.oblige(p, "index-in-range", False, ln, "safety")
                raise DeadPath()
            return base[idx]
        if isinstance(base, (bytes, str)) and isinstance(idx, int):
            return base[idx]
        if isinstance(base, Ref):
            o = p.obj(base)
            if o.cls == "list":
                if "items" in o.f:
                    if isinstance(idx, int):
                        if not (-len(o.f["items"]) <= idx < len(o.f["items"])):
                            self.oblige(p, "index-in-range", False, ln, "safety")
                            raise DeadPath()
                        return o.f["items"][idx]
                    raise Unsupported("symbolic index into concrete list")
                # abstract list: len + element function
                i = to_z3(idx)
                n = o.f["len"]
                if isinstance(idx, int) and idx < 0:
                    i = n + idx
                self.oblige(p, "index-in-range", z3.And(i >= 0, i < n), ln, "safety")
                return list_elem(o)(i)
            if o.cls == "record":
                return o.f["items"][idx]
            if o.cls in ("dict", "Counter"):
                return self.contracts.map_load(self, p, base, idx, ln)
            h = self.contracts.methods.get((o.cls, "__getitem__"))
            if h:
                return h(self, p, base, idx, ln)
        if not isinstance(base, (Ref, dict, tuple, bytes, str, Opt)) and not is_z3(base):
            h = self.contracts.methods.get((type(base).__name__, "__getitem__"))
            if h:
                return h(self, p, base, idx, ln)
        if isinstance(base, dict):
            if isinstance(idx, (int, str, bytes)):
                if idx not in base:
                    self.oblige(p, "key-present", False, ln, "safety")
                    raise DeadPath()
                return base[idx]
        raise Unsupported("subscript %r[%r] line %s" % (base, idx, ln))

    def get_slice(self, base, lo, hi, p, ln):
        if isinstance(base, Opt):
            base = self.unwrap(base, p, "slice", ln)
        if isinstance(base, (bytes, str, tuple)) and (lo is None or isinstance(lo, int)) and (hi is None or isinstance(hi, int)):
            return base[lo:hi]
        if isinstance(base, Ref) and p.obj(base).cls == "list" and "items" in p.obj(base).f and (lo is None or isinstance(lo, int)) and (hi is None or isinstance(hi, int)):
            p.mut += 1
            return p.new_obj("list", {"items": p.obj(base).f["items"][lo:hi]})
        if isinstance(base, Ref) and p.obj(base).cls == "list" and "len" in p.obj(base).f and lo is None and isinstance(hi, int) and hi == -1:
            # xs[:-1] of an abstract list: the same elements, one fewer (none if empty)
            o = p.obj(base)
            n = o.f["len"]
            f2 = dict(o.f)
            f2["len"] = z3.If(n >= 1, n - 1, 0)
            f2.pop("on_append", None)
            p.mut += 1
            return p.new_obj("list", f2)
        if isinstance(base, Ref) and p.obj(base).cls == "list" and "len" in p.obj(base).f and lo is None and hi is not None:
            # xs[:h] of an abstract list, h symbolic: the first min(max(h, 0) or len+h, len) elements
            o = p.obj(base)
            n = o.f["len"]
            h = to_z3(self.unwrap(hi, p, "slice", ln))
            h2 = z3.If(h < 0, z3.If(n + h < 0, 0, n + h), z3.If(h > n, n, h))
            f2 = dict(o.f)
            f2["len"] = h2
            f2.pop("on_append", None)
            p.mut += 1
            return p.new_obj("list", f2)
        if isinstance(base, Ref) and p.obj(base).cls == "bytearray":
            s = p.obj(base).f["content"]
            r = self.seq_slice(s, lo, hi, p, ln)
            # slicing a bytearray yields a new bytearray; only its bytes are used
            return r
        if isinstance(base, bytes):
            base = bytes_val(base)
        if is_z3(base) and base.sort() == BYTES:
            return self.seq_slice(base, lo, hi, p, ln)
        raise Unsupported("slice of %r line %s" % (base, ln))

    def seq_slice(self, s, lo, hi, p, ln):
        if ABSTRACT_BYTES:
            # no law about slices is available in this mode: an uninterpreted function
            # (sound, and enough to keep going when changed code starts slicing stems)
            lo_ = z3.IntVal(0) if lo is None else to_z3(self.unwrap(lo, p, "slice", ln))
            hi_ = z3.IntVal(-1) if hi is None else to_z3(self.unwrap(hi, p, "slice", ln))
            return BSLICE(s, lo_, hi_)
        n = z3.Length(s)
        lo = z3.IntVal(0) if lo is None else to_z3(self.unwrap(lo, p, "slice", ln))
        hi = n if hi is None else to_z3(self.unwrap(hi, p, "slice", ln))
        # Python clamps; negative bounds are outside the subset (obligation)
        self.oblige(p, "slice-bounds-nonneg", z3.And(lo >= 0, hi >= 0), ln, "safety")
        lo2 = z3.If(lo > n, n, lo)
        hi2 = z3.If(hi > n, n, hi)
        return z3.Extract(s, lo2, z3.If(hi2 > lo2, hi2 - lo2, 0))

    def ev_UnaryOp(self, e, p, fctx):
        if isinstance(e.op, ast.Not):
            out = []
            for p1, v in self.ev(e.operand, p, fctx):
                out.append((p1, znot(self.truth(v, p1))))
            return out
        out = []
        for p1, v in self.ev(e.operand, p, fctx):
            if isinstance(e.op, ast.USub):
                out.append((p1, -v))
            elif isinstance(e.op, ast.Invert):
                out.append((p1, ~v))
            else:
                raise Unsupported("unary op")
        return out

    def ev_BoolOp(self, e, p, fctx):
        # value semantics of `a or b` / `a and b`
        out = []
        isor = isinstance(e.op, ast.Or)

        def rec(p1, i):
            res = []
            for p2, v in self.ev(e.values[i], p1, fctx):
                if i == len(e.values) - 1:
                    res.append((p2, v))
                    continue
                t = self.truth(v, p2)
                # `x or None` with x bytes: merge into an Opt instead of forking
                if isor and i == len(e.values) - 2 and isinstance(e.values[-1], ast.Constant) and e.values[-1].value is None and not isinstance(t, bool):
                    inner = v.val if isinstance(v, Opt) else v
                    res.append((p2, Opt(z3.simplify(z3.Not(t)), inner)))
                    continue
                for p3, c in self.branch(p2, t):
                    if c == isor:
                        res.append((p3, v))
                    else:
                        res += rec(p3, i + 1)
            return res

        return rec(p, 0)

    def ev_IfExp(self, e, p, fctx):
        out = []
        for p1, c in self.ev_cond(e.test, p, fctx):
            out += self.ev(e.body if c else e.orelse, p1, fctx)
        return out

    def ev_Compare(self, e, p, fctx):
        if len(e.ops) != 1:
            # a < b < c: every operand evaluated once, left to right (operands without
            # side effects: the conjunction of the pairwise comparisons)
            vals = [(p, [])]
            for operand in [e.left] + list(e.comparators):
                nxt = []
                for p1, acc in vals:
                    for p2, v in self.ev(operand, p1, fctx):
                        nxt.append((p2, acc + [v]))
                vals = nxt
            out = []
            for p1, acc in vals:
                cs = [self.compare(op, acc[k], acc[k + 1], p1, e.lineno) for k, op in enumerate(e.ops)]
                if all(isinstance(c, bool) for c in cs):
                    out.append((p1, all(cs)))
                else:
                    out.append((p1, zand(*[c for c in cs if not (isinstance(c, bool) and c)]) if not any(isinstance(c, bool) and not c for c in cs) else False))
            return out
        out = []
        for p1, l in self.ev(e.left, p, fctx):
            for p2, r in self.ev(e.comparators[0], p1, fctx):
                out.append((p2, self.compare(e.ops[0], l, r, p2, e.lineno)))
        return out

    def compare(self, op, l, r, p, ln):
        if isinstance(op, (ast.Is, ast.IsNot)):
            neg = isinstance(op, ast.IsNot)
            if r is None or l is None:
                x = l if r is None else r
                if isinstance(x, Opt):
                    c = x.none
                else:
                    c = x is None
                return znot(c) if neg else c
            raise Unsupported("`is` on non-None")
        if isinstance(op, (ast.In, ast.NotIn)):
            c = self.contains(r, l, p, ln)
            return znot(c) if isinstance(op, ast.NotIn) else c
        # None comparisons with == / !=
        if l is None or r is None or isinstance(l, Opt) or isinstance(r, Opt):
            if isinstance(op, (ast.Eq, ast.NotEq)):
                c = self.opt_eq(l, r, p)
                return znot(c) if isinstance(op, ast.NotEq) else c
            l = self.unwrap(l, p, "ordering comparison", ln)
            r = self.unwrap(r, p, "ordering comparison", ln)
        conc = (int, bool, bytes, str, tuple)
        if isinstance(l, conc) and isinstance(r, conc):
            return {ast.Eq: lambda: l == r, ast.NotEq: lambda: l != r, ast.Lt: lambda: l < r, ast.LtE: lambda: l <= r, ast.Gt: lambda: l > r, ast.GtE: lambda: l >= r}[type(op)]()
        if isinstance(l, Ref) or isinstance(r, Ref):
            if isinstance(op, (ast.Eq, ast.NotEq)) and isinstance(l, Ref) and isinstance(r, Ref):
                raise Unsupported("object equality")
            raise Unsupported("comparison on objects")
        lz, rz = self.coerce_pair(l, r)
        if lz.sort() == BYTES:
            if isinstance(op, ast.Eq):
                return lz == rz
            if isinstance(op, ast.NotEq):
                return lz != rz
            # byte-string ordering through the order embedding (A3)
            lz, rz = ORD(lz), ORD(rz)
        if z3.is_bv_sort(lz.sort()):
            m = {ast.Eq: lambda: lz == rz, ast.NotEq: lambda: lz != rz, ast.Lt: lambda: z3.ULT(lz, rz), ast.LtE: lambda: z3.ULE(lz, rz), ast.Gt: lambda: z3.UGT(lz, rz), ast.GtE: lambda: z3.UGE(lz, rz)}
        else:
            m = {ast.Eq: lambda: lz == rz, ast.NotEq: lambda: lz != rz, ast.Lt: lambda: lz < rz, ast.LtE: lambda: lz <= rz, ast.Gt: lambda: lz > rz, ast.GtE: lambda: lz >= rz}
        return m[type(op)]()

    def opt_eq(self, l, r, p):
        def split(x):
            if isinstance(x, Opt):
                return x.none, x.val
            return (x is None), x

        ln_, lv = split(l)
        rn_, rv = split(r)
        if lv is None or rv is None:
            both = zand(ln_, rn_) if not (isinstance(ln_, bool) and isinstance(rn_, bool)) else (ln_ and rn_)
            return both
        lz, rz = self.coerce_pair(lv, rv)
        eqv = lz == rz
        a = to_z3(ln_) if isinstance(ln_, bool) else ln_
        b = to_z3(rn_) if isinstance(rn_, bool) else rn_
        return z3.simplify(z3.Or(z3.And(a, b), z3.And(z3.Not(a), z3.Not(b), eqv)))

    def coerce_pair(self, l, r):
        lz = to_z3(l) if not is_z3(l) else l
        rz = to_z3(r) if not is_z3(r) else r
        if lz.sort() == rz.sort():
            return lz, rz
        if z3.is_bv_sort(lz.sort()) and rz.sort() == INT and isinstance(r, int):
            return lz, z3.BitVecVal(r, lz.sort().size())
        if z3.is_bv_sort(rz.sort()) and lz.sort() == INT and isinstance(l, int):
            return z3.BitVecVal(l, rz.sort().size()), rz
        if lz.sort() == REAL and rz.sort() == INT:
            return lz, z3.ToReal(rz)
        if lz.sort() == INT and rz.sort() == REAL:
            return z3.ToReal(lz), rz
        if lz.sort() == BOOL and rz.sort() == INT:
            return z3.If(lz, 1, 0), rz
        if lz.sort() == INT and rz.sort() == BOOL:
            return lz, z3.If(rz, 1, 0)
        raise Unsupported("sorts %s vs %s" % (lz.sort(), rz.sort()))

    def contains(self, container, item, p, ln):
        if isinstance(container, (tuple, bytes, str, dict)) and isinstance(item, (int, bytes, str)):
            return item in container
        if isinstance(container, Ref):
            o = p.obj(container)
            if o.cls in ("set", "dict", "Counter"):
                return self.contracts.map_contains(self, p, container, item, ln)
            h = self.contracts.methods.get((o.cls, "__contains__"))
            if h:
                return h(self, p, container, item, ln)
        if (isinstance(container, bytes) or (is_z3(container) and container.sort() == BYTES)) and (isinstance(item, bytes) or (is_z3(item) and item.sort() == BYTES)):
            return z3.Contains(to_z3(container), to_z3(item))
        raise Unsupported("`in` on %r line %s" % (container, ln))

    def ev_BinOp(self, e, p, fctx):
        out = []
        for p1, l in self.ev(e.left, p, fctx):
            for p2, r in self.ev(e.right, p1, fctx):
                out.append((p2, self.binop(e.op, l, r, p2, e.lineno)))
        return out

    def binop(self, op, l, r, p, ln):
        l = self.unwrap(l, p, "operand", ln) if (isinstance(l, Opt) or l is None) else l
        r = self.unwrap(r, p, "operand", ln) if (isinstance(r, Opt) or r is None) else r
        from fractions import Fraction

        conc = (int, bool, bytes, str, Fraction)
        if isinstance(l, conc) and isinstance(r, conc):
            try:
                return {
                    ast.Add: lambda: l + r,
                    ast.Sub: lambda: l - r,
                    ast.Mult: lambda: l * r,
                    ast.Div: lambda: _exact_div(l, r),
                    ast.FloorDiv: lambda: l // r,
                    ast.Mod: lambda: l % r,
                    ast.LShift: lambda: l << r,
                    ast.RShift: lambda: l >> r,
                    ast.BitAnd: lambda: l & r,
                    ast.BitOr: lambda: l | r,
                    ast.Pow: lambda: l ** r,
                }[type(op)]()
            except ZeroDivisionError:
                self.oblige(p, "division-by-zero", False, ln, "safety")
                raise DeadPath()
        # list arithmetic on concrete lists
        if isinstance(l, Ref) and p.obj(l).cls == "list" and "items" in p.obj(l).f:
            if isinstance(op, ast.Add) and isinstance(r, Ref) and "items" in p.obj(r).f:
                return p.new_obj("list", {"items": p.obj(l).f["items"] + p.obj(r).f["items"]})
            if isinstance(op, ast.Mult) and isinstance(r, int):
                return p.new_obj("list", {"items": p.obj(l).f["items"] * r})
        if isinstance(l, Ref) or isinstance(r, Ref):
            return self.contracts.obj_binop(self, p, op, l, r, ln)
        if isinstance(l, tuple) and isinstance(r, tuple) and isinstance(op, ast.Add):
            return l + r
        if isinstance(l, str) or isinstance(r, str):
            raise Unsupported("str formatting line %s" % ln)
        lz, rz = self.coerce_pair(l, r) if not (isinstance(op, (ast.LShift, ast.RShift)) and False) else (to_z3(l), to_z3(r))
        s = lz.sort()
        if s == BYTES:
            if isinstance(op, ast.Add):
                return bcat(lz, rz)
            raise Unsupported("bytes op")
        if z3.is_bv_sort(s):
            m = {ast.BitAnd: lambda: lz & rz, ast.BitOr: lambda: lz | rz, ast.RShift: lambda: z3.LShR(lz, rz), ast.LShift: lambda: lz << rz, ast.BitXor: lambda: lz ^ rz}
            if type(op) in m:
                return m[type(op)]()
            raise Unsupported("bv op %s" % type(op).__name__)
        if s == INT:
            if isinstance(op, ast.Add):
                return lz + rz
            if isinstance(op, ast.Sub):
                return lz - rz
            if isinstance(op, ast.Mult):
                return lz * rz
            if isinstance(op, (ast.FloorDiv, ast.Mod)):
                self.oblige(p, "division-by-zero", rz != 0, ln, "safety")
                if isinstance(r, int) and r > 0:
                    return lz / rz if isinstance(op, ast.FloorDiv) else lz % rz  # z3 div/mod = floor for positive divisor
                raise Unsupported("floor division by a symbolic divisor")
            if isinstance(op, ast.Div):
                self.oblige(p, "division-by-zero", rz != 0, ln, "safety")
                return z3.ToReal(lz) / z3.ToReal(rz)
            if isinstance(op, ast.RShift) and isinstance(r, int):
                # x >> k == floor(x / 2**k) for x >= 0 (obligation)
                self.oblige(p, "shift-of-nonnegative", lz >= 0, ln, "safety")
                return lz / z3.IntVal(2 ** r)
            if isinstance(op, ast.LShift) and isinstance(r, int):
                return lz * z3.IntVal(2 ** r)
            raise Unsupported("int op %s line %s" % (type(op).__name__, ln))
        if s == REAL:
            m = {ast.Add: lambda: lz + rz, ast.Sub: lambda: lz - rz, ast.Mult: lambda: lz * rz}
            if type(op) in m:
                return m[type(op)]()
            if isinstance(op, ast.Div):
                self.oblige(p, "division-by-zero", rz != 0, ln, "safety")
                return lz / rz
        raise Unsupported("binop %s on %s line %s" % (type(op).__name__, s, ln))

    def ev_JoinedStr(self, e, p, fctx):
        raise Unsupported("f-string")

    def ev_GeneratorExp(self, e, p, fctx):
        return self.contracts.genexp(self, e, p, fctx)

    def ev_ListComp(self, e, p, fctx):
        return self.contracts.genexp(self, e, p, fctx, as_list=True)

    def ev_Starred(self, e, p, fctx):
        raise Unsupported("starred")

    def ev_Lambda(self, e, p, fctx):
        raise Unsupported("lambda")

    def ev_Yield(self, e, p, fctx):
        raise Unsupported("yield used as an expression")

    # ------------------------------------------------------------------ calls
    def ev_Call(self, e, p, fctx):
        ln = e.lineno
        # evaluate callee
        out = []
        if isinstance(e.func, ast.Attribute):
            recvs = self.ev(e.func.value, p, fctx)
            callees = []
            for p1, rv in recvs:
                callees.append((p1, ("attr", rv, e.func.attr)))
        else:
            callees = [(p1, ("val", v, None)) for p1, v in self.ev(e.func, p, fctx)] if not (isinstance(e.func, ast.Name) and e.func.id in BUILTIN_NAMES and e.func.id not in p.env) else [(p, ("builtin", e.func.id, None))]
        for p1, callee in callees:
            # arguments
            argsets = [(p1, [], {})]
            for a in e.args:
                nxt = []
                for p2, acc, kw in argsets:
                    if isinstance(a, ast.Starred):
                        for p3, v in self.ev(a.value, p2, fctx):
                            items = self.iter_concrete(v, p3)
                            nxt.append((p3, acc + list(items), kw))
                    else:
                        for p3, v in self.ev(a, p2, fctx):
                            nxt.append((p3, acc + [v], kw))
                argsets = nxt
            for k in e.keywords:
                nxt = []
                for p2, acc, kw in argsets:
                    if k.arg is None:
                        for p3, v in self.ev(k.value, p2, fctx):
                            if isinstance(v, Ref) and p3.obj(v).cls == "record":
                                kw2 = dict(kw)
                                kw2.update(p3.obj(v).f["items"])
                                nxt.append((p3, acc, kw2))
                            else:
                                raise Unsupported("**kwargs")
                    else:
                        for p3, v in self.ev(k.value, p2, fctx):
                            kw2 = dict(kw)
                            kw2[k.arg] = v
                            nxt.append((p3, acc, kw2))
                argsets = nxt
            for p2, args, kw in argsets:
                try:
                    out += self.do_call(callee, args, kw, p2, fctx, ln)
                except DeadPath:
                    pass
        return out

    def iter_concrete(self, v, p):
        if isinstance(v, tuple):
            return v
        if isinstance(v, Ref) and p.obj(v).cls == "list" and "items" in p.obj(v).f:
            return p.obj(v).f["items"]
        raise Unsupported("star-args over a symbolic sequence")

    def do_call(self, callee, args, kw, p, fctx, ln):
        kind, a, b = callee
        if kind == "builtin":
            return self.contracts.builtin(self, a, args, kw, p, fctx, ln)
        if kind == "attr":
            recv, name = a, b
            if isinstance(recv, Opt):
                recv = self.unwrap(recv, p, "method call .%s" % name, ln)
            if recv is None:
                self.oblige(p, "not-None:method call .%s" % name, False, ln, "safety")
                raise DeadPath()
            if isinstance(recv, Ref):
                cls = p.obj(recv).cls
                mname = _mangle(name, fctx)
                if mname in p.obj(recv).f and isinstance(p.obj(recv).f[mname], Func):
                    return self.call_func(p.obj(recv).f[mname], args, kw, p, ln)
                fn = self.program.find_method(cls, mname)
                if fn is not None:
                    return self.call_func(Func(fn.qual, fn.node, fn.module, cls=fn.cls, recv=recv), args, kw, p, ln)
                return self.contracts.method(self, recv, cls, name, args, kw, p, fctx, ln)
            if isinstance(recv, ModuleVal):
                v = self.program.global_value(recv.name, name)
                if isinstance(v, Func):
                    return self.call_func(v, args, kw, p, ln)
                return self.contracts.module_call(self, recv.name, name, args, kw, p, fctx, ln)
            return self.contracts.value_method(self, recv, name, args, kw, p, fctx, ln)
        v = a
        if isinstance(v, Func):
            return self.call_func(v, args, kw, p, ln)
        if isinstance(v, BoundBuiltin):
            return self.do_call(("attr", v.recv, v.name), args, kw, p, fctx, ln)
        if isinstance(v, ClassVal):
            return self.instantiate(v, args, kw, p, ln)
        raise Unsupported("call of %r line %s" % (v, ln))

    def instantiate(self, cv, args, kw, p, ln):
        if cv.name in ("Counter", "set", "dict") and not args:
            p = p.fork()
            return [(p, self.contracts.new_map(self, p, cv.name))]
        c = self.contracts.lookup(cv.qual + ".__new__")
        if c is not None:
            return c.apply(self, p, None, args, kw, ln)
        p = p.fork()
        ref = p.new_obj(cv.name, {})
        init = self.program.find_method(cv.name, "__init__")
        if init is None:
            return [(p, ref)]
        res = self.call_func(Func(init.qual, init.node, init.module, cls=init.cls, recv=ref), args, kw, p, ln)
        return [(p1, ref) for p1, _ in res]

    def call_func(self, f, args, kw, p, ln):
        c = self.contracts.lookup(f.qual)
        if c is not None and c.has_apply():
            # a caller is checked against the callee's contract, not its body
            # (recursion: own contract, partial correctness)
            self.stats["contracts_used"].add(f.qual)
            return c.apply(self, p, f.recv, args, kw, ln)
        return self.inline(f, args, kw, p, ln)

    def fn_under_inline_guard(self):
        return None

    def bind(self, f, args, kw, p):
        a = f.node.args
        params = [x.arg for x in a.args]
        env = {}
        if f.recv is not None:
            env[params[0]] = f.recv
            params = params[1:]
        if len(args) > len(params):
            raise Unsupported("too many positional arguments for %s" % f.qual)
        for n, v in zip(params, args):
            env[n] = v
        defaults = a.defaults
        dnames = params[len(params) - len(defaults) :] if defaults else []
        for n in params[len(args) :]:
            if n in kw:
                env[n] = kw[n]
            elif n in dnames:
                d = defaults[dnames.index(n)]
                if not isinstance(d, ast.Constant):
                    raise Unsupported("non-constant default")
                env[n] = d.value
            else:
                raise TypeErrorCall("%s() missing argument %s" % (f.qual, n))
        extra = {}
        for k in kw:
            if k not in params:
                if a.kwarg is not None:
                    extra[k] = kw[k]
                    continue
                raise TypeErrorCall("%s() unexpected keyword %s" % (f.qual, k))
        if a.kwarg is not None:
            env[a.kwarg.arg] = p.new_obj("record", {"items": extra})
        return env

    def inline(self, f, args, kw, p, ln):
        if self.inline_depth > 12:
            raise Unsupported("inline depth (recursion without a contract?) at %s" % f.qual)
        if _is_generator(f.node):
            return self.contracts.generator_call(self, f, args, kw, p, ln)
        self.stats["inlined"].add(f.qual)
        try:
            env = self.bind(f, args, kw, p)
        except TypeErrorCall as te:
            self.oblige(p, "call-shape:%s" % te, False, ln, "safety")
            raise DeadPath()
        saved = p.env
        q = p.fork()
        q.env = env
        mut0 = q.mut
        sub = FCtx(f.qual, f.module, f.cls, closure=getattr(f, "closure", None))
        self.inline_depth += 1
        try:
            res = self.block(f.node.body, q, sub)
        finally:
            self.inline_depth -= 1
        out = []
        for p1, kind, val in res:
            p1.env = saved
            if kind == "raise":
                out.append(("raise", p1, val))
            elif kind in ("return", "normal"):
                out.append(("ok", p1, val if kind == "return" else None))
            else:
                raise Unsupported("break/continue escaping a function")
        oks = [(p1, v) for k, p1, v in out if k == "ok"]
        raises = [(p1, v) for k, p1, v in out if k == "raise"]
        for p1, (ename, eln) in raises:
            self.pending_raise(p1, ename, eln, f.qual)
        merged = self.merge(p, oks, mut0)
        return merged

    def pending_raise(self, p, ename, eln, where):
        """an exception escaping an inlined callee propagates to the caller: recorded
        on a side list and re-raised by the statement driver"""
        raise_paths = getattr(self, "_raises", None)
        if raise_paths is None:
            self._raises = raise_paths = []
        raise_paths.append((p, ename, eln, where))

    def merge(self, p0, oks, mut0):
        """merge side-effect-free return paths into one (keeps path counts linear)"""
        if len(oks) <= 1:
            return oks
        if any(p1.mut != mut0 for p1, _ in oks):
            return oks
        n0 = len(p0.pc)
        vals = [v for _, v in oks]
        if any(isinstance(v, (Ref, Raw, Func, tuple)) or (isinstance(v, Opt) and isinstance(v.val, (Ref, Raw))) for v in vals):
            return oks
        try:
            acc = None
            for p1, v in reversed(oks):
                cond = zand(*p1.pc[n0:])
                acc = v if acc is None else _ite(cond, v, acc)
        except Unsupported:
            return oks
        q = p0.fork()
        # the disjunction of the branch conditions holds (other branches raised)
        q.assume(z3.Or(*[zand(*p1.pc[n0:]) for p1, _ in oks]) if len(oks) > 1 else True)
        return [(q, acc)]

    def merge_states(self, p0, results):
        """join the fall-through paths of an `if` whose branches differ only in scalar
        values (locals, object fields, world components): keeps the number of paths
        linear in the number of consecutive conditionals"""
        normal = [(q, k, v) for q, k, v in results if k == "normal"]
        others = [(q, k, v) for q, k, v in results if k != "normal"]
        if len(normal) < 2:
            return results
        if _os.environ.get("PYVC_DEBUG_MERGE"):
            print("merge attempt", len(normal))
        n0 = len(p0.pc)
        for q, _, _ in normal:
            if len(q.pc) < n0 or any(not a.eq(b) for a, b in zip(q.pc[:n0], p0.pc)):
                return results
            if any(_has_quant(c) for c in q.pc[n0:]):
                return results
            if q.out != normal[0][0].out and len(q.out) != len(normal[0][0].out):
                return results
        base = normal[0][0]
        conds = [zand(*q.pc[n0:]) for q, _, _ in normal]
        try:
            m = base.fork()
            m.pc = list(p0.pc)
            m.assume(z3.Or(*[to_z3(c) for c in conds]))

            def join(vals):
                acc = vals[-1]
                for c, v in reversed(list(zip(conds[:-1], vals[:-1]))):
                    acc = _ite_val(c, v, acc)
                return acc

            keys = set(base.env)
            for q, _, _ in normal:
                if set(q.env) != keys or set(q.heap) != set(base.heap) or set(q.w) != set(base.w):
                    return results
            for k in keys:
                m.env[k] = join([q.env[k] for q, _, _ in normal])
            for k in base.w:
                m.w[k] = join([q.w[k] for q, _, _ in normal])
            for oid, o in base.heap.items():
                for q, _, _ in normal:
                    o2 = q.heap[oid]
                    if o2.cls != o.cls or set(o2.f) != set(o.f):
                        return results
                for fk in o.f:
                    vals = [q.heap[oid].f[fk] for q, _, _ in normal]
                    if isinstance(vals[0], list):
                        if any(not isinstance(v, list) or len(v) != len(vals[0]) for v in vals):
                            return results
                        m.heap[oid].f[fk] = [join([v[i] for v in vals]) for i in range(len(vals[0]))]
                    else:
                        m.heap[oid].f[fk] = join(vals)
            if len(base.out) and any(q.out is not base.out for q, _, _ in normal):
                for i in range(len(base.out)):
                    m.out[i] = join([q.out[i] for q, _, _ in normal])
            m.mut = max(q.mut for q, _, _ in normal) + 1
        except _NoMerge:
            if _os.environ.get("PYVC_DEBUG_MERGE"):
                print("no merge (value kinds)")
            return results
        return others + [(m, "normal", None)]

    # ------------------------------------------------------------------ loops
    def loop(self, st, p, fctx):
        return self.contracts.loop(self, st, p, fctx)


class FCtx(object):
    """per-function execution context"""

    def __init__(self, qual, module, cls, closure=None, on_yield=None):
        self.qual, self.module, self.cls, self.closure = qual, module, cls, closure
        self._on_yield = on_yield

    def on_yield(self, ex, p, v, ln):
        if self._on_yield is None:
            raise Unsupported("yield outside a generator contract")
        return self._on_yield(ex, p, v, ln)


class DeadPath(Exception):
    """the current path ended in a (recorded) safety obligation"""


class TypeErrorCall(Exception):
    pass


class ModuleVal(object):
    def __init__(self, name):
        self.name = name


class ClassVal(object):
    def __init__(self, name, qual):
        self.name, self.qual = name, qual


class BoundBuiltin(object):
    def __init__(self, recv, name):
        self.recv, self.name = recv, name


BUILTIN_NAMES = {"len", "bool", "int", "float", "list", "range", "isinstance", "reversed", "set", "dict", "bytearray", "enumerate", "str", "sorted", "max", "min", "tuple"}


def _ite(c, a, b):
    def split(x):
        if isinstance(x, Opt):
            return x.none, x.val
        if x is None:
            return True, None
        return False, x

    an, av = split(a)
    bn, bv = split(b)
    if isinstance(an, bool) and isinstance(bn, bool) and not an and not bn:
        if isinstance(av, bool) and isinstance(bv, bool) and av == bv:
            return av
        az, bz = to_z3(av), to_z3(bv)
        if az.sort() != bz.sort():
            raise Unsupported("merge of different sorts")
        return z3.simplify(z3.If(c, az, bz))
    nn = z3.simplify(z3.If(c, to_z3(an) if isinstance(an, bool) else an, to_z3(bn) if isinstance(bn, bool) else bn))
    if av is None and bv is None:
        return None
    if av is None:
        vv = bv
    elif bv is None:
        vv = av
    else:
        az, bz = to_z3(av), to_z3(bv)
        if az.sort() != bz.sort():
            raise Unsupported("merge of different sorts")
        vv = z3.simplify(z3.If(c, az, bz))
    return Opt(nn, vv)


class _NoMerge(Exception):
    pass


def _same(a, b):
    if a is b:
        return True
    if is_z3(a) and is_z3(b):
        return a.eq(b)
    if isinstance(a, Opt) and isinstance(b, Opt):
        return _same(a.none, b.none) and _same(a.val, b.val)
    if isinstance(a, (Ref,)) and isinstance(b, Ref):
        return a == b
    if isinstance(a, tuple) and isinstance(b, tuple) and len(a) == len(b):
        return all(_same(x, y) for x, y in zip(a, b))
    if type(a) is type(b) and isinstance(a, (int, bool, bytes, str, type(None))):
        return a == b
    if isinstance(a, dict) and isinstance(b, dict) and set(a) == set(b):
        return all(_same(a[k], b[k]) for k in a)
    return False


def _ite_val(c, a, b):
    try:
        return _ite_val2(c, a, b)
    except _NoMerge:
        if _os.environ.get("PYVC_DEBUG_MERGE"):
            print("   kinds", type(a).__name__, type(b).__name__, str(a)[:70], "|", str(b)[:70])
        raise


def _ite_val2(c, a, b):
    if _same(a, b):
        return a
    if isinstance(a, (Ref, Raw, Func)) or isinstance(b, (Ref, Raw, Func)) or callable(a) or callable(b):
        if _os.environ.get("PYVC_DEBUG_MERGE"):
            print("   kinds", type(a).__name__, type(b).__name__, str(a)[:60], str(b)[:60])
        raise _NoMerge()
    if isinstance(a, tuple) or isinstance(b, tuple):
        if isinstance(a, tuple) and isinstance(b, tuple) and len(a) == len(b):
            return tuple(_ite_val(c, x, y) for x, y in zip(a, b))
        raise _NoMerge()
    if isinstance(a, (str, dict)) or isinstance(b, (str, dict)):
        raise _NoMerge()
    if isinstance(a, Opt) and isinstance(a.val, (Ref, Raw)) or isinstance(b, Opt) and isinstance(b.val, (Ref, Raw)):
        raise _NoMerge()
    try:
        return _ite(c, a, b)
    except Unsupported:
        raise _NoMerge()


def _exact_div(l, r):
    from fractions import Fraction

    return Fraction(l) / Fraction(r)


_HQ = {}


def _has_quant(c):
    i = c.get_id()
    r = _HQ.get(i)
    if r is None:
        r = _has_quant_compute(c)
        _HQ[i] = (r, c)
        return r
    return r[0]


def _has_quant_compute(c):
    seen = set()
    stack = [c]
    while stack:
        x = stack.pop()
        if x.get_id() in seen:
            continue
        seen.add(x.get_id())
        if z3.is_quantifier(x):
            return True
        stack.extend(x.children())
    return False


def _is_warn(e):
    return isinstance(e, ast.Call) and isinstance(e.func, ast.Attribute) and isinstance(e.func.value, ast.Name) and e.func.value.id == "warnings" and e.func.attr == "warn"


def _exc_name(e):
    if e is None:
        return "re-raise"
    if isinstance(e, ast.Call):
        e = e.func
    if isinstance(e, ast.Name):
        return e.id
    if isinstance(e, ast.Attribute):
        return e.attr
    return "Exception"


def _as_load(t):
    import copy

    t2 = copy.deepcopy(t)
    for n in ast.walk(t2):
        if hasattr(n, "ctx"):
            n.ctx = ast.Load()
    return t2


def _mangle(attr, fctx):
    if attr.startswith("__") and not attr.endswith("__") and fctx.cls:
        return "_%s%s" % (fctx.cls, attr)
    return attr


def _is_generator(fn):
    for n in ast.walk(fn):
        if isinstance(n, (ast.Yield, ast.YieldFrom)):
            # not inside a nested def
            return _owner(fn, n) is fn
    return False


def _owner(fn, node):
    """innermost FunctionDef containing node"""
    best = [fn]

    def rec(cur, owner):
        for ch in ast.iter_child_nodes(cur):
            if ch is node:
                best[0] = owner
                return True
            no = ch if isinstance(ch, (ast.FunctionDef, ast.Lambda)) else owner
            if rec(ch, no):
                return True
        return False

    rec(fn, fn)
    return best[0]


def _closure(fctx, st, p):
    f = Func(fctx.qual + "." + st.name, st, fctx.module, cls=fctx.cls)
    f.closure = p.env  # by reference: nested functions see later assignments too
    return f
