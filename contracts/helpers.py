"""
Contracts for traph/helpers.py (DESIGN 4.4).

detailed_chunks_iter(n, s) yields (is_last_i, c_i) for i < k with
   k = 1 if len(s) <= n else ceil(len(s)/n),  c_i = s[n*i : n*i+n],  is_last_i <=> i = k-1
(so the chunks concatenate to s, every chunk but the last has n bytes, the last 1..n —
or the single chunk is the empty string).  Verified for the chunk sizes in CHUNK_SIZES
(74 is the only size any caller passes: LRU_TRIE_STEM_SIZE); a symbolic size would make
n*i non-linear.
"""
import z3

from pyvc.lib import Contract, LoopSpec, SeqView
from pyvc.sym import BOOL, BYTES, INT, Opt, Path, Unsupported, bytes_val, fresh, to_z3

CHUNK_SIZES = (74, 1, 2, 128)


def nchunks(L, n):
    return z3.If(L <= n, 1, (L + n - 1) / n)


def chunk(s, n, i):
    L = z3.Length(s)
    rem = L - n * i
    return z3.Extract(s, n * i, z3.If(rem < n, rem, n))


class DetailedChunks(Contract):
    qual = "detailed_chunks_iter"

    def setups(self, ex):
        for n in CHUNK_SIZES:
            p = Path()
            s = fresh("string", BYTES)
            p.w["__s"] = s
            p.w["out.n"] = z3.IntVal(0)
            p.w["out.last"] = fresh("out_last", z3.ArraySort(INT, BOOL))
            p.w["out.chunk"] = fresh("out_chunk", z3.ArraySort(INT, BYTES))
            yield p, None, [n, s], {}, n

    def on_yield(self, ex, p, v, ln, tag):
        if not (isinstance(v, tuple) and len(v) == 2):
            ex.oblige(p, "yields-a-pair", False, ln)
            return []
        n = p.w["out.n"]
        p.w["out.last"] = z3.Store(p.w["out.last"], n, to_z3(ex.truth(v[0], p)))
        p.w["out.chunk"] = z3.Store(p.w["out.chunk"], n, to_z3(v[1]))
        p.w["out.n"] = z3.simplify(n + 1)
        p.mut += 1
        return [(p, "normal", None)]

    @staticmethod
    def described(p, n, upto):
        s = p.w["__s"]
        j = z3.Int("j")
        k = nchunks(z3.Length(s), n)
        return [
            ("yield-j-is-chunk-j", z3.ForAll([j], z3.Implies(z3.And(j >= 0, j < upto), z3.Select(p.w["out.chunk"], j) == chunk(s, n, j)))),
            ("is_last<=>j==k-1", z3.ForAll([j], z3.Implies(z3.And(j >= 0, j < upto), z3.Select(p.w["out.last"], j) == (j == k - 1)))),
        ]

    def check(self, ex, p0, res, n):
        s = p0.w["__s"]
        k = nchunks(z3.Length(s), n)
        for p1, kind, val in res:
            if kind == "raise":
                ex.oblige(p1, "raises-nothing(%s)" % val[0], False, val[1])
                continue
            ex.oblige(p1, "number-of-chunks", p1.w["out.n"] == k, None)
            for nm, f in self.described(p1, n, p1.w["out.n"]):
                ex.oblige(p1, nm, f, None)

    def seq(self, ex, p, recv, args, kw, ln):
        n, s = args[0], to_z3(args[1])
        if not isinstance(n, int) or n not in CHUNK_SIZES:
            raise Unsupported("detailed_chunks_iter with a chunk size outside %r" % (CHUNK_SIZES,))
        k = nchunks(z3.Length(s), n)
        return p, SeqView(k, lambda i: (i == k - 1, chunk(s, n, i)))


def chunks_loop_inv(ex, p):
    n = p.env["chunk_size"]
    idx = [k for k in p.env if k.startswith("__i")][0]
    i = to_z3(p.env[idx])
    cs = [("yields-so-far==iterations", p.w["out.n"] == i), ("past-the-short-string-branch", z3.Length(p.w["__s"]) > n)]
    cs += DetailedChunks.described(p, n, p.w["out.n"])
    return cs


class Base4Append(Contract):
    qual = "base4_append"

    def setups(self, ex):
        p = Path()
        a, b = fresh("p", INT), fresh("n", INT)
        p.w["__a"], p.w["__b"] = a, b
        yield p, None, [a, b], {}, "any"

    def check(self, ex, p0, res, tag):
        for p1, kind, val in res:
            if kind == "raise":
                ex.oblige(p1, "raises-nothing", False, val[1])
                continue
            ex.oblige(p1, "result==4p+n", to_z3(val) == 4 * p0.w["__a"] + p0.w["__b"], None)


def install(lib):
    lib.loop_spec("detailed_chunks_iter::for#0", LoopSpec(chunks_loop_inv, world=("out.n", "out.last", "out.chunk")))
    return [DetailedChunks(), Base4Append()]


GROUP = "helpers"


class LruVariations(Contract):
    """lru_variations(lru) (C17, the two clauses a contract can decide): it raises
    nothing for ANY byte string, and the result is a list of 1..4 entries whose first is
    the input.  `split`, the host filter, `join` and the www `replace` are abstracted
    (lengths only): the identities between the entries are left to the bounded stand-in."""

    qual = "lru_variations"

    def setups(self, ex):
        p = Path()
        lru = fresh("lru", BYTES)
        p.w["__lru"] = lru
        yield p, None, [lru], {}, "any"

    def check(self, ex, p0, res, tag):
        lru = p0.w["__lru"]
        for p1, kind, val in res:
            if kind == "raise":
                ex.oblige(p1, "raises-nothing(%s)" % val[0], False, val[1])
                continue
            o = p1.obj(val) if hasattr(val, "oid") else None
            if o is None or "items" not in o.f:
                ex.oblige(p1, "returns-a-list", False, None)
                continue
            items = o.f["items"]
            ex.oblige(p1, "between-1-and-4-entries", z3.BoolVal(1 <= len(items) <= 4), None)
            ex.oblige(p1, "first-entry-is-the-prefix-itself", to_z3(items[0]) == lru, None)


class HttpsVariation(Contract):
    """https_variation switches exactly the leading scheme stem"""

    qual = "https_variation"

    def setups(self, ex):
        p = Path()
        lru = fresh("lru", BYTES)
        p.w["__lru"] = lru
        yield p, None, [lru], {}, "any"

    def check(self, ex, p0, res, tag):
        lru = p0.w["__lru"]
        http, https = to_z3(b"s:http|"), to_z3(b"s:https|")
        for p1, kind, val in res:
            if kind == "raise":
                ex.oblige(p1, "raises-nothing(%s)" % val[0], False, val[1])
                continue
            if isinstance(val, Opt):
                none, v = val.none, val.val
            else:
                none, v = z3.BoolVal(val is None), val
            is_http = z3.PrefixOf(http, lru)
            is_https = z3.PrefixOf(https, lru)
            ex.oblige(p1, "None<=>scheme-is-neither-http-nor-https", to_z3(none) == z3.Not(z3.Or(is_http, is_https)), None)
            if v is not None:
                vz = to_z3(v)
                rest_http = z3.Extract(lru, 7, z3.Length(lru) - 7)
                rest_https = z3.Extract(lru, 8, z3.Length(lru) - 8)
                ex.oblige(p1, "http->https:only-the-scheme-stem-changes", z3.Implies(z3.And(z3.Not(to_z3(none)), is_http), vz == z3.Concat(https, rest_http)), None)
                ex.oblige(p1, "https->http:only-the-scheme-stem-changes", z3.Implies(z3.And(z3.Not(to_z3(none)), z3.Not(is_http), is_https), vz == z3.Concat(http, rest_https)), None)


_install0 = install


def install(lib):
    return _install0(lib) + [HttpsVariation(), LruVariations()]


# ---------------------------------------------------------------------------- walk history (C06)
RULEPOS = z3.Function("RULEPOS", INT, INT)


class RulesToApply(Contract):
    """LRUTrieWalkHistory.rules_to_apply: one candidate anchor per recorded rule position,
    deepest first: the j-th yield is lru[0:position_(n-1-j)].  Positions recorded by the
    walks are lengths of stem-prefixes of the walked LRU, the LRU itself included
    (0 <= position <= len(lru))."""

    qual = "LRUTrieWalkHistory.rules_to_apply"

    def setups(self, ex):
        p = Path()
        lru = fresh("lru", BYTES)
        n = fresh("nrules", INT)
        j = z3.Int("j")
        p.assume(n >= 0)
        p.assume(z3.ForAll([j], z3.Implies(z3.And(j >= 0, j < n), z3.And(RULEPOS(j) >= 0, RULEPOS(j) <= z3.Length(lru)))))
        rules = p.new_obj("list", {"len": n, "elem": lambda i: RULEPOS(i)})
        h = p.new_obj("LRUTrieWalkHistory", {"lru": lru, "webentity_creation_rules": rules})
        p.w["__lru"], p.w["__n"] = lru, n
        p.w["out.n"] = z3.IntVal(0)
        p.w["out.v"] = fresh("out_v", z3.ArraySort(INT, BYTES))
        yield p, h, [], {}, "any"

    def on_yield(self, ex, p, v, ln, tag):
        n = p.w["out.n"]
        p.w["out.v"] = z3.Store(p.w["out.v"], n, to_z3(v))
        p.w["out.n"] = z3.simplify(n + 1)
        p.mut += 1
        return [(p, "normal", None)]

    @staticmethod
    def described(p, upto):
        j = z3.Int("j")
        lru, n = p.w["__lru"], p.w["__n"]
        return [("yield-j-is-the-prefix-cut-at-the-(n-1-j)-th-recorded-position", z3.ForAll([j], z3.Implies(z3.And(j >= 0, j < upto), z3.Select(p.w["out.v"], j) == z3.Extract(lru, 0, RULEPOS(n - 1 - j)))))]

    def check(self, ex, p0, res, tag):
        for p1, kind, val in res:
            if kind == "raise":
                ex.oblige(p1, "raises-nothing(%s)" % val[0], False, val[1])
                continue
            ex.oblige(p1, "one-candidate-per-recorded-rule", p1.w["out.n"] == p0.w["__n"], None)
            for nm, f in self.described(p1, p1.w["out.n"]):
                ex.oblige(p1, nm, f, None)


def _prefix_cut(lru, hi):
    from pyvc import sym

    return sym.BSLICE(lru, z3.IntVal(0), hi) if sym.ABSTRACT_BYTES else z3.Extract(lru, 0, hi)


def _rules_seq(self, ex, p, recv, args, kw, ln):
    """rules_to_apply as a callee: the sequence view of its verified postcondition (its
    precondition - every recorded position lies within the LRU - is obliged here)"""
    from pyvc.sym import blen

    o = p.obj(recv)
    rules = p.obj(o.f["webentity_creation_rules"])
    lru = to_z3(o.f["lru"])
    if "len" not in rules.f:
        raise Unsupported("rules_to_apply over a concrete rule list")
    from pyvc.sym import list_elem

    n, el = rules.f["len"], list_elem(rules)
    j = z3.Int("j")
    ex.oblige(p, "rules_to_apply:pre:positions-within-the-lru", z3.ForAll([j], z3.Implies(z3.And(j >= 0, j < n), z3.And(to_z3(el(j)) >= 0, to_z3(el(j)) <= blen(lru)))), ln, "pre")
    return p, SeqView(n, lambda i: _prefix_cut(lru, to_z3(el(n - 1 - i))))


RulesToApply.seq = _rules_seq


def rules_loop_inv(ex, p):
    idx = [k for k in p.env if k.startswith("__i")][0]
    i = to_z3(p.env[idx])
    return [("yields-so-far==iterations", p.w["out.n"] == i)] + RulesToApply.described(p, p.w["out.n"])


_install1 = install


def install(lib):
    lib.loop_spec("LRUTrieWalkHistory.rules_to_apply::for#0", LoopSpec(rules_loop_inv, world=("out.n", "out.v")))
    return _install1(lib) + [RulesToApply()]


# ---------------------------------------------------------------------------- lru_iter (removes the trusted half of A10)
SEP = z3.StringVal("|") if BYTES == z3.StringSort() else None


class LruIterSplit(Contract):
    """lru_iter(s): the yields are the consecutive, maximal `|`-terminated pieces of s:
    yield j is s[start_j : end_j] with start_0 = 0, start_(j+1) = end_j, its last byte is
    the separator and no earlier byte of it is; what remains after the last yield holds
    no separator (it is dropped).  Hence every yield is non-empty, the yields
    concatenate to s[0:end_last], and to s itself when s is empty or ends with the
    separator (a well-formed LRU): this is the sequence QS(0..QL-1), PRE(QL) = lru over
    which lru_trie.py is verified."""

    qual = "lru_iter"

    def setups(self, ex):
        p = Path()
        s = fresh("lru", BYTES)
        p.w["__s"] = s
        p.w["out.n"] = z3.IntVal(0)
        p.w["out.v"] = fresh("out_v", z3.ArraySort(INT, BYTES))
        p.w["out.end"] = fresh("out_end", z3.ArraySort(INT, INT))
        yield p, None, [s], {}, "any"

    @staticmethod
    def start(p, j):
        return z3.If(j <= 0, 0, z3.Select(p.w["out.end"], j - 1))

    def on_yield(self, ex, p, v, ln, tag):
        n = p.w["out.n"]
        vz = to_z3(v)
        p.w["out.v"] = z3.Store(p.w["out.v"], n, vz)
        p.w["out.end"] = z3.Store(p.w["out.end"], n, self.start(p, n) + z3.Length(vz))
        p.w["out.n"] = z3.simplify(n + 1)
        p.mut += 1
        return [(p, "normal", None)]

    @classmethod
    def described(cls, p, upto):
        s = p.w["__s"]
        j = z3.Int("j")
        st, en = cls.start(p, j), z3.Select(p.w["out.end"], j)
        rng = z3.And(j >= 0, j < upto)
        return [
            ("yield-j-is-the-slice-from-the-end-of-yield-j-1", z3.ForAll([j], z3.Implies(rng, z3.Select(p.w["out.v"], j) == z3.Extract(s, st, en - st)))),
            ("yield-j-is-non-empty-and-inside-the-lru", z3.ForAll([j], z3.Implies(rng, z3.And(st >= 0, st < en, en <= z3.Length(s))))),
            ("yield-j-ends-with-the-separator", z3.ForAll([j], z3.Implies(rng, z3.Extract(s, en - 1, 1) == SEP))),
            ("yield-j-holds-no-earlier-separator", z3.ForAll([j], z3.Implies(rng, z3.Not(z3.Contains(z3.Extract(s, st, en - 1 - st), SEP))))),
        ]

    def check(self, ex, p0, res, tag):
        s = p0.w["__s"]
        for p1, kind, val in res:
            if kind == "raise":
                ex.oblige(p1, "raises-nothing(%s)" % val[0], False, val[1])
                continue
            n = p1.w["out.n"]
            for nm, f in self.described(p1, n):
                ex.oblige(p1, nm, f, None)
            last = self.start(p1, n)
            ex.oblige(p1, "the-dropped-remainder-holds-no-separator", z3.Not(z3.Contains(z3.Extract(s, last, z3.Length(s) - last), SEP)), None)
            ex.oblige(p1, "well-formed-lru:the-yields-cover-it-entirely", z3.Implies(z3.Or(z3.Length(s) == 0, z3.SuffixOf(SEP, s)), last == z3.Length(s)), None)


def lru_iter_inv(ex, p):
    idx = [k for k in p.env if k.startswith("__i")][0]
    i = to_z3(p.env[idx])
    s = p.w["__s"]
    last = to_z3(p.env["last"])
    n = p.w["out.n"]
    cs = [
        ("last-is-the-end-of-the-last-yield", last == LruIterSplit.start(p, n)),
        ("last-within-the-scanned-part", z3.And(last >= 0, last <= i)),
        ("no-separator-since-last", z3.Not(z3.Contains(z3.Extract(s, last, i - last), SEP))),
        ("yields-counted", n >= 0),
    ]
    return cs + LruIterSplit.described(p, n)


_install2 = install


def install(lib):
    cs = _install2(lib)
    if SEP is not None:
        lib.loop_spec("lru_iter::for#0", LoopSpec(lru_iter_inv, world=("out.n", "out.v", "out.end")))
        cs = cs + [LruIterSplit()]
    return cs


# ---------------------------------------------------------------------------- lru_iter as a callee, lru_dirname
if SEP is not None:
    NST = z3.Function("NSTEMS", BYTES, INT)
    SEND = z3.Function("STEM_END", BYTES, INT, INT)


def _lru_iter_seq(self, ex, p, recv, args, kw, ln):
    """lru_iter as a callee: the sequence view of its verified postcondition, for the
    argument s: NSTEMS(s) pieces, piece j = s[start_j : STEM_END(s, j)]"""
    s = to_z3(args[0])
    n = NST(s)
    j = z3.Int("j")

    def start(k):
        return z3.If(k <= 0, 0, SEND(s, k - 1))

    st, en = start(j), SEND(s, j)
    rng = z3.And(j >= 0, j < n)
    q = p.fork()
    q.assume(n >= 0)
    q.assume(z3.ForAll([j], z3.Implies(rng, z3.And(st >= 0, st < en, en <= z3.Length(s)))))
    q.assume(z3.ForAll([j], z3.Implies(rng, z3.Extract(s, en - 1, 1) == SEP)))
    q.assume(z3.ForAll([j], z3.Implies(rng, z3.Not(z3.Contains(z3.Extract(s, st, en - 1 - st), SEP)))))
    last = start(n)
    q.assume(z3.Not(z3.Contains(z3.Extract(s, last, z3.Length(s) - last), SEP)))
    q.assume(z3.Implies(z3.Or(z3.Length(s) == 0, z3.SuffixOf(SEP, s)), last == z3.Length(s)))
    view = SeqView(n, lambda i: z3.Extract(s, start(i), SEND(s, i) - start(i)))
    view.joinpre = lambda k: z3.Extract(s, 0, start(k))
    return q, view


if SEP is not None:
    LruIterSplit.seq = _lru_iter_seq


class LruDirnameSplit(Contract):
    """lru_dirname(s) for a well-formed s (non-empty, closed by the separator): s minus
    its last stem - the result r is a prefix of s, is empty or closed by the separator,
    and what follows it in s is ONE stem (closed by the separator, none inside).  For the
    empty LRU the result is empty.  Lemma (discharged on strings): hence
    lru_dirname(x + k) = x whenever x is empty or closed by the separator and k is a
    stem - the law DIRNAME(LRUB(ext(p, k))) = LRUB(p) used at the trie level."""

    qual = "lru_dirname"

    def setups(self, ex):
        p = Path()
        s = fresh("lru", BYTES)
        p.w["__s"] = s
        yield p, None, [s], {}, "any"

    @staticmethod
    def spec(s, r):
        l = z3.Extract(s, z3.Length(r), z3.Length(s) - z3.Length(r))
        wf = z3.And(z3.Length(s) > 0, z3.SuffixOf(SEP, s))
        return [
            ("result-is-a-prefix-of-the-lru", z3.PrefixOf(r, s)),
            ("result-is-empty-or-closed-by-the-separator", z3.Or(z3.Length(r) == 0, z3.SuffixOf(SEP, r))),
            # (s is closed by the separator, so what follows r is closed by it as well)
            ("well-formed-lru:what-follows-the-result-is-one-stem", z3.Implies(wf, z3.And(z3.Length(r) < z3.Length(s), z3.Not(z3.Contains(z3.Extract(s, z3.Length(r), z3.Length(s) - z3.Length(r) - 1), SEP))))),
            ("empty-lru:empty-result", z3.Implies(z3.Length(s) == 0, z3.Length(r) == 0)),
        ]

    def check(self, ex, p0, res, tag):
        s = p0.w["__s"]
        for p1, kind, val in res:
            if kind == "raise":
                ex.oblige(p1, "raises-nothing(%s)" % val[0], False, val[1])
                continue
            for nm, f in self.spec(s, to_z3(val)):
                ex.oblige(p1, nm, f, None)
        # the lemma: a pure fact about byte strings
        q = Path()
        x, k, r = fresh("x", BYTES), fresh("k", BYTES), fresh("r", BYTES)
        q.assume(z3.Or(z3.Length(x) == 0, z3.SuffixOf(SEP, x)))
        q.assume(z3.And(z3.Length(k) >= 1, z3.SuffixOf(SEP, k), z3.Not(z3.Contains(z3.Extract(k, 0, z3.Length(k) - 1), SEP))))
        for nm, f in self.spec(z3.Concat(x, k), r):
            q.assume(f)
        ex.oblige(q, "lemma:dirname-of-a-path-extended-by-one-stem-is-the-path", r == x, None)


_install3 = install


def install(lib):
    cs = _install3(lib)
    if SEP is not None:
        cs = cs + [LruDirnameSplit()]
    return cs


# ---------------------------------------------------------------------------- chunks_iter
class ChunksIter(Contract):
    """chunks_iter(n, s): the chunks of detailed_chunks_iter without the is_last marks
    (verified against that generator's sequence contract)"""

    qual = "chunks_iter"

    def setups(self, ex):
        for n in CHUNK_SIZES[:2]:
            p = Path()
            s = fresh("string", BYTES)
            p.w["__s"] = s
            p.w["out.n"] = z3.IntVal(0)
            p.w["out.chunk"] = fresh("out_chunk", z3.ArraySort(INT, BYTES))
            yield p, None, [n, s], {}, n

    def on_yield(self, ex, p, v, ln, tag):
        n = p.w["out.n"]
        p.w["out.chunk"] = z3.Store(p.w["out.chunk"], n, to_z3(v))
        p.w["out.n"] = z3.simplify(n + 1)
        p.mut += 1
        return [(p, "normal", None)]

    @staticmethod
    def described(p, n, upto):
        j = z3.Int("j")
        return [("yield-j-is-chunk-j", z3.ForAll([j], z3.Implies(z3.And(j >= 0, j < upto), z3.Select(p.w["out.chunk"], j) == chunk(p.w["__s"], n, j))))]

    def check(self, ex, p0, res, n):
        k = nchunks(z3.Length(p0.w["__s"]), n)
        for p1, kind, val in res:
            if kind == "raise":
                ex.oblige(p1, "raises-nothing(%s)" % val[0], False, val[1])
                continue
            ex.oblige(p1, "number-of-chunks", p1.w["out.n"] == k, None)
            for nm, f in self.described(p1, n, p1.w["out.n"]):
                ex.oblige(p1, nm, f, None)

    def seq(self, ex, p, recv, args, kw, ln):
        n, s = args[0], to_z3(args[1])
        if not isinstance(n, int) or n not in CHUNK_SIZES:
            raise Unsupported("chunks_iter with a chunk size outside %r" % (CHUNK_SIZES,))
        return p, SeqView(nchunks(z3.Length(s), n), lambda i: chunk(s, n, i))


def chunks_iter_inv(ex, p):
    n = p.env["chunk_size"]
    idx = [k for k in p.env if k.startswith("__i")][0]
    i = to_z3(p.env[idx])
    return [("yields-so-far==iterations", p.w["out.n"] == i)] + ChunksIter.described(p, n, p.w["out.n"])


_install4 = install


def install(lib):
    cs = _install4(lib)
    if SEP is not None:
        lib.loop_spec("chunks_iter::for#0", LoopSpec(chunks_iter_inv, world=("out.n", "out.chunk")))
        cs = cs + [ChunksIter()]
    return cs
